#!/usr/bin/env python3
"""False-alarm regression of the verification machinery (not a registered check).

selftest/harmless/<PROP>.<name>.diff are behaviour-preserving refactors of /repo (renamed locals, reordered independent
statements, extracted helpers, cached values, dispatch tables, a set comprehension instead of a loop, an extra private
attribute).  Each is applied to a scratch copy outside /repo and /verif; the property's check (and the checks listed in
ALSO) must exit 0 - no VIOLATION, no 'undecided' from the obligation lock.  The <PROP>.agent-refactor.diff and <PROP>.agent-modernise.diff
patches were written by sub-agents that saw only the property text (larger restructurings, 80-200 changed lines each, each shown
equivalent by the agent's own differential test).  Two restructurings of Commissioning are expected to leave the deductive units UNDECIDED
(exit 2, never a VIOLATION line): see EXPECT_UNDECIDED.  /repo is never touched."""
import os
import shutil
import subprocess
import sys
import tempfile

HERE = os.path.dirname(os.path.dirname(os.path.abspath(__file__)))
ALSO = {"C17.hid-status-helper": ["C15", "C16", "C18", "C20"], "C05.frame-mask-cache": ["C04", "C01"],
        "C19.luba-dispatch-table": ["C16", "C20", "C18"], "C07.commissioning-helper": [], "C08.query-groups-comprehension": []}


# restructurings the loop rule / the path budget cannot follow: the check must say "undecided" (exit 2), and must not
# print a VIOLATION line
EXPECT_UNDECIDED = {
    "C07.agent-refactor": "Commissioning split into four generators: the three loop invariants are written over one "
                          "function's locals (the 'finished' flag became a return value, the address list is handed "
                          "over by reference)",
    "C01.dispatch-cache": "a correct module-level cache of which command family claimed a frame: decoding keeps state, so "
                          "the purity proof (no store to pre-existing state) does not go through, while the bounded search "
                          "finds no decode that depends on an earlier one - undecided by design, never a violation",
    "C06.status-cache": "a correct cache of the bit names per (response class, answer byte) on the module: same reasoning",
    "C05.private-rename": "Frame._error renamed: the Frame contracts are written over _bits/_data/_error; a constructor that "
                          "no longer produces them is 'another representation' - undecided, never a violation",
    "C06.private-rename": "Response._value renamed: same reasoning",
    "C07.agent-modernise": "Commissioning rewritten with nested generator closures (`sweep()`, `program()`), a generator "
                           "expression as the scan domain and `while True` instead of the `finished` flag: the loop headers "
                           "differ from the pinned ones and the invariants are not re-established, so the failures are "
                           "undecided; the bounded commissioning runs pass",
}


def main():
    d = os.path.join(HERE, "selftest", "harmless")
    sel = sys.argv[1:]
    bad = 0
    for fn in sorted(os.listdir(d)):
        if not fn.endswith(".diff") or (sel and not any(s in fn for s in sel)):
            continue
        stem = fn[:-5]
        prop = stem.split(".")[0]
        tmp = tempfile.mkdtemp(prefix="pyvc-harmless-")
        try:
            shutil.copytree("/repo/dali", os.path.join(tmp, "dali"))
            r = subprocess.run(["patch", "-p1", "-s", "-d", tmp, "-i", os.path.join(d, fn)], capture_output=True, text=True)
            if r.returncode != 0:
                print("%-45s patch does not apply: %s" % (stem, r.stdout[-200:]))
                bad += 1
                continue
            for p in [prop] + ALSO.get(stem, []):
                env = dict(os.environ, PYVC_ROOT=tmp, PYTHONPATH=tmp, PYTHONDONTWRITEBYTECODE="1",
                           PYVC_REPLAY_DIR=os.path.join(tmp, "replays"))
                if stem in EXPECT_UNDECIDED:
                    env["PYVC_UNIT_BUDGET_S"] = os.environ.get("PYVC_UNIT_BUDGET_S", "300")
                r = subprocess.run([os.path.join(HERE, ".venv/bin/python"), "-m", "pyvc.main", p, "--no-evidence"],
                                   cwd=HERE, env=env, capture_output=True, text=True)
                ok = r.returncode == 0
                if stem in EXPECT_UNDECIDED and p == prop:
                    ok = r.returncode in (0, 2) and "VIOLATION" not in r.stdout
                    print("%-45s %s %s" % (stem, p, ("undecided as expected (rc=%d)" % r.returncode) if ok
                                           else "ALARM(rc=%d)" % r.returncode))
                else:
                    print("%-45s %s %s" % (stem, p, "quiet" if ok else "ALARM(rc=%d)" % r.returncode))
                if not ok:
                    bad += 1
                    print("    " + "\n    ".join(l[:200] for l in r.stdout.splitlines()
                                               if l.startswith(("VIOLATION", "UNDECIDED", "CHECKER", "FAILED")))[:1500])
        finally:
            shutil.rmtree(tmp, ignore_errors=True)
    print("%d alarms" % bad)
    return 1 if bad else 0


if __name__ == "__main__":
    sys.exit(main())
