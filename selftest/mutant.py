#!/usr/bin/env python3
"""Run a check against a scratch copy of /repo with one textual mutation applied.

usage: mutant.py <PROP> <relative-file> <old-text> <new-text> [check args...]
The copy lives under a temp dir outside /repo and /verif and is removed afterwards.
The scratch copy shadows the editable install via PYTHONPATH; PYVC_ROOT points the
engine (and its origin guard) at the copy."""
import os, shutil, subprocess, sys, tempfile

def main():
    prop, rel, old, new = sys.argv[1:5]
    rest = sys.argv[5:]
    here = os.path.dirname(os.path.dirname(os.path.abspath(__file__)))
    tmp = tempfile.mkdtemp(prefix="pyvc-mutant-")
    try:
        shutil.copytree("/repo/dali", os.path.join(tmp, "dali"))
        p = os.path.join(tmp, rel)
        s = open(p).read()
        if s.count(old) < 1:
            print("mutation site not found"); return 4
        s = s.replace(old, new, 1)
        open(p, "w").write(s)
        compile(s, p, "exec")
        env = dict(os.environ, PYVC_ROOT=tmp, PYTHONPATH=tmp, PYTHONDONTWRITEBYTECODE="1",
                   PYVC_REPLAY_DIR=os.path.join(tmp, "replays"))
        r = subprocess.run([os.path.join(here, ".venv/bin/python"), "-m", "pyvc.main", prop, "--no-evidence"] + rest,
                           cwd=here, env=env)
        return r.returncode
    finally:
        shutil.rmtree(tmp, ignore_errors=True)

if __name__ == "__main__":
    sys.exit(main())
