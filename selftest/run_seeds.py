#!/usr/bin/env python3
"""Regression test of the verification machinery itself (not a registered check).

For every kept seed under /verif/seeded/<name>/ : copy /repo/dali to a scratch directory outside /repo and /verif,
apply patch.diff there, run the seed's property check against the copy (PYVC_ROOT + PYTHONPATH shadowing, no evidence,
no replays kept) and require exit code 1 with a VIOLATION line.  Finally run nothing on /repo itself: /repo is never
touched.  usage: run_seeds.py [name-substring ...]      exit 0 iff every selected seed is caught."""
import json
import os
import shutil
import subprocess
import sys
import tempfile

HERE = os.path.dirname(os.path.dirname(os.path.abspath(__file__)))


def run_one(name):
    d = os.path.join(HERE, "seeded", name)
    meta = json.load(open(os.path.join(d, "meta.json")))
    prop = meta["property"]
    tmp = tempfile.mkdtemp(prefix="pyvc-seed-")
    try:
        shutil.copytree("/repo/dali", os.path.join(tmp, "dali"))
        r = subprocess.run(["patch", "-p1", "-s", "-d", tmp, "-i", os.path.join(d, "patch.diff")],
                           capture_output=True, text=True)
        if r.returncode != 0:
            return name, prop, "patch-does-not-apply", r.stdout[-300:] + r.stderr[-300:]
        env = dict(os.environ, PYVC_ROOT=tmp, PYTHONPATH=tmp, PYTHONDONTWRITEBYTECODE="1",
                   PYVC_REPLAY_DIR=os.path.join(tmp, "replays"),
                   PYVC_UNIT_BUDGET_S=os.environ.get("PYVC_UNIT_BUDGET_S", "600"))
        r = subprocess.run([os.path.join(HERE, ".venv/bin/python"), "-m", "pyvc.main", prop, "--no-evidence"],
                           cwd=HERE, env=env, capture_output=True, text=True)
        lines = [l for l in r.stdout.splitlines() if l.startswith("VIOLATION")]
        verdict = "caught" if r.returncode == 1 and lines else "MISSED(rc=%d)" % r.returncode
        if meta.get("expected") == "not-caught":
            # a recorded non-detection (the change is outside what the property's oracle can decide; see meta.json)
            verdict = "not-caught-as-recorded" if r.returncode == 0 else "caught"
        return name, prop, verdict, (lines[0] if lines else r.stdout[-400:])
    finally:
        shutil.rmtree(tmp, ignore_errors=True)


def main():
    names = sorted(os.listdir(os.path.join(HERE, "seeded")))
    sel = sys.argv[1:]
    if sel:
        names = [n for n in names if any(s in n for s in sel)]
    if not os.path.exists(os.path.join(HERE, ".venv/bin/python")):
        subprocess.run([os.path.join(HERE, "setup.sh")], cwd=HERE, check=True)
    bad = 0
    for n in names:
        name, prop, verdict, detail = run_one(n)
        print("%-55s %s %s" % (name, prop, verdict))
        if verdict not in ("caught", "not-caught-as-recorded"):
            bad += 1
            print("    " + detail.replace("\n", "\n    "))
    print("%d seeds, %d not caught" % (len(names), bad))
    return 1 if bad else 0


if __name__ == "__main__":
    sys.exit(main())
