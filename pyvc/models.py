"""Models of Python builtins over symbolic values (part of the trusted base;
validated against CPython by the differential self-test)."""
import builtins
import enum
import functools
import logging
import operator
import struct
import types

import z3

from . import sym
from .sym import SInt, SBool, Unsupported, is_sym, is_intlike, OPAQUE, to_bv, mk_int, BitLength
from .values import SObj, SBytes, mk_bytes, BoundMethod, SuperProxy, Closure, GenObj, class_of, contains_sym, SymSet
from .spec import And, Or, Not, ite, AnyOf


# ----------------------------------------------------------------------------- logging
LOGGER_FACTORIES = ("getLogger", "getChild")


def is_logger_factory(f):
    """logging.getLogger / Logger.getChild hand out logger handles: they are evaluated (with concrete names)"""
    return getattr(f, "__name__", "") in LOGGER_FACTORIES and (
        getattr(f, "__module__", "") == "logging" or isinstance(getattr(f, "__self__", None), logging.Logger))


def is_logging_callable(f):
    s = getattr(f, "__self__", None)
    if isinstance(s, (logging.Logger, logging.LoggerAdapter)):
        return True
    if isinstance(f, types.FunctionType) and f.__module__ == "logging":
        return True
    return False


# ----------------------------------------------------------------------------- ranges
class SRange:
    """range() with symbolic bounds (step 1)."""

    def __init__(self, start, stop):
        self.start = start
        self.stop = stop

    def materialise(self, interp):
        c = sym.ctx()
        a = c.choose_int(self.start, "range start")
        b = c.choose_int(self.stop, "range stop")
        return list(range(a, b))

    def contains(self, item):
        return And(item >= self.start, item < self.stop)


# ----------------------------------------------------------------------------- int helpers
def int_to_bytes(interp, x, length=1, byteorder="big", *, signed=False):
    c = sym.ctx()
    SSIZE = 1 << 63         # CPython converts the length to a C ssize_t first (64-bit build assumed, listed)
    if is_sym(length):
        if interp.test(Or(length < -SSIZE, length >= SSIZE)):
            interp.py_raise(OverflowError, "Python int too large to convert to C ssize_t")
        if interp.test(length < 0):
            interp.py_raise(ValueError, "length argument must be non-negative")
        length = c.choose_int(length, "to_bytes length")
    if not isinstance(length, int):
        interp.py_raise(TypeError, "length must be int")
    if length < -SSIZE or length >= SSIZE:
        interp.py_raise(OverflowError, "Python int too large to convert to C ssize_t")
    if length < 0:
        interp.py_raise(ValueError, "length argument must be non-negative")
    if byteorder not in ("big", "little"):
        interp.py_raise(ValueError, "byteorder must be either 'little' or 'big'")
    if not is_sym(x):
        return interp.native(int(x).to_bytes, length, byteorder, signed=signed)
    if isinstance(x, SBool):
        x = SInt(to_bv(x))
    if signed:
        if 8 * length < sym.W:
            lo, hi = -(1 << (8 * length - 1)) if length else 0, (1 << (8 * length - 1)) - 1 if length else 0
            fits = And(x >= lo, x <= hi)
        else:
            fits = True
    else:
        if 8 * length < sym.W - 1:
            fits = And(x >= 0, x < (1 << (8 * length)))
        else:
            fits = x >= 0
    if not interp.test(fits):
        interp.py_raise(OverflowError, "int too big to convert")
    out = []
    for i in range(length):
        sh = 8 * (length - 1 - i) if byteorder == "big" else 8 * i
        if sh >= sym.W:
            out.append(ite(x < 0, 255, 0))
        else:
            out.append((x >> sh) & 0xFF)
    return mk_bytes(out)


def int_from_bytes(interp, data, byteorder="big", *, signed=False):
    items = interp.iterate(data) if not isinstance(data, (bytes, bytearray)) else list(data)
    if not contains_sym(items):
        for b in items:
            if not isinstance(b, int):
                interp.py_raise(TypeError, "cannot convert '%s' object to bytes" % class_of(b).__name__)
        try:
            return int.from_bytes(bytes(items), byteorder, signed=signed)
        except Exception as e:          # noqa: BLE001
            from .path import RaiseEx
            raise RaiseEx(e)
    for b in items:
        if not is_intlike(b):
            interp.py_raise(TypeError, "cannot convert to bytes")
        if not isinstance(data, SBytes):
            if not interp.test(And(b >= 0, b <= 255)):
                interp.py_raise(ValueError, "bytes must be in range(0, 256)")
    if byteorder == "little":
        items = items[::-1]
    if 8 * len(items) > sym.W - 2:
        raise Unsupported("from_bytes of %d bytes exceeds the %d-bit integer model" % (len(items), sym.W))
    v = 0
    for b in items:
        v = (v << 8) | b
    if signed and items:
        n = 8 * len(items)
        v = ite(v >= (1 << (n - 1)), v - (1 << n), v)
    return v


def int_attr(interp, x, name):
    if name == "bit_length":
        if isinstance(x, SBool):
            x = SInt(to_bv(x))
        return lambda: BitLength(x)
    if name == "to_bytes":
        return lambda *a, **k: int_to_bytes(interp, x, *a, **k)
    if name in ("real", "numerator"):
        return x
    if name == "imag":
        return 0
    if name == "denominator":
        return 1
    if name == "__class__":
        return class_of(x)
    if name == "value" and isinstance(x, SInt) and x.pycls is not None:
        return SInt(x.e)
    if isinstance(x, SInt) and x.pycls is not None:
        a, where = interp.raw_lookup(x.pycls, name)
        if isinstance(a, classmethod):
            return BoundMethod(a.__func__, x.pycls)
        if isinstance(a, types.FunctionType):
            return BoundMethod(a, x)
        if isinstance(a, property) and isinstance(a.fget, types.FunctionType) and interp.is_repo_function(a.fget):
            return interp.call(a.fget, (x,), {})
    return None


def sbytes_attr(interp, b, name):
    if name == "split":
        def split(sep=None, maxsplit=-1):
            return sbytes_split(interp, b, sep, maxsplit)
        return split
    if name == "decode":
        def decode(encoding="utf-8", errors="strict"):
            return sbytes_decode(interp, b, encoding, errors)
        return decode
    if name == "hex":
        return lambda *a: OPAQUE
    if name in ("find", "index"):
        def find(sub, *rng):
            # position of the first occurrence of a single byte: case analysis over the n+1 possible positions
            if rng or not (isinstance(sub, (bytes, bytearray)) and len(sub) == 1 or isinstance(sub, int)):
                raise Unsupported("bytes.%s with these arguments on symbolic bytes" % name)
            s = sub if isinstance(sub, int) else sub[0]
            for i, x in enumerate(b.items):
                if interp.test(x == s):
                    return i
            if name == "index":
                interp.py_raise(ValueError, "subsection not found")
            return -1
        return find
    if name in ("startswith", "endswith", "count", "strip", "rstrip", "lstrip", "replace"):
        raise Unsupported("bytes.%s on symbolic bytes" % name)
    interp.py_raise(AttributeError, name)


class LazySplit:
    """result of bytes.split(sep) on symbolic bytes; element 0 is computed by case analysis on the
    position of the first separator (n+1 cases) instead of splitting everything (2^n cases)."""

    def __init__(self, interp, b, sep):
        self.interp = interp
        self.b = b
        self.sep = sep
        self.full = None

    def first(self):
        s = self.sep[0]
        items = self.b.items
        for i, x in enumerate(items):
            if self.interp.test(x == s):
                return mk_bytes(items[:i])
        return mk_bytes(items)

    def all(self):
        if self.full is None:
            self.full = sbytes_split_full(self.interp, self.b, self.sep, -1)
        return self.full


def sbytes_split(interp, b, sep, maxsplit=-1):
    if isinstance(sep, (bytes, bytearray)) and len(sep) == 1 and maxsplit == -1:
        return LazySplit(interp, b, sep)
    return sbytes_split_full(interp, b, sep, maxsplit)


def sbytes_split_full(interp, b, sep, maxsplit=-1):
    if not isinstance(sep, (bytes, bytearray)) or len(sep) != 1:
        raise Unsupported("bytes.split with separator %r on symbolic bytes" % (sep,))
    s = sep[0]
    parts = [[]]
    for x in b.items:
        if (maxsplit < 0 or len(parts) <= maxsplit) and interp.test(x == s):
            parts.append([])
        else:
            parts[-1].append(x)
    return interp.fresh([mk_bytes(p) for p in parts])


class SText:
    """decoded ASCII text with symbolic characters (code points < 128)."""

    def __init__(self, codes):
        self.codes = list(codes)

    def __len__(self):
        return len(self.codes)

    def __eq__(self, o):
        from .values import values_equal
        if isinstance(o, SText):
            if len(o.codes) != len(self.codes):
                return False
            return And([a == b for a, b in zip(self.codes, o.codes)])
        if isinstance(o, str):
            if len(o) != len(self.codes):
                return False
            return And([a == ord(ch) for a, ch in zip(self.codes, o)])
        return False

    def __hash__(self):
        return id(self)

    def __format__(self, spec):
        return OPAQUE

    def __str__(self):
        return OPAQUE

    def encode(self, encoding="utf-8", errors="strict"):
        return mk_bytes(self.codes)


def sbytes_decode(interp, b, encoding="utf-8", errors="strict"):
    items = list(b.items) if isinstance(b, SBytes) else list(b)
    if encoding.lower().replace("-", "") not in ("ascii", "usascii"):
        raise Unsupported("decode(%r) of symbolic bytes" % encoding)
    if items and interp.test(Or([x >= 128 for x in items])):
        e = UnicodeDecodeError("ascii", b"\xff", 0, 1, "ordinal not in range(128)")
        from .path import RaiseEx
        raise RaiseEx(e)
    if not contains_sym(items):
        return bytes(items).decode("ascii")
    return SText(items)


# ----------------------------------------------------------------------------- formatting
def _check_format_operand(interp, v, conv):
    """what CPython would raise for the conversion; content is not modelled."""
    if conv in "xXdoc":
        if isinstance(v, (SObj,)) or v is None or isinstance(v, (str, bytes, SBytes, list, tuple, dict)):
            interp.py_raise(TypeError, "format %s requires an integer, not %s" % (conv, class_of(v).__name__))
        if isinstance(v, float) and conv in "xXoc":
            interp.py_raise(TypeError, "format requires an integer")


def str_mod(interp, fmt, args):
    """'...' % args : exceptions modelled, content opaque when an operand is symbolic."""
    tup = args if isinstance(args, tuple) else (args,)
    if not contains_sym(tup) and not any(isinstance(x, (AnyOf, SText)) for x in tup):
        return interp.native(operator.mod, fmt, args)
    # parse conversions
    convs = []
    i = 0
    while i < len(fmt):
        if fmt[i] == "%":
            j = i + 1
            if j < len(fmt) and fmt[j] == "%":
                i = j + 1
                continue
            if j < len(fmt) and fmt[j] == "(":
                raise Unsupported("mapping key in % format with symbolic operands")
            while j < len(fmt) and fmt[j] in "#0- +0123456789.*":
                j += 1
            if j >= len(fmt):
                interp.py_raise(ValueError, "incomplete format")
            convs.append(fmt[j])
            i = j + 1
        else:
            i += 1
    if isinstance(args, dict):
        raise Unsupported("dict operand in % format")
    if len(convs) != len(tup):
        if len(convs) < len(tup):
            interp.py_raise(TypeError, "not all arguments converted during string formatting")
        interp.py_raise(TypeError, "not enough arguments for format string")
    out_opaque = False
    native_args = []
    for conv, v in zip(convs, tup):
        _check_format_operand(interp, v, conv)
        if conv == "s":
            native_args.append(interp.py_str(v))
        elif conv in "ra":
            native_args.append(interp.py_repr(v))
        elif is_sym(v):
            out_opaque = True
            native_args.append(0)
        else:
            native_args.append(v)
    r = interp.native(operator.mod, fmt.replace("%r", "%s").replace("%a", "%s"), tuple(native_args))
    if out_opaque and OPAQUE not in r:
        r = r + OPAQUE
    return r


def format_value(interp, v, spec=""):
    """format(v, spec)"""
    if isinstance(v, SObj):
        m = interp.find_in_mro(v.cls, "__format__")
        if isinstance(m, types.FunctionType):
            return interp.call(m, (v, spec), {})
        if spec:
            interp.py_raise(TypeError, "unsupported format string passed to %s.__format__" % v.cls.__name__)
        return interp.py_str(v)
    from .values import AbstractValue
    if isinstance(v, (AnyOf, SText, AbstractValue)):
        return OPAQUE
    if isinstance(v, sym.SFloat):
        return interp.native(format, v, spec)
    if isinstance(spec, str) and OPAQUE in spec:
        return OPAQUE
    if is_sym(v):
        if spec and spec[-1] in "s":
            interp.py_raise(ValueError, "Unknown format code 's' for object of type 'int'")
        try:
            format(0, spec)
        except ValueError as e:
            from .path import RaiseEx
            raise RaiseEx(e)
        return OPAQUE
    if isinstance(v, SBytes):
        if spec:
            interp.py_raise(TypeError, "unsupported format string passed to bytes.__format__")
        return OPAQUE
    if isinstance(v, (list, tuple, dict, set)) and contains_sym(v):
        if spec:
            interp.py_raise(TypeError, "unsupported format string passed to %s.__format__" % type(v).__name__)
        return interp.py_str(v)
    if hasattr(v, "__dict__") and interp.is_repo_class(type(v)) and not isinstance(v, (type, enum.Enum)):
        m = interp.find_in_mro(type(v), "__format__")
        if m is None or not isinstance(m, types.FunctionType):
            if spec:
                interp.py_raise(TypeError, "unsupported format string")
            return interp.py_str(v)
    return interp.native(format, v, spec)


def str_format(interp, fmt, *args, **kwargs):
    """'...'.format(*args): uses the real parser; each field formatted by format_value."""
    import string
    out = []
    auto = 0
    try:
        parsed = list(string.Formatter().parse(fmt))
    except ValueError as e:
        from .path import RaiseEx
        raise RaiseEx(e)
    for lit, field, spec, conv in parsed:
        out.append(lit)
        if field is None:
            continue
        if spec and "{" in spec:
            spec = str_format(interp, spec, *args, **kwargs)
        # field name: index or key with optional .attr / [idx]
        first, rest = field, ""
        for i, ch in enumerate(field):
            if ch in ".[":
                first, rest = field[:i], field[i:]
                break
        if first == "":
            if auto is None:
                interp.py_raise(ValueError, "cannot switch from manual field specification to automatic")
            idx = auto
            auto += 1
            if idx >= len(args):
                interp.py_raise(IndexError, "Replacement index %d out of range for positional args tuple" % idx)
            v = args[idx]
        elif first.isdigit():
            idx = int(first)
            if idx >= len(args):
                interp.py_raise(IndexError, "Replacement index %d out of range for positional args tuple" % idx)
            v = args[idx]
        else:
            if first not in kwargs:
                interp.py_raise(KeyError, first)
            v = kwargs[first]
        while rest:
            if rest[0] == ".":
                j = 1
                while j < len(rest) and rest[j] not in ".[":
                    j += 1
                v = interp.get_attr(v, rest[1:j])
                rest = rest[j:]
            else:
                j = rest.index("]")
                key = rest[1:j]
                v = get_item(interp, v, int(key) if key.isdigit() else key)
                rest = rest[j + 1:]
        if conv == "r" or conv == "a":
            v = interp.py_repr(v)
        elif conv == "s":
            v = interp.py_str(v)
        out.append(format_value(interp, v, spec or ""))
    return "".join(out)


def str_join(interp, sep, it):
    items = interp.iterate(it)
    for x in items:
        if isinstance(x, SText):
            return OPAQUE
        if not isinstance(x, str):
            interp.py_raise(TypeError, "sequence item: expected str instance, %s found" % class_of(x).__name__)
    return sep.join(items)


# ----------------------------------------------------------------------------- item access
def _norm_index(interp, n, k, what="list"):
    """bounds check of index k against concrete length n; returns index expr in 0..n-1."""
    if isinstance(k, (bool, SBool)):
        k = SInt(to_bv(k)) if isinstance(k, SBool) else int(k)
    if is_sym(k):
        if not interp.test(And(k >= -n, k < n)):
            interp.py_raise(IndexError, "%s index out of range" % what)
        return ite(k < 0, k + n, k)
    if not isinstance(k, int):
        interp.py_raise(TypeError, "%s indices must be integers or slices, not %s" % (what, class_of(k).__name__))
    if not (-n <= k < n):
        interp.py_raise(IndexError, "%s index out of range" % what)
    return k + n if k < 0 else k


def _concrete_slice(interp, k):
    c = sym.ctx()
    vals = []
    for v in (k.start, k.stop, k.step):
        if is_sym(v):
            v = c.choose_int(v, "slice bound")
        elif v is not None and not isinstance(v, int):
            interp.py_raise(TypeError, "slice indices must be integers or None")
        vals.append(v)
    return slice(*vals)


def _select(interp, items, idx):
    """items[idx] for symbolic idx already known in range."""
    if not is_sym(idx):
        return items[idx]
    if all(is_intlike(x) for x in items) and \
            (all(isinstance(x, (bool, SBool)) for x in items) or not any(isinstance(x, (bool, SBool)) for x in items)):
        r = items[-1]
        for i in range(len(items) - 2, -1, -1):
            r = ite(idx == i, items[i], r)
        return r
    i = sym.ctx().choose_int(idx, "index")
    return items[i]


def get_item(interp, o, k):
    if isinstance(o, SObj):
        m = interp.find_in_mro(o.cls, "__getitem__")
        if isinstance(m, types.FunctionType):
            return interp.call(m, (o, k), {})
        cg = interp.find_in_mro(o.cls, "__class_getitem__")
        interp.py_raise(TypeError, "'%s' object is not subscriptable" % o.cls.__name__)
    if isinstance(o, AnyOf):
        raise Unsupported("subscript of an unspecified value")
    if isinstance(o, SymList):
        return o.get(interp, k)
    if isinstance(o, LazySplit):
        if isinstance(k, int) and k == 0:
            return o.first()
        return get_item(interp, o.all(), k)
    if isinstance(o, (list, tuple, SBytes, bytes, bytearray, str, SText)):
        items = o.items if isinstance(o, SBytes) else (o.codes if isinstance(o, SText) else o)
        if isinstance(k, slice):
            k = _concrete_slice(interp, k)
            if isinstance(o, SBytes):
                return mk_bytes(items[k])
            if isinstance(o, SText):
                return SText(items[k])
            r = interp.native(operator.getitem, o, k)
            return interp.fresh(r) if isinstance(r, list) else r
        idx = _norm_index(interp, len(items), k, type(o).__name__)
        if isinstance(o, str) and is_sym(idx):
            raise Unsupported("symbolic index into str")
        if isinstance(o, SText):
            raise Unsupported("index into symbolic text")
        return _select(interp, list(items), idx)
    if isinstance(o, AssocDict):
        found, v = o.lookup(interp, k)
        if not found:
            interp.py_raise(KeyError, OPAQUE)
        return v
    if isinstance(o, dict):
        if is_sym(k) or (isinstance(k, tuple) and contains_sym(k)):
            for key in list(o.keys()):
                if interp.test(interp.eq(key, k)):
                    return o[key]
            interp.py_raise(KeyError, OPAQUE)
        if isinstance(k, SObj):
            for key in o:
                if key is k:
                    return o[key]
            interp.py_raise(KeyError, OPAQUE)
        return interp.native(operator.getitem, o, k)
    if is_sym(o) or o is None:
        interp.py_raise(TypeError, "'%s' object is not subscriptable" % class_of(o).__name__)
    if contains_sym(k):
        if isinstance(o, range):
            idx = _norm_index(interp, len(o), k, "range")
            return o.start + idx * o.step
        raise Unsupported("symbolic subscript of %s" % type(o).__name__)
    return interp.native(operator.getitem, o, k)


def set_item(interp, o, k, v):
    if isinstance(o, SObj):
        m = interp.find_in_mro(o.cls, "__setitem__")
        if isinstance(m, types.FunctionType):
            return interp.call(m, (o, k, v), {})
        interp.py_raise(TypeError, "'%s' object does not support item assignment" % o.cls.__name__)
    if isinstance(o, AssocDict):
        if isinstance(k, (list, dict, set)):
            interp.py_raise(TypeError, "unhashable type")
        o.entries.append((k, v))
        return
    if isinstance(o, list):
        interp.check_mutation(o, "list.__setitem__")
        if isinstance(k, slice):
            k = _concrete_slice(interp, k)
            o[k] = interp.iterate(v)
            return
        idx = _norm_index(interp, len(o), k, "list")
        if is_sym(idx):
            if all(is_intlike(x) for x in o) and is_intlike(v):
                for i in range(len(o)):
                    o[i] = ite(idx == i, v, o[i])
                return
            idx = sym.ctx().choose_int(idx, "index")
        o[idx] = v
        return
    if isinstance(o, dict):
        interp.check_mutation(o, "dict.__setitem__")
        if is_sym(k) or (isinstance(k, tuple) and contains_sym(k)):
            for key in list(o.keys()):
                if interp.test(interp.eq(key, k)):
                    o[key] = v
                    return
            raise Unsupported("insertion of a symbolic key into a dict")
        if isinstance(k, SObj):
            if isinstance(interp.find_in_mro(k.cls, "__eq__"), types.FunctionType) or \
                    isinstance(interp.find_in_mro(k.cls, "__hash__"), types.FunctionType):
                raise Unsupported("object with its own __eq__/__hash__ as dict key")
            o[k] = v            # identity-keyed
            return
        return interp.native(operator.setitem, o, k, v)
    from .values import SByteArray
    if isinstance(o, SByteArray):
        def byte(x):
            if isinstance(x, (bool, SBool)) or not is_intlike(x):
                interp.py_raise(TypeError, "an integer is required")
            if not interp.test(And(x >= 0, x <= 255)):
                interp.py_raise(ValueError, "byte must be in range(0, 256)")
            return x
        if isinstance(k, slice):
            if contains_sym((k.start, k.stop, k.step)):
                raise Unsupported("slice store with symbolic bounds into a bytearray")
            vals = [byte(x) for x in interp.iterate(v)]
            o.items[k] = vals
            return
        if is_sym(k):
            k = sym.ctx().choose_int(k, "bytearray index")
        if not -len(o.items) <= k < len(o.items):
            interp.py_raise(IndexError, "bytearray index out of range")
        o.items[k] = byte(v)
        return
    if isinstance(o, bytearray):
        interp.check_mutation(o, "bytearray.__setitem__")
        if contains_sym((k, v)):
            raise Unsupported("symbolic store into bytearray")
        return interp.native(operator.setitem, o, k, v)
    if isinstance(o, (tuple, str, bytes, SBytes)) or is_sym(o) or o is None:
        interp.py_raise(TypeError, "'%s' object does not support item assignment" % class_of(o).__name__)
    if contains_sym((k, v)):
        raise Unsupported("symbolic store into %s" % type(o).__name__)
    interp.check_mutation(o, type(o).__name__ + ".__setitem__")
    return interp.native(operator.setitem, o, k, v)


def del_item(interp, o, k):
    if isinstance(o, AssocDict):
        return o.delete(interp, k)
    if isinstance(o, SObj):
        return interp.call_dunder(o, "__delitem__", k)
    if isinstance(o, dict) and isinstance(k, SObj):
        interp.check_mutation(o, "dict.__delitem__")
        for key in list(o):
            if key is k:
                del o[key]
                return
        interp.py_raise(KeyError, OPAQUE)
    if isinstance(o, (list, dict)):
        interp.check_mutation(o, type(o).__name__ + ".__delitem__")
        if is_sym(k) or (isinstance(k, tuple) and contains_sym(k)):
            if isinstance(o, dict):
                for key in list(o.keys()):
                    if interp.test(interp.eq(key, k)):
                        del o[key]
                        return
                interp.py_raise(KeyError, OPAQUE)
            k = sym.ctx().choose_int(k, "index")
        return interp.native(operator.delitem, o, k)
    raise Unsupported("del item of %s" % type(o).__name__)


class SymList:
    """list whose length is symbolic: indices below `length` are described by elem_fn(j) -> (is_none, value)
    (the loop invariant that produced the list); items appended afterwards are kept concretely."""

    def __init__(self, length, elem_fn):
        self.length = length
        self.elem_fn = elem_fn
        self.appended = []

    def total(self):
        return self.length + len(self.appended)

    def append(self, x):
        self.appended.append(x)

    def get(self, interp, j):
        if isinstance(j, (bool, SBool)) or not is_intlike(j):
            interp.py_raise(TypeError, "list indices must be integers")
        if interp.test(j < 0):
            raise Unsupported("negative index into a list of symbolic length")
        if not interp.test(j < self.total()):
            interp.py_raise(IndexError, "list index out of range")
        if interp.test(j < self.length):
            is_none, v = self.elem_fn(j)
            if interp.test(is_none):
                return None
            return v
        for i, x in enumerate(self.appended):
            if interp.test(j == self.length + i):
                return x
        raise Unsupported("index into the appended part of a symbolic list")


class AssocDict:
    """dict whose keys may be symbolic (association list; last binding wins).  Stands for a real
    dict in proofs about code that stores / looks up symbolic keys."""

    DELETED = object()

    def __init__(self, entries=()):
        self.entries = list(entries)

    def lookup(self, interp, k):
        for key, val in reversed(self.entries):
            if interp.test(interp.eq(key, k)):
                if val is AssocDict.DELETED:
                    return False, None
                return True, val
        return False, None

    def live_entries(self):
        """(key, value) pairs that may still be present (later bindings shadow earlier ones only when the keys
        are equal, which the caller decides symbolically)"""
        return [(k, v) for k, v in self.entries if v is not AssocDict.DELETED]

    def delete(self, interp, k):
        found, _ = self.lookup(interp, k)
        if not found:
            interp.py_raise(KeyError, OPAQUE)
        self.entries.append((k, AssocDict.DELETED))

    def values(self):
        if any(v is AssocDict.DELETED for _, v in self.entries):
            raise Unsupported("values() of a symbolic-key dict after deletions")
        return [v for _, v in self.entries]

    def get(self, k, default=None):
        from .values import interp as _i
        found, v = self.lookup(_i(), k)
        return v if found else default

    def __len__(self):
        if not self.entries:
            return 0
        if len(self.entries) == 1 and self.entries[0][1] is not AssocDict.DELETED:
            return 1
        raise Unsupported("len of a dict with symbolic keys")


def symset_attr(interp, st, name):
    if name == "add":
        return lambda e: st.add_if(True if interp.guard() is None else interp.guard(), e)
    if name == "discard":
        return lambda e: st.discard_if(True if interp.guard() is None else interp.guard(), e)
    if name == "copy":
        return st.copy
    if name in ("union", "__or__"):
        return lambda o: st | o
    if name in ("difference", "__sub__"):
        return lambda o: st - o
    if name in ("intersection", "__and__"):
        return lambda o: st & o
    if name == "symmetric_difference":
        return lambda o: st ^ o
    raise Unsupported("set.%s on a set with symbolic membership" % name)


def assoc_attr(interp, d, name):
    if name == "get":
        return d.get
    if name == "values":
        return d.values
    if name == "pop":
        def pop(k, *default):
            found, v = d.lookup(interp, k)
            if not found:
                if default:
                    return default[0]
                interp.py_raise(KeyError, OPAQUE)
            d.entries.append((k, AssocDict.DELETED))
            return v
        return pop
    if name == "clear":
        def clear():
            d.entries.clear()
        return clear
    raise Unsupported("dict.%s on a dict with symbolic keys" % name)


# ----------------------------------------------------------------------------- builtin functions
def b_isinstance(interp, v, t):
    if isinstance(t, tuple):
        return Or([interp.truth(b_isinstance(interp, v, x)) for x in t]) if any(True for _ in t) else False
    if not isinstance(t, type):
        if isinstance(t, types.UnionType):
            return b_isinstance(interp, v, t.__args__)
        interp.py_raise(TypeError, "isinstance() arg 2 must be a type, a tuple of types, or a union")
    if isinstance(v, AnyOf):
        if all(issubclass(x, t) for x in v.types):
            return True
        if not any(issubclass(x, t) or issubclass(t, x) for x in v.types):
            return False
        raise Unsupported("isinstance on an unspecified value")
    if isinstance(v, SText):
        return issubclass(str, t)
    if isinstance(v, SymSet):
        return issubclass(set, t)
    if isinstance(v, SBytes):
        return issubclass(bytes, t)
    if isinstance(v, BitLength):
        return issubclass(int, t)
    if isinstance(v, (GenObj,)):
        return issubclass(types.GeneratorType, t)
    if isinstance(v, Closure):
        return issubclass(types.FunctionType, t)
    return issubclass(class_of(v), t)


def b_issubclass(interp, c, t):
    return interp.native(issubclass, c, t)


def b_len(interp, v):
    if isinstance(v, SObj):
        m = interp.find_in_mro(v.cls, "__len__")
        if isinstance(m, types.FunctionType):
            n = interp.call(m, (v,), {})
            if not is_intlike(n):
                interp.py_raise(TypeError, "'%s' object cannot be interpreted as an integer" % class_of(n).__name__)
            if is_sym(n):
                if interp.test(n < 0):
                    interp.py_raise(ValueError, "__len__() should return >= 0")
            elif n < 0:
                interp.py_raise(ValueError, "__len__() should return >= 0")
            return n
        interp.py_raise(TypeError, "object of type '%s' has no len()" % v.cls.__name__)
    if isinstance(v, SBytes):
        return len(v.items)
    if isinstance(v, SText):
        return len(v.codes)
    if isinstance(v, SymSet):
        return v.count()
    if isinstance(v, SymList):
        return v.total()
    if isinstance(v, SRange):
        return ite(v.stop > v.start, v.stop - v.start, 0)
    if is_sym(v) or v is None or isinstance(v, (GenObj, Closure)):
        interp.py_raise(TypeError, "object of type '%s' has no len()" % class_of(v).__name__)
    if isinstance(v, AnyOf):
        raise Unsupported("len of an unspecified value")
    if hasattr(v, "__dict__") and interp.is_repo_class(type(v)) and not isinstance(v, (type, enum.Enum)):
        m = interp.find_in_mro(type(v), "__len__")
        if isinstance(m, types.FunctionType):
            return interp.call(m, (v,), {})
    return interp.native(len, v)


def b_hasattr(interp, o, name):
    return interp.has_attr(o, name)


def b_getattr(interp, o, name, *default):
    from .path import RaiseEx
    if not isinstance(name, str):
        interp.py_raise(TypeError, "attribute name must be string")
    try:
        return interp.get_attr(o, name)
    except RaiseEx as e:
        if default and issubclass(e.cls, AttributeError):
            return default[0]
        raise


def b_setattr(interp, o, name, v):
    interp.set_attr(o, name, v)


def b_type(interp, *args):
    if len(args) == 1:
        v = args[0]
        if isinstance(v, AnyOf):
            if len(v.types) == 1:
                return v.types[0]
            raise Unsupported("type of an unspecified value")
        if isinstance(v, SText):
            return str
        if isinstance(v, SBytes):
            return bytes
        return class_of(v)
    raise Unsupported("3-argument type()")


def b_int(interp, *args, **kwargs):
    if not args:
        return 0
    v = args[0]
    if len(args) > 1 or kwargs:
        if contains_sym(args) or any(isinstance(a, SText) for a in args):
            raise Unsupported("int(text, base) on symbolic text")
        return interp.native(int, *args, **kwargs)
    if isinstance(v, SInt):
        return SInt(v.e) if v.pycls is not None else v
    if isinstance(v, SBool):
        return SInt(to_bv(v))
    if isinstance(v, bool):
        return int(v)
    if isinstance(v, int) and type(v) is not int:
        return int(v)
    if isinstance(v, SObj):
        m = interp.find_in_mro(v.cls, "__int__") or interp.find_in_mro(v.cls, "__index__")
        if isinstance(m, types.FunctionType):
            return interp.call(m, (v,), {})
        interp.py_raise(TypeError, "int() argument must be a string, a bytes-like object or a real number, not '%s'"
                        % v.cls.__name__)
    if isinstance(v, (SText, SBytes, AnyOf)):
        raise Unsupported("int() of symbolic text")
    if isinstance(v, str) and OPAQUE in v:
        raise Unsupported("int() of opaque text")
    return interp.native(int, v)


def b_bool(interp, *args):
    if not args:
        return False
    return interp.truth(args[0])


def b_str(interp, *args, **kwargs):
    if not args:
        return ""
    if len(args) > 1 or kwargs:
        if isinstance(args[0], SBytes):
            return sbytes_decode(interp, args[0], *args[1:], **kwargs)
        return interp.native(str, *args, **kwargs)
    if isinstance(args[0], SText):
        return args[0]
    return interp.py_str(args[0])


def b_repr(interp, v):
    return interp.py_repr(v)


def b_bytes(interp, *args, **kwargs):
    if not args:
        return b""
    v = args[0]
    if len(args) > 1 or kwargs:
        if isinstance(v, SText):
            return mk_bytes(v.codes)
        return interp.native(bytes, *args, **kwargs)
    if isinstance(v, SBytes):
        return v
    if isinstance(v, (bytes, bytearray)):
        return bytes(v)
    if is_sym(v):
        n = sym.ctx().choose_int(v, "bytes length")
        return interp.native(bytes, n)
    if isinstance(v, int):
        return interp.native(bytes, v)
    if isinstance(v, (str, SText)):
        interp.py_raise(TypeError, "string argument without an encoding")
    items = interp.iterate(v)
    for x in items:
        if not is_intlike(x):
            interp.py_raise(TypeError, "'%s' object cannot be interpreted as an integer" % class_of(x).__name__)
        if is_sym(x):
            if not interp.test(And(x >= 0, x <= 255)):
                interp.py_raise(ValueError, "bytes must be in range(0, 256)")
        elif not (0 <= x <= 255):
            interp.py_raise(ValueError, "bytes must be in range(0, 256)")
    return mk_bytes([int(x) if isinstance(x, bool) else x for x in items])


def b_bytearray(interp, *args, **kwargs):
    from .values import SByteArray
    if kwargs or len(args) > 1:
        return interp.fresh(interp.native(bytearray, *args, **kwargs))
    if not args:
        return SByteArray([])
    a = args[0]
    if isinstance(a, int) and not isinstance(a, bool):
        if a < 0:
            interp.py_raise(ValueError, "negative count")
        return SByteArray([0] * a)
    if is_sym(a):
        raise Unsupported("bytearray of symbolic length")
    v = b_bytes(interp, a)
    return SByteArray(list(v.items) if isinstance(v, SBytes) else list(v))


def b_list(interp, *args):
    if not args:
        return interp.fresh([])
    from .values import AbstractValue
    if isinstance(args[0], AbstractValue):
        return args[0].py_list(interp)
    return interp.fresh(list(interp.iterate(args[0])))


def b_tuple(interp, *args):
    if not args:
        return ()
    return tuple(interp.iterate(args[0]))


def b_dict(interp, *args, **kwargs):
    d = {}
    if args:
        a = args[0]
        if isinstance(a, dict):
            d.update(a)
        else:
            for kv in interp.iterate(a):
                k, v = interp.iterate(kv)
                if is_sym(k):
                    raise Unsupported("dict() with symbolic key")
                d[k] = v
    d.update(kwargs)
    return interp.fresh(d)


def b_set(interp, *args):
    if not args:
        return interp.fresh(set())
    items = interp.iterate(args[0])
    if contains_sym(items):
        raise Unsupported("set() of symbolic elements")
    return interp.fresh(set(items))


def b_frozenset(interp, *args):
    if not args:
        return frozenset()
    items = interp.iterate(args[0])
    if contains_sym(items):
        raise Unsupported("frozenset() of symbolic elements")
    return frozenset(items)


def b_range(interp, *args):
    if any(is_sym(a) for a in args):
        if len(args) == 1:
            return SRange(0, args[0])
        if len(args) == 2:
            return SRange(args[0], args[1])
        a, b, st = args
        c = sym.ctx()
        return range(c.choose_int(a, "range"), c.choose_int(b, "range"), c.choose_int(st, "range"))
    for a in args:
        if isinstance(a, enum.IntEnum):
            continue
    return interp.native(range, *args)


def b_enumerate(interp, it, start=0):
    return interp.fresh([(start + i, x) for i, x in enumerate(interp.iterate(it))])


def b_zip(interp, *its, strict=False):
    ls = [interp.iterate(i) for i in its]
    if strict and len(set(map(len, ls))) > 1:
        interp.py_raise(ValueError, "zip() arguments have different lengths")
    return interp.fresh(list(zip(*ls)))


def b_reversed(interp, it):
    return interp.fresh(list(reversed(interp.iterate(it))))


def b_sorted(interp, it, *, key=None, reverse=False):
    if isinstance(it, SymSet) and key is None and not reverse:
        # iteration over a SymSet already visits the possible members in ascending order, each under its membership
        # condition (if-converted by the for statement): no case split here
        return it.copy()
    items = interp.iterate(it)
    if contains_sym(items) or key is not None and not callable(key):
        raise Unsupported("sorted() of symbolic elements")
    if key is not None:
        keyed = [(interp.call(key, (x,), {}), x) for x in items]
        if contains_sym([k for k, _ in keyed]):
            raise Unsupported("sorted() with symbolic keys")
        keyed.sort(key=lambda kv: kv[0], reverse=reverse)
        return interp.fresh([x for _, x in keyed])
    return interp.fresh(interp.native(sorted, items, reverse=reverse))


def _minmax(interp, args, key, default, is_max):
    if len(args) == 1:
        items = interp.iterate(args[0])
    else:
        items = list(args)
    if not items:
        if default is not _NODEF:
            return default
        interp.py_raise(ValueError, "%s() arg is an empty sequence" % ("max" if is_max else "min"))
    if key is not None:
        raise Unsupported("min/max with key")
    r = items[0]
    for x in items[1:]:
        if is_sym(r) or is_sym(x):
            if not (is_intlike(r) and is_intlike(x)):
                interp.py_raise(TypeError, "ordering not supported")
            r = ite((x > r) if is_max else (x < r), x, r)
        else:
            c = interp.compare(__import__("ast").Gt if is_max else __import__("ast").Lt, x, r)
            if interp.test(c):
                r = x
    return r


_NODEF = object()


def b_max(interp, *args, key=None, default=_NODEF):
    return _minmax(interp, args, key, default, True)


def b_min(interp, *args, key=None, default=_NODEF):
    return _minmax(interp, args, key, default, False)


def b_sum(interp, it, start=0):
    r = start
    for x in interp.iterate(it):
        r = interp.binop(__import__("ast").Add, r, x)
    return r


def b_any(interp, it):
    return Or([interp.truth(x) for x in interp.iterate(it)])


def b_all(interp, it):
    return And([interp.truth(x) for x in interp.iterate(it)])


def b_abs(interp, v):
    if isinstance(v, SObj):
        raise Unsupported("abs of object")
    return interp.native(abs, v)


def b_pow(interp, base, exp, mod=None):
    if mod is not None:
        raise Unsupported("3-argument pow")
    if is_sym(exp):
        exp = sym.ctx().choose_int(exp, "exponent")
    if is_sym(base):
        if isinstance(exp, int) and 0 <= exp <= 8:
            r = 1
            for _ in range(exp):
                r = r * base
            return r
        raise Unsupported("power of a symbolic base")
    return interp.native(pow, base, exp)


def b_print(interp, *args, **kwargs):
    for a in args:
        interp.py_str(a)
    return None


def b_super(interp, *args):
    if len(args) == 2:
        return SuperProxy(args[0], args[1])
    raise Unsupported("super() form")


def b_iter(interp, it, *a):
    if isinstance(it, GenObj) or hasattr(it, "next_value"):
        return it
    raise Unsupported("iter()")


def b_next(interp, it, *default):
    if hasattr(it, "next_value"):
        return it.next_value()      # a generator abstracted by its contract
    raise Unsupported("next() (needs a generator contract)")


def b_callable(interp, f):
    if isinstance(f, (BoundMethod, Closure)):
        return True
    if isinstance(f, SObj):
        return interp.find_in_mro(f.cls, "__call__") is not None
    if is_sym(f):
        return False
    return callable(f)


def b_id(interp, v):
    return id(v)


def b_hash(interp, v):
    if isinstance(v, SObj):
        m = interp.find_in_mro(v.cls, "__hash__")
        if isinstance(m, types.FunctionType):
            return interp.call(m, (v,), {})
        return id(v)            # object identity hash
    if contains_sym(v):
        raise Unsupported("hash of symbolic value")
    return interp.native(hash, v)


def b_format(interp, v, spec=""):
    return format_value(interp, v, spec)


def b_divmod(interp, a, b):
    import ast
    return (interp.binop(ast.FloorDiv, a, b), interp.binop(ast.Mod, a, b))


def b_hex(interp, v):
    if is_sym(v):
        return OPAQUE
    return interp.native(hex, v)


def b_ord(interp, v):
    if isinstance(v, SText) and len(v.codes) == 1:
        return v.codes[0]
    return interp.native(ord, v)


def b_chr(interp, v):
    if is_sym(v):
        raise Unsupported("chr of symbolic int")
    return interp.native(chr, v)


def b_round(interp, *a):
    if contains_sym(a):
        raise Unsupported("round of symbolic value")
    return interp.native(round, *a)


def b_map(interp, f, *its):
    ls = [interp.iterate(i) for i in its]
    return interp.fresh([interp.call(f, xs, {}) for xs in zip(*ls)])


def b_filter(interp, f, it):
    out = []
    for x in interp.iterate(it):
        if interp.test(x if f is None else interp.call(f, (x,), {})):
            out.append(x)
    return interp.fresh(out)


def b_slice(interp, *args):
    return slice(*args)


def b_object(interp, *args):
    return object()


def b_reduce(interp, f, it, *init):
    items = interp.iterate(it)
    if init:
        acc = init[0]
    else:
        if not items:
            interp.py_raise(TypeError, "reduce() of empty iterable with no initial value")
        acc, items = items[0], items[1:]
    for x in items:
        acc = interp.call(f, (acc, x), {})
    return acc


def b_operator(op):
    import ast
    table = {operator.xor: ast.BitXor, operator.or_: ast.BitOr, operator.and_: ast.BitAnd,
             operator.add: ast.Add, operator.sub: ast.Sub, operator.mul: ast.Mult,
             operator.lshift: ast.LShift, operator.rshift: ast.RShift, operator.floordiv: ast.FloorDiv,
             operator.mod: ast.Mod}

    def f(interp, a, b):
        return interp.binop(table[op], a, b)
    return f


# ----------------------------------------------------------------------------- struct
def _struct_items(fmt):
    """expand a struct format into (order, [(code, count)])"""
    order = "@"
    if fmt and fmt[0] in "@=<>!":
        order, fmt = fmt[0], fmt[1:]
    out = []
    num = ""
    for ch in fmt:
        if ch.isdigit():
            num += ch
            continue
        if ch.isspace():
            continue
        out.append((ch, int(num) if num else 1, num != ""))
        num = ""
    return order, out


def struct_pack(interp, fmt, *args):
    if not contains_sym(args):
        return interp.native(struct.pack, fmt, *args)
    order, items = _struct_items(fmt)
    big = order in (">", "!")
    out = []
    ai = 0
    args = list(args)
    for code, count, _ in items:
        if code == "x":
            out.extend([0] * count)
        elif code == "s":
            v = args[ai]
            ai += 1
            if not isinstance(v, (bytes, bytearray, SBytes)):
                interp.py_raise(struct.error, "argument for 's' must be a bytes object")
            bs = list(v)[:count]
            out.extend(bs + [0] * (count - len(bs)))
        elif code in "BbHhIiLlQq?":
            size = {"B": 1, "b": 1, "?": 1, "H": 2, "h": 2, "I": 4, "i": 4, "L": 4, "l": 4, "Q": 8, "q": 8}[code]
            if code in "LlQq" and order == "@":
                size = 8
            signed = code in "bhilq"
            if order == "@" and size > 1:
                raise Unsupported("native-aligned struct format with symbolic values")
            for _ in range(count):
                if ai >= len(args):
                    interp.py_raise(struct.error, "pack expected more items")
                v = args[ai]
                ai += 1
                if not is_intlike(v):
                    interp.py_raise(struct.error, "required argument is not an integer")
                if code == "?":
                    out.append(ite(interp.truth(v), 1, 0))
                    continue
                lo, hi = (-(1 << (8 * size - 1)), (1 << (8 * size - 1)) - 1) if signed else (0, (1 << (8 * size)) - 1)
                if not interp.test(And(v >= lo, v <= hi)):
                    interp.py_raise(struct.error, "'%s' format requires %d <= number <= %d" % (code, lo, hi))
                bs = [(v >> (8 * i)) & 0xFF for i in range(size)]
                if big:
                    bs.reverse()
                out.extend(bs)
        else:
            raise Unsupported("struct code %r" % code)
    if ai != len(args):
        interp.py_raise(struct.error, "pack expected %d items for packing (got %d)" % (ai, len(args)))
    return mk_bytes(out)


def struct_unpack(interp, fmt, data, offset=0, partial=False):
    if not contains_sym(data) and not isinstance(data, SBytes):
        if partial:
            return interp.native(struct.unpack_from, fmt, data, offset)
        return interp.native(struct.unpack, fmt, data)
    order, items = _struct_items(fmt)
    big = order in (">", "!")
    if not isinstance(data, (bytes, bytearray, SBytes)):
        interp.py_raise(TypeError, "a bytes-like object is required")
    bs = list(data)[offset:]
    need = interp.native(struct.calcsize, fmt)
    if (len(bs) < need) if partial else (len(bs) != need):
        interp.py_raise(struct.error, "unpack requires a buffer of %d bytes" % need)
    out = []
    p = 0
    for code, count, _ in items:
        if code == "x":
            p += count
        elif code == "s":
            out.append(mk_bytes(bs[p:p + count]))
            p += count
        elif code in "BbHhIiLlQq?":
            size = {"B": 1, "b": 1, "?": 1, "H": 2, "h": 2, "I": 4, "i": 4, "L": 4, "l": 4, "Q": 8, "q": 8}[code]
            if order == "@" and size > 1:
                if code in "LlQq":
                    size = 8
                if p % size:
                    raise Unsupported("native alignment padding in struct format")
            signed = code in "bhilq"
            little = (not big) if order != "@" and order != "=" else True   # native order assumed little-endian
            for _ in range(count):
                chunk = bs[p:p + size]
                p += size
                if little:
                    chunk = chunk[::-1]
                v = 0
                for b in chunk:
                    v = (v << 8) | b
                if code == "?":
                    v = v != 0
                elif signed:
                    v = ite(v >= (1 << (8 * size - 1)), v - (1 << (8 * size)), v)
                out.append(v)
        else:
            raise Unsupported("struct code %r" % code)
    return tuple(out)


def struct_unpack_from(interp, fmt, data, offset=0):
    return struct_unpack(interp, fmt, data, offset, partial=True)


# ----------------------------------------------------------------------------- enums
def enum_call(interp, cls, *args, **kwargs):
    if len(args) != 1 or kwargs:
        raise Unsupported("functional Enum API")
    v = args[0]
    if isinstance(v, SBool):
        v = SInt(to_bv(v))
    if not is_sym(v):
        if isinstance(v, (SObj, SBytes, SText, AnyOf)):
            if isinstance(v, AnyOf):
                raise Unsupported("Enum lookup of an unspecified value")
            interp.py_raise(ValueError, "not a valid %s" % cls.__name__)
        return interp.native(cls, v)
    if issubclass(cls, enum.Flag):
        # IntFlag: any combination of defined bits is a valid (pseudo-)member, others depend on boundary
        boundary = getattr(cls, "_boundary_", None)
        allbits = 0
        for m in cls:
            allbits |= m.value
        if issubclass(cls, enum.IntFlag):
            # IntFlag (boundary KEEP): every int is accepted and keeps its value
            if interp.test(v < 0):
                raise Unsupported("negative IntFlag value")
            return SInt(to_bv(v), pycls=cls)
        if interp.test(And(v >= 0, (v & ~allbits) == 0)):
            return SInt(to_bv(v), pycls=cls)
        interp.py_raise(ValueError, "invalid value for %s" % cls.__name__)
    for m in cls:
        if isinstance(m.value, int) and interp.test(v == m.value):
            return m
    interp.py_raise(ValueError, "%s is not a valid %s" % (OPAQUE, cls.__name__))


class FlagValue:
    """member (possibly composite) of an IntFlag with a symbolic value."""

    def __init__(self, cls, value):
        self.cls = cls
        self.value = value


# ----------------------------------------------------------------------------- method models
def m_dict_get(interp, d, k, default=None):
    from .path import RaiseEx
    if is_sym(k) or (isinstance(k, tuple) and contains_sym(k)):
        # group keys by value object so that one fork covers all keys of a class
        groups = {}
        order = []
        for key, val in d.items():
            g = groups.get(id(val))
            if g is None:
                groups[id(val)] = g = (val, [])
                order.append(id(val))
            g[1].append(key)
        for gid in order:
            val, keys = groups[gid]
            if interp.test(Or([interp.truth(interp.eq(key, k)) for key in keys])):
                return val
        return default
    if isinstance(k, (SObj,)):
        for key in d:
            if key is k:
                return d[key]
        return default
    return interp.native(d.get, k, default)


def m_dict_setdefault(interp, d, k, default=None):
    interp.check_mutation(d, "dict.setdefault")
    if contains_sym(k):
        for key in list(d.keys()):
            if interp.test(interp.eq(key, k)):
                return d[key]
        raise Unsupported("insertion of a symbolic key into a dict")
    return interp.native(d.setdefault, k, default)


def m_dict_pop(interp, d, k, *default):
    interp.check_mutation(d, "dict.pop")
    if contains_sym(k):
        for key in list(d.keys()):
            if interp.test(interp.eq(key, k)):
                return d.pop(key)
        if default:
            return default[0]
        interp.py_raise(KeyError, OPAQUE)
    return interp.native(d.pop, k, *default)


def m_str_format(interp, s, *args, **kwargs):
    return str_format(interp, s, *args, **kwargs)


def m_str_join(interp, s, it):
    return str_join(interp, s, it)


def m_str_encode(interp, s, encoding="utf-8", errors="strict"):
    if OPAQUE in s:
        raise Unsupported("encode of opaque text")
    return interp.native(s.encode, encoding, errors)


def m_list_index(interp, l, x, *a):
    if contains_sym(l) or contains_sym(x):
        for i, y in enumerate(l):
            if interp.test(interp.is_or_eq(y, x)):
                return i
        interp.py_raise(ValueError, "x not in list")
    return interp.native(l.index, x, *a)


def m_list_remove(interp, l, x):
    interp.check_mutation(l, "list.remove")
    for i, y in enumerate(l):
        if interp.test(interp.is_or_eq(y, x)):
            del l[i]
            return None
    interp.py_raise(ValueError, "list.remove(x): x not in list")


def m_list_pop(interp, l, *a):
    interp.check_mutation(l, "list.pop")
    if a and is_sym(a[0]):
        i = sym.ctx().choose_int(a[0], "pop index")
        return interp.native(l.pop, i)
    return interp.native(l.pop, *a)


def m_list_count(interp, l, x):
    n = 0
    for y in l:
        n = n + ite(interp.truth(interp.is_or_eq(y, x)), 1, 0)
    return n


def m_bytes_split(interp, b, sep=None, maxsplit=-1):
    return interp.fresh(interp.native(b.split, sep, maxsplit))


def f_copy(interp, x):
    import copy as _copy
    if isinstance(x, SObj):
        m = interp.find_in_mro(x.cls, "__copy__")
        if isinstance(m, types.FunctionType):
            return interp.call(m, (x,), {})
        return SObj(x.cls, dict(x.fields), fresh=True)
    if isinstance(x, SymSet):
        return x.copy()
    if isinstance(x, (SBytes, SInt, SBool)):
        return x
    r = interp.native(_copy.copy, x)
    if isinstance(r, (list, dict, set, bytearray)):
        interp.fresh(r)
    return r


def f_deepcopy(interp, x, memo=None):
    if isinstance(x, SObj):
        m = interp.find_in_mro(x.cls, "__deepcopy__")
        if isinstance(m, types.FunctionType):
            return interp.call(m, (x, {}), {})
        return SObj(x.cls, {k: f_deepcopy(interp, v) for k, v in x.fields.items()}, fresh=True)
    if isinstance(x, list):
        return interp.fresh([f_deepcopy(interp, v) for v in x])
    if isinstance(x, tuple):
        return tuple(f_deepcopy(interp, v) for v in x)
    if isinstance(x, dict):
        return interp.fresh({k: f_deepcopy(interp, v) for k, v in x.items()})
    if contains_sym(x):
        return f_copy(interp, x)
    import copy as _copy
    return interp.native(_copy.deepcopy, x)


METHOD_MODELS = {
    (dict, "get"): m_dict_get,
    (dict, "setdefault"): m_dict_setdefault,
    (dict, "pop"): m_dict_pop,
    (str, "format"): m_str_format,
    (str, "join"): m_str_join,
    (str, "encode"): m_str_encode,
    (list, "index"): m_list_index,
    (list, "remove"): m_list_remove,
    (list, "pop"): m_list_pop,
    (list, "count"): m_list_count,
}

import copy as _copymod
FUNCTION_MODELS = {_copymod.copy: f_copy, _copymod.deepcopy: f_deepcopy}

BUILTIN_MODELS = {
    isinstance: b_isinstance, issubclass: b_issubclass, len: b_len, hasattr: b_hasattr,
    getattr: b_getattr, setattr: b_setattr, max: b_max, min: b_min, sum: b_sum, any: b_any,
    all: b_all, abs: b_abs, print: b_print, iter: b_iter, next: b_next, callable: b_callable,
    id: b_id, hash: b_hash, format: b_format, divmod: b_divmod, hex: b_hex, ord: b_ord, chr: b_chr,
    round: b_round, sorted: b_sorted, repr: b_repr, pow: b_pow,
    functools.reduce: b_reduce,
    struct.pack: struct_pack, struct.unpack: struct_unpack, struct.unpack_from: struct_unpack_from,
    int.from_bytes: None,   # placeholder: handled in lookup_builtin (bound classmethod objects differ)
}
for _op in (operator.xor, operator.or_, operator.and_, operator.add, operator.sub, operator.mul,
            operator.lshift, operator.rshift, operator.floordiv, operator.mod):
    BUILTIN_MODELS[_op] = b_operator(_op)

CLASS_MODELS = {
    int: b_int, bool: b_bool, str: b_str, bytes: b_bytes, bytearray: b_bytearray, list: b_list,
    tuple: b_tuple, dict: b_dict, set: b_set, frozenset: b_frozenset, range: b_range,
    enumerate: b_enumerate, zip: b_zip, reversed: b_reversed, type: b_type, super: b_super,
    map: b_map, filter: b_filter, slice: b_slice, object: b_object,
}


def lookup_builtin(f):
    try:
        m = BUILTIN_MODELS.get(f)
    except TypeError:
        return None
    if m is not None:
        return m
    if isinstance(f, types.BuiltinMethodType):
        s = getattr(f, "__self__", None)
        nm = getattr(f, "__name__", "")
        if s is int and nm == "from_bytes":
            return int_from_bytes
        if isinstance(s, struct.Struct):
            if nm == "pack":
                return lambda interp, *a: struct_pack(interp, s.format, *a)
            if nm == "unpack":
                return lambda interp, data: struct_unpack(interp, s.format, data)
            if nm == "unpack_from":
                return lambda interp, data, offset=0: struct_unpack_from(interp, s.format, data, offset)
    if isinstance(f, (types.MethodDescriptorType,)):
        # unbound builtin methods such as int.to_bytes / str.format
        oc = getattr(f, "__objclass__", None)
        nm = getattr(f, "__name__", "")
        if oc is int and nm == "to_bytes":
            return lambda interp, x, *a, **k: int_to_bytes(interp, x, *a, **k)
        if oc is int and nm == "bit_length":
            return lambda interp, x: BitLength(x) if is_sym(x) else int(x).bit_length()
        if oc is str and nm == "format":
            return str_format
        if oc is str and nm == "join":
            return str_join
    return None
