"""Object model: SObj = instance of a real repo class with a field map whose
leaves may be symbolic.  SObj is also a native proxy: Python operators applied
to it (len-like helpers, [], ==, str(), format) dispatch to the *real class's*
dunder methods through the interpreter, so spec code reads naturally."""
from . import sym
from .sym import SInt, SBool, is_sym, Unsupported, OPAQUE

_INTERP = None


def set_interp(i):
    global _INTERP
    _INTERP = i


def interp():
    return _INTERP


_SERIAL = [0]


def next_serial():
    _SERIAL[0] += 1
    return _SERIAL[0]


class SObj:
    __slots__ = ("cls", "fields", "fresh", "tag", "birth")

    def __init__(self, cls, fields=None, fresh=True, tag=None):
        object.__setattr__(self, "cls", cls)
        object.__setattr__(self, "fields", dict(fields or {}))
        object.__setattr__(self, "fresh", fresh)
        object.__setattr__(self, "tag", tag)
        object.__setattr__(self, "birth", next_serial())

    # attribute protocol for *spec* code: full Python lookup through the interpreter
    def __getattr__(self, name):
        return _INTERP.get_attr(self, name, spec=True)

    def __setattr__(self, name, value):
        _INTERP.set_attr(self, name, value)

    def __repr__(self):
        return "<S %s %s>" % (self.cls.__name__, {k: v for k, v in self.fields.items()})

    def __hash__(self):
        return id(self)

    def __eq__(self, other):
        return _INTERP.binop_eq(self, other)

    def __ne__(self, other):
        from .spec import Not
        return Not(_INTERP.binop_eq(self, other))

    def __bool__(self):
        r = _INTERP.truth(self)
        return bool(r)

    def __str__(self):
        _INTERP.py_str(self)
        return OPAQUE

    def __format__(self, spec):
        _INTERP.py_str(self)
        return OPAQUE

    def __getitem__(self, key):
        return _INTERP.call_dunder(self, "__getitem__", key)

    def __setitem__(self, key, value):
        return _INTERP.call_dunder(self, "__setitem__", key, value)

    def __contains__(self, item):
        return bool(_INTERP.call_dunder(self, "__contains__", item))

    def __add__(self, other):
        return _INTERP.call_dunder(self, "__add__", other)


class BoundMethod:
    __slots__ = ("func", "self_")

    def __init__(self, func, self_):
        self.func = func
        self.self_ = self_

    def __call__(self, *args, **kwargs):
        return _INTERP.call(self.func, (self.self_,) + args, kwargs)

    def __repr__(self):
        return "<bound %s of %r>" % (getattr(self.func, "__qualname__", self.func), self.self_)


class SuperProxy:
    __slots__ = ("cls", "obj")

    def __init__(self, cls, obj):
        self.cls = cls
        self.obj = obj


class Closure:
    """function/lambda defined inside interpreted code."""
    __slots__ = ("node", "env", "globals_", "owner", "defaults", "kwdefaults", "qualname")

    def __init__(self, node, env, globals_, owner, defaults, kwdefaults, qualname):
        self.node = node
        self.env = env
        self.globals_ = globals_
        self.owner = owner
        self.defaults = defaults
        self.kwdefaults = kwdefaults
        self.qualname = qualname

    def __call__(self, *args, **kwargs):
        return _INTERP.call(self, args, kwargs)


class CoroObj:
    """coroutine object produced by calling an async function in interpreted code (run when awaited)"""
    __slots__ = ("func", "args", "kwargs", "started")

    def __init__(self, func, args, kwargs):
        self.func = func
        self.args = args
        self.kwargs = kwargs
        self.started = False


class GenObj:
    """un-started generator object produced by calling a generator function in interpreted code."""
    __slots__ = ("func", "args", "kwargs", "started")

    def __init__(self, func, args, kwargs):
        self.func = func
        self.args = args
        self.kwargs = kwargs
        self.started = False


# ---------------------------------------------------------------------------- canonical representations
# A specification talks about an object's abstract view (a few named fields).  The real class may keep further
# private fields (caches ...).  For registered classes the concrete twin of a view is obtained by running the
# class's REAL constructor on the view, so that harmless representation changes do not disturb the proofs while
# a method that leaves such a field inconsistent with the view is still caught.
class CtxGen:
    """the object a function decorated with contextlib.contextmanager / asynccontextmanager returns: the generator
    function and its arguments.  `with` / `async with` run its body in line (interp.with_ctxgen)"""
    __slots__ = ("func", "args", "kwargs")

    def __init__(self, func, args, kwargs):
        self.func, self.args, self.kwargs = func, args, kwargs


class Choice:
    """ite(cond, a, b) over values that have no merged symbolic form (two classes, two objects).  Made by a conditional
    expression with a symbolic test and side-effect-free arms; it lives only in a local name, as the callee of a call
    and as the operand of a yield - every other use resolves it by forking on cond (interp.resolve_choice)"""
    __slots__ = ("cond", "a", "b")

    def __init__(self, cond, a, b):
        self.cond, self.a, self.b = cond, a, b

    def __repr__(self):
        return "Choice(%r, %r, %r)" % (self.cond, self.a, self.b)


class AbstractValue:
    """a value known to the proof only through an (assumed) contract of its operations - e.g. a Python list seen
    through one tracked element.  The interpreter routes attribute access, membership, truth, list() and formatting
    of such a value to these methods."""

    def py_getattr(self, interp, name):
        raise Unsupported("%s.%s" % (type(self).__name__, name))

    def py_contains(self, interp, item):
        raise Unsupported("membership in %s" % type(self).__name__)

    def py_truth(self, interp):
        raise Unsupported("truth value of %s" % type(self).__name__)

    def py_list(self, interp):
        raise Unsupported("list() of %s" % type(self).__name__)


INIT_BUILT = {}     # class -> (args, kwargs) of its real constructor


def register_init_built(cls, *args, **kwargs):
    """objects of this class are produced by running the class's REAL __init__ (symbolically / natively) and then
    overlaying the fields the proof unit states; attributes the unit does not mention keep what __init__ gave them,
    so a refactor that adds a private attribute in __init__ cannot make a proof unit trip over a missing field"""
    INIT_BUILT[cls] = (args, kwargs)


CANON = []      # (base class, tuple of view fields, rebuild(interp, cls, view) -> object)


def register_canon(base, fields, rebuild):
    for i, (b, _, _) in enumerate(CANON):
        if b is base:
            CANON[i] = (base, tuple(fields), rebuild)
            return
    CANON.append((base, tuple(fields), rebuild))


def canon_entry(cls):
    best = None
    for base, fields, rebuild in CANON:
        if isinstance(cls, type) and issubclass(cls, base):
            if best is None or issubclass(base, best[0]):
                best = (base, fields, rebuild)
    return best


def canonical(obj):
    """concrete twin of obj's abstract view (obj itself if its class is not registered or the view is incomplete)"""
    cls = obj.cls if isinstance(obj, SObj) else type(obj)
    ent = canon_entry(cls)
    if ent is None:
        return obj
    fields = obj.fields if isinstance(obj, SObj) else vars(obj)
    if any(f not in fields for f in ent[1]):
        return obj
    view = {f: fields[f] for f in ent[1]}
    return ent[2](_INTERP, cls, view)


class Deferred:
    """uninterpreted application f(args): stands for the result of a contracted function on these arguments
    without evaluating it; two are equal when the functions are the same and the arguments are equal."""

    def __init__(self, fn, *args):
        self.fn = fn
        self.args = args

    def __hash__(self):
        return id(self)

    def __repr__(self):
        return "Deferred(%s, %r)" % (self.fn, self.args)


def class_of(v):
    if isinstance(v, SObj):
        return v.cls
    if isinstance(v, SInt):
        return v.pycls or int
    if isinstance(v, SBool):
        return bool
    if isinstance(v, SByteArray):
        return bytearray
    if isinstance(v, SBytes):
        return bytes
    return type(v)


def values_equal(a, b):
    """Structural equality (truth value, possibly symbolic) used to compare the
    outcome of the real body with the outcome of the spec function."""
    from .spec import And, AnyOf
    if isinstance(a, Deferred) or isinstance(b, Deferred):
        if not (isinstance(a, Deferred) and isinstance(b, Deferred)):
            return False
        if a.fn != b.fn or len(a.args) != len(b.args):
            return False
        return And([values_equal(x, y) for x, y in zip(a.args, b.args)])
    if isinstance(a, AnyOf) or isinstance(b, AnyOf):
        any_, other = (a, b) if isinstance(a, AnyOf) else (b, a)
        if isinstance(other, AnyOf):
            return True
        return issubclass(class_of(other), any_.types)
    if isinstance(a, SObj) or isinstance(b, SObj):
        if a is b:
            return True
        if not (isinstance(a, SObj) and isinstance(b, SObj)):
            # an SObj against a real instance of the same class (e.g. module constants)
            so, ro = (a, b) if isinstance(a, SObj) else (b, a)
            if type(ro) is not so.cls or not hasattr(ro, "__dict__"):
                return False
            fb = vars(ro)
            if set(so.fields) != set(fb):
                return False
            return And([values_equal(so.fields[k], fb[k]) for k in sorted(fb)])
        if a.cls is not b.cls:
            return False
        if set(a.fields) != set(b.fields):
            # one side may be an abstract view: compare through the canonical representation
            ent = canon_entry(a.cls)
            if ent is not None:
                ca = canonical(a) if set(a.fields) == set(ent[1]) else a
                cb = canonical(b) if set(b.fields) == set(ent[1]) else b
                if set(ca.fields) != set(cb.fields):
                    return False
                return And([values_equal(ca.fields[k], cb.fields[k]) for k in sorted(ca.fields)])
            return False
        return And([values_equal(a.fields[k], b.fields[k]) for k in sorted(a.fields)])
    if isinstance(a, sym.SFloat) or isinstance(b, sym.SFloat):
        if isinstance(a, sym.SFloat):
            return a.same_as(b)
        return b.same_as(a)
    if type(a).__name__ == "SText" or type(b).__name__ == "SText":
        st, other = (a, b) if type(a).__name__ == "SText" else (b, a)
        return st.__eq__(other)
    if is_sym(a) or is_sym(b):
        # bool vs int distinction matters in Python (True == 1 but type differs)
        ba = isinstance(a, (bool, SBool))
        bb = isinstance(b, (bool, SBool))
        if ba != bb:
            return False
        if not (sym.is_intlike(a) and sym.is_intlike(b)):
            return False
        return a == b
    if isinstance(a, (list, tuple)) and isinstance(b, (list, tuple)):
        if type(a) is not type(b) or len(a) != len(b):
            return False
        return And([values_equal(x, y) for x, y in zip(a, b)])
    if isinstance(a, dict) and isinstance(b, dict):
        if set(map(_key, a)) != set(map(_key, b)):
            return False
        bb = {_key(k): v for k, v in b.items()}
        return And([values_equal(v, bb[_key(k)]) for k, v in a.items()])
    if isinstance(a, SBytes) or isinstance(b, SBytes):
        la = list(a.items) if isinstance(a, SBytes) else (list(a) if isinstance(a, (bytes, bytearray)) else None)
        lb = list(b.items) if isinstance(b, SBytes) else (list(b) if isinstance(b, (bytes, bytearray)) else None)
        if la is None or lb is None or len(la) != len(lb):
            return False
        return And([x == y for x, y in zip(la, lb)])
    if isinstance(a, SymSet) or isinstance(b, SymSet):
        if isinstance(a, SymSet):
            return a.equals(b)
        return b.equals(a)
    if isinstance(a, (set, frozenset)) and isinstance(b, (set, frozenset)):
        return a == b
    if type(a) is not type(b):
        if isinstance(a, bool) != isinstance(b, bool):
            return False
        if isinstance(a, (int, float)) and isinstance(b, (int, float)):
            return a == b
        if isinstance(a, str) and isinstance(b, str):
            return _streq(a, b)
        return a is b
    if isinstance(a, str):
        return _streq(a, b)
    if isinstance(a, (int, float, bytes, type(None), type, slice, range)):
        return a == b
    if hasattr(a, "__dict__") and type(a).__module__.startswith("dali"):
        if a is b:
            return True
        fa, fb = vars(a), vars(b)
        if set(fa) != set(fb):
            return False
        return And([values_equal(fa[k], fb[k]) for k in sorted(fa)])
    try:
        return bool(a == b)
    except Exception:
        return a is b


def _key(k):
    return k


def _streq(a, b):
    if OPAQUE in a or OPAQUE in b:
        return True     # opaque text: content not modelled, only totality
    return a == b


class SymSet:
    """set of hashable concrete elements with symbolic membership: elem -> truth value."""

    def __init__(self, mem=None):
        self.mem = dict(mem or {})

    @staticmethod
    def of(x):
        if isinstance(x, SymSet):
            return x
        return SymSet({e: True for e in x})

    def copy(self):
        return SymSet(self.mem)

    def member(self, e):
        from .spec import Or
        if is_sym(e):
            return Or([And_(e == k, c) for k, c in self.mem.items() if isinstance(k, int)])
        return self.mem.get(e, False)

    def elements(self):
        """(elem, cond) pairs in a deterministic order, impossible members dropped"""
        try:
            keys = sorted(self.mem)
        except TypeError:
            keys = list(self.mem)
        return [(k, self.mem[k]) for k in keys if self.mem[k] is not False]

    def add_if(self, cond, e):
        from .spec import Or
        if is_sym(e):
            raise Unsupported("symbolic element added to a set")
        self.mem[e] = Or(self.mem.get(e, False), cond)

    def discard_if(self, cond, e):
        from .spec import And, Not
        if is_sym(e):
            raise Unsupported("symbolic element removed from a set")
        if e in self.mem:
            self.mem[e] = And(self.mem[e], Not(cond))

    def __sub__(self, o):
        from .spec import And, Not
        o = SymSet.of(o)
        return SymSet({k: And(c, Not(o.mem.get(k, False))) for k, c in self.mem.items()})

    def __rsub__(self, o):
        return SymSet.of(o).__sub__(self)

    def __or__(self, o):
        from .spec import Or
        o = SymSet.of(o)
        return SymSet({k: Or(self.mem.get(k, False), o.mem.get(k, False)) for k in set(self.mem) | set(o.mem)})
    __ror__ = __or__

    def __and__(self, o):
        from .spec import And
        o = SymSet.of(o)
        return SymSet({k: And(self.mem.get(k, False), o.mem.get(k, False)) for k in set(self.mem) & set(o.mem)})
    __rand__ = __and__

    def __xor__(self, o):
        from .spec import And, Or, Not
        o = SymSet.of(o)
        out = {}
        for k in set(self.mem) | set(o.mem):
            a, b = self.mem.get(k, False), o.mem.get(k, False)
            out[k] = Or(And(a, Not(b)), And(b, Not(a)))
        return SymSet(out)
    __rxor__ = __xor__

    def equals(self, o):
        from .spec import And, Iff
        o = SymSet.of(o) if isinstance(o, (set, frozenset, SymSet)) else None
        if o is None:
            return False
        return And([Iff(self.mem.get(k, False), o.mem.get(k, False)) for k in set(self.mem) | set(o.mem)])

    def count(self):
        from .spec import ite
        n = 0
        for k, c in self.mem.items():
            n = n + ite(c, 1, 0)
        return n

    def __hash__(self):
        return id(self)

    def __repr__(self):
        return "SymSet(%r)" % (self.mem,)


def And_(a, b):
    from .spec import And
    return And(a, b)


class SBytes:
    """bytes value of concrete length whose elements may be symbolic."""
    __slots__ = ("items",)

    def __init__(self, items):
        self.items = list(items)

    def __len__(self):
        return len(self.items)

    def __iter__(self):
        return iter(self.items)

    def __getitem__(self, k):
        if isinstance(k, slice):
            return mk_bytes(self.items[k])
        return self.items[k]

    def __add__(self, o):
        return mk_bytes(self.items + list(o))

    def __radd__(self, o):
        return mk_bytes(list(o) + self.items)

    def __eq__(self, o):
        return values_equal(self, o)

    def __hash__(self):
        return id(self)

    def __repr__(self):
        return "SBytes(%r)" % (self.items,)


class SByteArray(SBytes):
    """bytearray: a MUTABLE byte sequence of concrete length whose elements may be symbolic"""
    __slots__ = ()

    def __repr__(self):
        return "SByteArray(%r)" % (self.items,)

    def snapshot(self):
        return mk_bytes(list(self.items))


def mk_bytes(items):
    items = list(items)
    if all(isinstance(x, int) and not isinstance(x, bool) for x in items):
        return bytes(items)
    return SBytes(items)


def contains_sym(v, depth=0):
    if is_sym(v) or isinstance(v, (SObj, SBytes, SymSet)):
        return True
    if depth > 4:
        return False
    if isinstance(v, (list, tuple, set, frozenset)):
        return any(contains_sym(x, depth + 1) for x in v)
    if isinstance(v, dict):
        return any(contains_sym(x, depth + 1) for x in v.values()) or \
            any(contains_sym(x, depth + 1) for x in v.keys())
    if isinstance(v, slice):
        return contains_sym((v.start, v.stop, v.step), depth + 1)
    if isinstance(v, BoundMethod):
        return contains_sym(v.self_, depth + 1)
    return False
