"""Path contexts and the path explorer (forking by re-execution with a decision prefix)."""
import os
import time
import z3
from . import sym
from .sym import SInt, SBool, Unsupported, to_bv
from .values import SObj


class Infeasible(BaseException):
    """the current path's condition became unsatisfiable: drop the path."""


class PathLimit(BaseException):
    pass


class PathEnd(BaseException):
    """the path ends here by construction (end of an inductive-step path of a loop rule)"""


class RaiseEx(Exception):
    """A Python-level exception raised by the interpreted program."""

    def __init__(self, value, where=None):
        self.value = value      # SObj of an exception class, or a real exception instance
        self.where = where
        super().__init__(value)

    @property
    def cls(self):
        v = self.value
        return v.cls if isinstance(v, SObj) else type(v)


def _site():
    """where a fork is asked for: how many statements of the verified code this path has executed so far, the line of
    the current one, and the Python call chain (checker, model or specification code) leading to the fork.  A faithful
    re-execution of a recorded prefix meets its decisions at the same sites."""
    import sys as _sys
    f = _sys._getframe(2)
    chain = []
    n = 0
    while f is not None and n < 12:
        chain.append((f.f_code.co_name, f.f_lineno))
        f = f.f_back
        n += 1
    return hash((sym.STEP, sym.WHERE, tuple(chain)))


class Decision:
    __slots__ = ("d", "forced", "aux", "fp")

    def __init__(self, d, forced=False, aux=None, fp=None):
        self.d = d
        self.forced = forced
        self.aux = aux
        self.fp = fp        # structural hash of the condition decided: re-execution must meet the same condition

    def __repr__(self):
        return "%s%s" % ("T" if self.d else "F", "!" if self.forced else "")


class Obligation:
    __slots__ = ("name", "status", "detail", "model", "seconds", "path", "backend")

    def __init__(self, name, status, detail=None, model=None, seconds=0.0, path=None, backend="z3"):
        self.name = name
        self.status = status     # 'discharged' | 'failed' | 'undecided'
        self.detail = detail
        self.model = model
        self.seconds = seconds
        self.path = path
        self.backend = backend

    def as_dict(self):
        return {"name": self.name, "status": self.status, "detail": self.detail,
                "model": self.model, "seconds": round(self.seconds, 4),
                "path": self.path, "backend": self.backend}


class PathCtx:
    def __init__(self, explorer, prefix):
        self.ex = explorer
        self.decisions = list(prefix)
        self.initial_len = len(prefix)
        self.pos = 0
        self.solver = explorer.solver
        self.inputs = {}            # name -> z3 const
        self.objects = []           # input objects in creation order (per builder pass)
        self.require_mode = "assume"
        self.prefix_label = ""
        self.writes = []            # (obj, field) stores to non-fresh objects
        self.npc = 0
        self.fresh_counter = 0
        self.notes = []
        self.unknown_forks = 0
        self.side = []
        self.last_backend = "z3"
        self.last_witness = None

    def _cross_check(self, name, negated):
        """thorough tier: an obligation z3 discharged (pc /\\ negated is unsat) is re-checked by cvc5"""
        ex = self.ex
        self.solver.push()
        try:
            self.solver.add(negated)
            txt = self.solver.to_smt2()
        finally:
            self.solver.pop()
        r2 = cvc5_inproc(txt, ex.cross_ms, ex.logic)
        ex.cross_stats["rechecked"] += 1
        if r2 == z3.unsat:
            ex.cross_stats["agreed"] += 1
        elif r2 == z3.sat:
            ex.cross_stats["disagreed"] += 1
            ex.disagreements.append(name)
        else:
            ex.cross_stats["cvc5_unknown"] += 1

    # ------------------------------------------------------------ bookkeeping
    def replaying(self):
        return self.pos < self.initial_len

    def _add(self, e):
        self.solver.add(e)
        self.npc += 1

    def _check(self, *extra):
        """satisfiability of pc + extra.  Incremental solver first (short budget), then a fresh
        bit-blasting solver, then cvc5 on the exported SMT-LIB text."""
        t0 = time.time()
        ex = self.ex
        self.solver.push()
        m = None
        backend = "z3"
        first_unknown = False
        try:
            for e in extra:
                self.solver.add(e)
            self.solver.set("timeout", ex.quick_ms)
            r = self.solver.check()
            if r == z3.sat:
                m = self.solver.model()
            elif r == z3.unknown:
                first_unknown = True
                asserts = list(self.solver.assertions())
                s2 = z3.Tactic("qfbv").solver() if ex.logic == "QF_BV" else z3.Solver()
                s2.set("timeout", ex.timeout_ms)
                s2.add(*asserts)
                r = s2.check()
                backend = "z3-fresh"
                if r == z3.sat:
                    m = s2.model()
                elif r == z3.unknown and ex.use_cvc5:
                    r2 = cvc5_check(s2.to_smt2(), ex.timeout_ms, ex.logic)
                    if r2 is not None:
                        r = r2
                        backend = "cvc5"
                        if r == z3.sat:
                            # cvc5 gives no model through this route: ask z3 once more, longer
                            s2.set("timeout", 4 * ex.timeout_ms)
                            if s2.check() == z3.sat:
                                m = s2.model()
        finally:
            self.solver.pop()
            if first_unknown:
                # z3's incremental solver is not to be trusted after a timeout (observed with z3 5.1.0: `sat` with a
                # model that violates the assertions, where a fresh solver says `unsat`): it is replaced by a fresh
                # one holding the same path condition
                fresh = ex.new_solver()
                fresh.add(*list(self.solver.assertions()))
                self.solver = fresh
                ex.solver = fresh
                ex.solver_rebuilds += 1
        dt = time.time() - t0
        ex.solver_s += dt
        ex.queries += 1
        ex.by_backend[backend] = ex.by_backend.get(backend, 0) + 1
        self.last_backend = backend
        return r, m, dt

    def _confirm_sat(self, m, extra):
        """a counter-model is only believed when it satisfies the path condition and the negated goal it was asked for;
        otherwise the question is put again to a fresh solver.  -> (result, model, backend)"""
        def holds(model):
            try:
                return all(z3.is_true(model.eval(a, model_completion=True)) for a in list(self.solver.assertions()) + list(extra))
            except z3.Z3Exception:
                return False
        if m is not None and holds(m):
            return z3.sat, m
        self.ex.unconfirmed_models = getattr(self.ex, "unconfirmed_models", 0) + 1
        s2 = z3.Tactic("qfbv").solver() if self.ex.logic == "QF_BV" else z3.Solver()
        s2.set("timeout", self.ex.timeout_ms)
        s2.add(*list(self.solver.assertions()))
        s2.add(*extra)
        r = s2.check()
        if r == z3.sat:
            m2 = s2.model()
            if holds(m2):
                return z3.sat, m2
            return z3.unknown, None
        return r, None

    # ------------------------------------------------------------ forking
    def fork(self, e, aux=None):
        e = z3.simplify(e)
        if z3.is_true(e):
            return True
        if z3.is_false(e):
            return False
        fp = _site()
        if self.pos < len(self.decisions):
            dec = self.decisions[self.pos]
            self.pos += 1
            if dec.fp is not None and dec.fp != fp:
                # re-execution along a recorded prefix met another condition than the one the decision was taken on
                # (the interpreted code or a model behaved differently the second time): nothing may be concluded
                raise Unsupported("re-execution of a path prefix diverged at decision %d" % (self.pos - 1))
            # every replayed decision is asserted, forced ones too (they are implied by the path condition when the
            # re-execution is faithful; asserting them keeps the path condition complete in any case)
            self._add(e if dec.d else z3.Not(e))
            return dec.d
        rt, _, _ = self._check(e)
        rf, _, _ = self._check(z3.Not(e))
        t = rt != z3.unsat
        f = rf != z3.unsat
        if rt == z3.unknown or rf == z3.unknown:
            self.unknown_forks += 1
        if t and f:
            self.ex.push(self.decisions + [Decision(False, False, aux, fp)])
            dec = Decision(True, False, aux, fp)
            self._add(e)
        elif t:
            dec = Decision(True, True, aux, fp)
        elif f:
            dec = Decision(False, True, aux, fp)
        else:
            raise Infeasible()
        self.decisions.append(dec)
        self.pos += 1
        if len(self.decisions) > self.ex.max_depth:
            raise PathLimit("path deeper than %d decisions" % self.ex.max_depth)
        return dec.d

    def choose_int(self, x, what="shape", cap=600):
        """concretise a symbolic int by complete enumeration of its feasible values."""
        if not isinstance(x, (SInt, SBool)):
            return x
        xe = to_bv(x)
        n = 0
        while True:
            n += 1
            if n > cap:
                raise Unsupported("enumeration of %s exceeds %d values" % (what, cap))
            if self.pos < len(self.decisions):
                v = self.decisions[self.pos].aux
                if v is None:
                    raise Unsupported("decision trace out of step in choose_int")
            else:
                r, m, _ = self._check()
                if r == z3.unsat:
                    raise Infeasible()
                if m is None:
                    raise Unsupported("the solvers could not decide whether further values of %s are feasible" % what)
                v = m.eval(xe, model_completion=True).as_signed_long()
            if self.fork(xe == sym._bvv(v), aux=v):
                return v

    def assume(self, cond):
        if isinstance(cond, SBool):
            e = z3.simplify(cond.e)
        elif isinstance(cond, SInt):
            e = cond.e != sym._bvv(0)
        else:
            if not cond:
                raise Infeasible()
            return
        if z3.is_true(e):
            return
        if z3.is_false(e):
            raise Infeasible()
        self._add(e)
        if not self.replaying():
            r, _, _ = self._check()
            if r == z3.unsat:
                raise Infeasible()

    def require(self, cond, label="pre"):
        if self.require_mode == "assume":
            self.assume(cond)
        else:
            self.prove("%spre@%s" % (self.prefix_label, label), cond)

    def raise_py(self, cls, *args):
        raise RaiseEx(SObj(cls, {"args": tuple(args)}))

    # ------------------------------------------------------------ symbolic inputs
    def int(self, name, lo=None, hi=None):
        """symbolic int input.  Unbounded inputs range over [-2^(W-2), 2^(W-2)) - the
        documented domain of the integer model."""
        if name in self.inputs:
            return SInt(self.inputs[name])
        e = z3.BitVec(name, sym.W)
        self.inputs[name] = e
        v = SInt(e)
        lo_ = lo if lo is not None else -(1 << (sym.W - 2))
        hi_ = hi if hi is not None else (1 << (sym.W - 2)) - 1
        if lo_ > hi_:
            raise Infeasible()
        # bounds of a fresh constant are satisfiable by construction: no solver call
        self._add(e >= sym._bvv(lo_))
        self._add(e <= sym._bvv(hi_))
        return v

    def bool(self, name):
        if name in self.inputs:
            return SBool(self.inputs[name])
        e = z3.Bool(name)
        self.inputs[name] = e
        return SBool(e)

    def fresh_int(self, hint="t", lo=None, hi=None):
        self.fresh_counter += 1
        return self.int("%s!%d" % (hint, self.fresh_counter), lo, hi)

    def fresh_bool(self, hint="b"):
        self.fresh_counter += 1
        return self.bool("%s!%d" % (hint, self.fresh_counter))

    def new(self, cls, **fields):
        """an input object with this abstract view; for classes with a registered canonical form the concrete
        representation is produced by the class's real constructor"""
        from .values import canonical, INIT_BUILT, interp as cur_interp
        if cls in INIT_BUILT:
            a, k = INIT_BUILT[cls]
            try:
                o = cur_interp().call(cls, a, dict(k))
            except RaiseEx as e:
                raise Unsupported("the real constructor of %s raised %s at %s" % (cls.__name__, e.cls.__name__, e.where))
            o.fields.update(fields)
            object.__setattr__(o, "fresh", False)
            self.objects.append(o)
            return o
        o = SObj(cls, fields, fresh=False)
        if fields:
            try:
                c = canonical(o)
            except RaiseEx:
                raise Infeasible()      # the real constructor rejects this view: not a value of the class
            if c is not o:
                object.__setattr__(c, "fresh", False)
                o = c
        self.objects.append(o)
        return o

    native = False

    def track(self, container):
        """a list/dict created by the input builder that the code under verification may mutate"""
        from .values import interp
        interp().declared_mutable[id(container)] = container
        return container

    # ------------------------------------------------------------ obligations
    def side_condition(self, cond, what):
        """no-overflow side condition of an integer operation; discharged at the end of the
        path under the full path condition (every execution following this path satisfies it)."""
        cond = z3.simplify(cond)
        if z3.is_true(cond):
            return
        self.side.append((cond, what))

    def flush_side_conditions(self):
        if not self.side:
            return
        name = self.ex.label + "/no-overflow"
        r, m, dt = self._check(z3.Or(*[z3.Not(c) for c, _ in self.side]))
        if r == z3.sat:
            r, m = self._confirm_sat(m, [z3.Or(*[z3.Not(c) for c, _ in self.side])])
        if r == z3.unsat:
            self.ex.record(Obligation(name, "discharged", seconds=dt))
            if self.ex.cross:
                self._cross_check(name, z3.Or(*[z3.Not(c) for c, _ in self.side]))
        else:
            bad = ""
            if m is not None:
                for c, what in self.side:
                    if z3.is_false(m.eval(c, model_completion=True)):
                        bad = what
                        break
            # outside the modelled integer domain: undecided, never a violation
            self.ex.record(Obligation(name, "undecided",
                                      detail="operation %s may leave the %d-bit integer model (%s)"
                                      % (bad, sym.W, r), seconds=dt, path=repr(self.decisions),
                                      model=self.model_dict(m) if m is not None else None))
        self.side = []

    def prove(self, name, cond, detail=None):
        """an obligation: cond holds on every execution reaching this point."""
        if self.replaying():
            return
        full = self.ex.label + "/" + name
        if isinstance(cond, SBool):
            e = z3.simplify(cond.e)
        elif isinstance(cond, SInt):
            e = cond.e != sym._bvv(0)
        else:
            e = z3.BoolVal(bool(cond))
        if z3.is_true(e):
            self.ex.record(Obligation(full, "discharged"))
            return
        r, m, dt = self._check(z3.Not(e))
        if r == z3.sat:
            r, m = self._confirm_sat(m, [z3.Not(e)])
        if r == z3.unsat:
            self.ex.record(Obligation(full, "discharged", seconds=dt, backend=self.last_backend))
            if self.ex.cross:
                self._cross_check(full, z3.Not(e))
        elif r == z3.sat:
            self.ex.record(Obligation(full, "failed", detail=detail, model=self.model_dict(m),
                                      seconds=dt, path=repr(self.decisions)))
        else:
            self.ex.record(Obligation(full, "undecided", detail="solver: %s" % self.solver.reason_unknown(),
                                      seconds=dt, path=repr(self.decisions)))

    def fail(self, name, detail=None):
        """a definite violation on this (feasible) path."""
        if self.replaying():
            return
        r, m, dt = self._check()
        if r == z3.sat:
            r, m = self._confirm_sat(m, [])
        full = self.ex.label + "/" + name
        if r == z3.unsat:
            raise Infeasible()
        self.ex.record(Obligation(full, "failed" if r == z3.sat else "undecided", detail=detail,
                                  model=self.model_dict(m) if m is not None else None,
                                  seconds=dt, path=repr(self.decisions)))

    def cover(self):
        """vacuity guard: the path reaching here is satisfiable."""
        r, m, dt = self._check()
        if r == z3.unsat:
            raise Infeasible()
        self.ex.covers += 1
        if self.ex.collect_witnesses and m is not None:
            self.last_witness = self.model_dict(m)
        return m

    def model_dict(self, m):
        out = {}
        for name, e in self.inputs.items():
            v = m.eval(e, model_completion=True)
            if z3.is_bv_value(v):
                out[name] = v.as_signed_long()
            elif z3.is_true(v):
                out[name] = True
            elif z3.is_false(v):
                out[name] = False
            else:
                out[name] = str(v)
        return out


class NativeCtx:
    """Replay mode: inputs are concrete values from a counter-model; objects are real instances."""
    native = True

    def __init__(self, model):
        self.model = dict(model or {})
        self.objects = []
        self.fresh_counter = 0
        self.require_mode = "assume"
        self.proved = []
        self.writes = []
        self.prefix_label = ""

    def int(self, name, lo=None, hi=None):
        v = self.model.get(name)
        if v is None:
            v = lo if lo is not None else 0
        return int(v)

    def bool(self, name):
        return bool(self.model.get(name, False))

    def fresh_int(self, hint="t", lo=None, hi=None):
        self.fresh_counter += 1
        return self.int("%s!%d" % (hint, self.fresh_counter), lo, hi)

    def fresh_bool(self, hint="b"):
        self.fresh_counter += 1
        return self.bool("%s!%d" % (hint, self.fresh_counter))

    def new(self, cls, **fields):
        from .spec import canonical_native
        from .values import INIT_BUILT
        if cls in INIT_BUILT:
            a, k = INIT_BUILT[cls]
            o = cls(*a, **k)
            for k_, v in fields.items():
                object.__setattr__(o, k_, v)
            self.objects.append(o)
            return o
        o = cls.__new__(cls)
        for k, v in fields.items():
            object.__setattr__(o, k, v)
        if fields:
            o = canonical_native(o)
        self.objects.append(o)
        return o

    def assume(self, cond):
        if not cond:
            from .spec import PreconditionFailed
            raise PreconditionFailed("assumption of the input builder not met by the counter-model")

    def require(self, cond, label="pre"):
        self.assume(cond)

    def prove(self, name, cond, detail=None):
        self.proved.append((name, bool(cond), detail))

    def fail(self, name, detail=None):
        self.proved.append((name, False, detail))

    def cover(self):
        return None

    def track(self, container):
        return container

    def choose_int(self, x, what="shape", cap=0):
        return x


def cvc5_check(smt2, timeout_ms, logic):
    """second back end: /usr/bin/cvc5 on the SMT-LIB export; returns z3.sat/unsat or None."""
    import subprocess
    import tempfile
    exe = "/usr/bin/cvc5"
    if not os.path.exists(exe):
        return None
    with tempfile.NamedTemporaryFile("w", suffix=".smt2", delete=False) as f:
        f.write("(set-logic %s)\n" % (logic or "ALL"))
        f.write(smt2)
        name = f.name
    try:
        p = subprocess.run([exe, "--lang", "smt2", "--tlimit=%d" % timeout_ms, name],
                           capture_output=True, text=True, timeout=timeout_ms / 1000 + 10)
        out = p.stdout.strip().splitlines()
        if out and out[0] == "unsat":
            return z3.unsat
        if out and out[0] == "sat":
            return z3.sat
        return None
    except Exception:       # noqa: BLE001
        return None
    finally:
        os.unlink(name)


def cvc5_inproc(smt2, timeout_ms, logic):
    """independent back end for the thorough tier: the cvc5 Python API (wheel) parsing the SMT-LIB export in-process;
    returns z3.sat / z3.unsat / None (unknown, timeout or cvc5 unavailable)"""
    try:
        import cvc5
    except Exception:       # noqa: BLE001
        return cvc5_check(smt2, timeout_ms, logic)
    try:
        slv = cvc5.Solver()
        slv.setOption("tlimit-per", str(int(timeout_ms)))
        ip = cvc5.InputParser(slv)
        ip.setStringInput(cvc5.InputLanguage.SMT_LIB_2_6, "(set-logic %s)\n%s" % (logic or "ALL", smt2), "vc")
        sm = ip.getSymbolManager()
        res = None
        while True:
            cmd = ip.nextCommand()
            if cmd.isNull():
                break
            out = cmd.invoke(slv, sm).strip()
            if out in ("sat", "unsat", "unknown"):
                res = out
        return {"sat": z3.sat, "unsat": z3.unsat}.get(res)
    except Exception:       # noqa: BLE001
        return None


class Explorer:
    def __init__(self, label, timeout_ms=30000, max_paths=20000, max_depth=4000, logic="QF_BV",
                 quick_ms=1500, use_cvc5=True):
        self.cross = os.environ.get("PYVC_CROSS", "") == "1"          # re-discharge with cvc5 (thorough tier)
        self.cross_ms = int(os.environ.get("PYVC_CROSS_MS", "20000"))
        self.cross_stats = {"rechecked": 0, "agreed": 0, "cvc5_unknown": 0, "disagreed": 0}
        self.disagreements = []
        self.collect_witnesses = os.environ.get("PYVC_WITNESSES", "") == "1"
        self.witness_cap = int(os.environ.get("PYVC_WITNESS_CAP", "200"))
        self.witnesses = []
        self.loop_exit_wanted = set()
        self.loop_exit_seen = set()
        self.label = label
        self.logic = logic
        self.solver = self.new_solver()
        self.solver_rebuilds = 0
        self.timeout_ms = timeout_ms
        self.quick_ms = int(os.environ.get("PYVC_QUICK_MS", quick_ms))      # (experiments: force the fallback solvers)
        self.use_cvc5 = use_cvc5
        self.by_backend = {}
        self.stack = []
        self.obligations = {}       # name -> aggregated dict
        self.failed = []
        self.undecided = []
        self.paths = 0
        self.covers = 0
        self.queries = 0
        self.solver_s = 0.0
        self.max_paths = max_paths
        self.max_depth = max_depth
        self.unknown_forks = 0
        self.relocated = {}         # loop specification -> where it was applied instead of the place it was written for
        self.by_reference_roles = set()     # roles of loop specifications bound to a parameter of the enclosing function

    def push(self, prefix):
        self.stack.append(prefix)

    def new_solver(self):
        return z3.SolverFor(self.logic) if self.logic else z3.Solver()

    def record(self, ob):
        agg = self.obligations.setdefault(ob.name, {"checks": 0, "status": "discharged", "seconds": 0.0})
        agg["checks"] += 1
        agg["seconds"] += ob.seconds
        if ob.status == "failed":
            agg["status"] = "failed"
            self.failed.append(ob)
        elif ob.status == "undecided":
            if agg["status"] != "failed":
                agg["status"] = "undecided"
            self.undecided.append(ob)

    def run(self, body):
        """body(ctx) executes one path; called once per path."""
        self.stack = [[]]
        t_start = time.time()
        budget = float(os.environ.get("PYVC_UNIT_BUDGET_S", "1500"))
        stop = False
        while self.stack and not stop:
            prefix = self.stack.pop()
            if time.time() - t_start > budget:
                self.record(Obligation(self.label + "/paths", "undecided",
                                       detail="the unit did not finish within %.0f s (%d paths explored)" % (budget, self.paths)))
                break
            if self.paths >= self.max_paths:
                self.record(Obligation(self.label + "/paths", "undecided",
                                       detail="more than %d paths" % self.max_paths))
                break
            self.paths += 1
            self.solver = self.new_solver()         # one solver per path: nothing survives from an earlier path
            c = PathCtx(self, prefix)
            sym.set_ctx(c)
            sym.STEP = 0
            sym.WHERE = 0
            nfail = len(self.failed) + len(self.undecided)
            try:
                body(c)
                c.flush_side_conditions()
                if (self.collect_witnesses and c.last_witness is not None and len(self.witnesses) < self.witness_cap
                        and nfail == len(self.failed) + len(self.undecided)):
                    self.witnesses.append(c.last_witness)
            except Infeasible:
                pass
            except PathEnd:
                try:
                    c.flush_side_conditions()
                except Infeasible:
                    pass
            except PathLimit as e:
                self.record(Obligation(self.label + "/paths", "undecided", detail=str(e)))
            except Unsupported as e:
                self.record(Obligation(self.label + "/engine", "undecided",
                                       detail="unsupported: %s" % (e,), path=repr(c.decisions)))
                if isinstance(e, sym.UnsupportedUnit):
                    stop = True
            finally:
                self.unknown_forks += c.unknown_forks
                sym.set_ctx(None)
        return self
