"""Symbolic proxies: SInt / SBool wrap z3 bit-vector / Bool terms.

The same Python text (contracts, spec functions, unit models) runs over these
proxies (symbolic mode) and over plain ints/bools (native replay mode).  Python
ints are modelled as signed bit-vectors of width W; every + - * << records a
no-overflow side condition in the current path context, which is discharged as
an obligation at the end of the path, so that on the proved domain bit-vector
and mathematical-integer semantics coincide.
"""
import z3

W = 72          # bit width of the int model; set per proof unit via set_width()
_CTX = None     # current path context (pyvc.path.PathCtx) or None in native mode


def set_width(w):
    global W
    W = w


STEP = 0        # statements of the verified code executed on the current path
WHERE = 0       # line of the statement being executed


def set_ctx(c):
    global _CTX
    _CTX = c


def ctx():
    return _CTX


class Unsupported(BaseException):
    """The engine met a construct it does not model: the obligation is undecided."""


class UnsupportedUnit(Unsupported):
    """... and exploring further paths of the unit is pointless (a structural misfit, not a property of one path)."""


def _bvv(v):
    if not (-(1 << (W - 1)) <= v < (1 << (W - 1))):
        raise Unsupported("integer constant %d outside the %d-bit model" % (v, W))
    return z3.BitVecVal(v, W)


def is_sym(x):
    return isinstance(x, (SInt, SBool))


def is_intlike(x):
    """Python's isinstance(x, int) over proxies (bool is an int)."""
    return isinstance(x, (int, SInt, SBool))


def is_boollike(x):
    return isinstance(x, (bool, SBool))


def to_bv(x):
    if isinstance(x, SInt):
        return x.e
    if isinstance(x, SBool):
        return z3.If(x.e, _bvv(1), _bvv(0))
    if isinstance(x, bool):
        return _bvv(1 if x else 0)
    if isinstance(x, int):
        return _bvv(int(x))
    raise TypeError("not an int: %r" % (x,))


def to_bool(x):
    """z3 Bool for a bool-like value (no truthiness of ints here)."""
    if isinstance(x, SBool):
        return x.e
    if isinstance(x, bool):
        return z3.BoolVal(x)
    raise TypeError("not a bool: %r" % (x,))


def _side(cond, what):
    """record an overflow side condition (cond = 'no overflow' must hold)."""
    if _CTX is not None:
        _CTX.side_condition(cond, what)


def _shl_safe(a, n):
    """a << n does not leave the signed W-bit range (n already known non-negative)."""
    a = z3.simplify(a)
    if z3.is_bv_value(a):
        v = a.as_signed_long()
        bl = v.bit_length() if v >= 0 else (~v).bit_length()
        return z3.ULT(n, _bvv(W - bl))
    lim = z3.LShR(_bvv((1 << (W - 1)) - 1), n)      # MAXINT >> n
    return z3.And(z3.ULT(n, _bvv(W)), a <= lim, a >= ~lim)


def mk_int(e):
    if z3.is_bv_value(e):
        return e.as_signed_long()
    return SInt(e)


def mk_bool(e):
    if z3.is_true(e):
        return True
    if z3.is_false(e):
        return False
    return SBool(e)


class SBool:
    __slots__ = ("e",)

    def __init__(self, e):
        self.e = e

    def __bool__(self):
        if _CTX is None:
            raise Unsupported("symbolic bool used outside a path context")
        return _CTX.fork(self.e)

    def __hash__(self):
        return id(self)

    # bool is an int in Python
    def _i(self):
        return SInt(to_bv(self))

    def __eq__(self, o):
        if isinstance(o, (bool, SBool)):
            return mk_bool(self.e == to_bool(o))
        if is_intlike(o):
            return self._i() == o
        return False

    def __ne__(self, o):
        r = self.__eq__(o)
        return (not r) if isinstance(r, bool) else mk_bool(z3.Not(r.e))

    def __and__(self, o):
        if isinstance(o, (bool, SBool)):
            return mk_bool(z3.And(self.e, to_bool(o)))
        return self._i() & o
    __rand__ = __and__

    def __or__(self, o):
        if isinstance(o, (bool, SBool)):
            return mk_bool(z3.Or(self.e, to_bool(o)))
        return self._i() | o
    __ror__ = __or__

    def __xor__(self, o):
        if isinstance(o, (bool, SBool)):
            return mk_bool(z3.Xor(self.e, to_bool(o)))
        return self._i() ^ o
    __rxor__ = __xor__

    def __invert__(self):
        return ~self._i()

    def __add__(self, o): return self._i() + o
    def __radd__(self, o): return o + self._i()
    def __sub__(self, o): return self._i() - o
    def __rsub__(self, o): return o - self._i()
    def __mul__(self, o): return self._i() * o
    def __rmul__(self, o): return o * self._i()
    def __lshift__(self, o): return self._i() << o
    def __rlshift__(self, o): return o << self._i()
    def __rshift__(self, o): return self._i() >> o
    def __rrshift__(self, o): return o >> self._i()
    def __lt__(self, o): return self._i() < o
    def __le__(self, o): return self._i() <= o
    def __gt__(self, o): return self._i() > o
    def __ge__(self, o): return self._i() >= o
    def __neg__(self): return -self._i()
    def __int__(self): raise Unsupported("int() of symbolic bool in native code")
    def __index__(self): raise Unsupported("symbolic bool used as an index")

    def __format__(self, spec):
        return OPAQUE

    def __repr__(self):
        return "SBool(%s)" % (str(self.e)[:80],)


OPAQUE = "￼"   # marks text whose content the engine does not model


class SInt:
    __slots__ = ("e", "pycls")

    def __init__(self, e, pycls=None):
        self.e = e
        self.pycls = pycls      # IntEnum / IntFlag class of which this value is a (pseudo-)member, or None

    def __hash__(self):
        return id(self)

    def __bool__(self):
        if _CTX is None:
            raise Unsupported("symbolic int used outside a path context")
        return _CTX.fork(self.e != _bvv(0))

    def __index__(self):
        raise Unsupported("symbolic int used where Python needs a concrete index")

    def __int__(self):
        raise Unsupported("int() of symbolic int in native code")

    def __format__(self, spec):
        if spec and spec[-1] in "sr":
            pass
        return OPAQUE

    def __repr__(self):
        return "SInt(%s)" % (str(self.e)[:80],)

    # ---- comparisons
    def _cmp(self, o, f):
        if not is_intlike(o):
            return NotImplemented
        if isinstance(o, int) and not (-(1 << (W - 1)) <= o < (1 << (W - 1))):
            # a constant outside the model's range compares like +-infinity
            return bool(f(0, 1)) if o > 0 else bool(f(1, 0))
        return mk_bool(z3.simplify(f(self.e, to_bv(o))))

    def __eq__(self, o):
        if not is_intlike(o):
            return False
        if isinstance(o, int) and not (-(1 << (W - 1)) <= o < (1 << (W - 1))):
            return False
        return mk_bool(z3.simplify(self.e == to_bv(o)))

    def __ne__(self, o):
        if not is_intlike(o):
            return True
        if isinstance(o, int) and not (-(1 << (W - 1)) <= o < (1 << (W - 1))):
            return True
        return mk_bool(z3.simplify(self.e != to_bv(o)))

    def __lt__(self, o): return self._cmp(o, lambda a, b: a < b)
    def __le__(self, o): return self._cmp(o, lambda a, b: a <= b)
    def __gt__(self, o): return self._cmp(o, lambda a, b: a > b)
    def __ge__(self, o): return self._cmp(o, lambda a, b: a >= b)

    # ---- arithmetic with no-overflow side conditions
    def __add__(self, o):
        if isinstance(o, (float, SFloat)):
            return SFloat()
        if not is_intlike(o):
            return NotImplemented
        a, b = self.e, to_bv(o)
        _side(z3.And(z3.BVAddNoOverflow(a, b, True), z3.BVAddNoUnderflow(a, b)), "+")
        return mk_int(a + b)

    def __radd__(self, o):
        if isinstance(o, (float, SFloat)):
            return SFloat()
        if not is_intlike(o):
            return NotImplemented
        return SInt(to_bv(o)).__add__(self)

    def __sub__(self, o):
        if isinstance(o, (float, SFloat)):
            return SFloat()
        if not is_intlike(o):
            return NotImplemented
        a, b = self.e, to_bv(o)
        _side(z3.And(z3.BVSubNoOverflow(a, b), z3.BVSubNoUnderflow(a, b, True)), "-")
        return mk_int(a - b)

    def __rsub__(self, o):
        if isinstance(o, (float, SFloat)):
            return SFloat()
        if not is_intlike(o):
            return NotImplemented
        return SInt(to_bv(o)).__sub__(self)

    def __neg__(self):
        _side(self.e != _bvv(-(1 << (W - 1))), "neg")
        return mk_int(-self.e)

    def __pos__(self):
        return self

    def __abs__(self):
        _side(self.e != _bvv(-(1 << (W - 1))), "abs")
        return mk_int(z3.If(self.e < 0, -self.e, self.e))

    def __mul__(self, o):
        import decimal
        if isinstance(o, (float, decimal.Decimal)):
            return SFloat(self, o)
        if isinstance(o, SFloat):
            return SFloat()
        if not is_intlike(o):
            return NotImplemented
        a, b = self.e, to_bv(o)
        _side(z3.And(z3.BVMulNoOverflow(a, b, True), z3.BVMulNoUnderflow(a, b)), "*")
        return mk_int(a * b)

    def __rmul__(self, o):
        import decimal
        if isinstance(o, (float, decimal.Decimal)):
            return SFloat(self, o)
        if isinstance(o, SFloat):
            return SFloat()
        if not is_intlike(o):
            return NotImplemented
        return self.__mul__(o)

    def __truediv__(self, o):
        if isinstance(o, (int, float, SInt, SBool, SFloat)):
            if is_intlike(o) and _CTX is not None and _CTX.fork(to_bv(o) == _bvv(0)):
                _CTX.raise_py(ZeroDivisionError)
            return SFloat()
        return NotImplemented

    def __rtruediv__(self, o):
        if isinstance(o, (int, float, SFloat)):
            if _CTX is not None and _CTX.fork(self.e == _bvv(0)):
                _CTX.raise_py(ZeroDivisionError)
            return SFloat()
        return NotImplemented

    def __floordiv__(self, o):
        if not is_intlike(o):
            return NotImplemented
        a, b = self.e, to_bv(o)
        if _CTX is not None and _CTX.fork(b == _bvv(0)):
            _CTX.raise_py(ZeroDivisionError)
        _side(z3.Not(z3.And(a == _bvv(-(1 << (W - 1))), b == _bvv(-1))), "//")
        q = a / b               # truncating signed division
        r = z3.SRem(a, b)
        adj = z3.And(r != _bvv(0), (r < 0) != (b < 0))
        return mk_int(z3.simplify(z3.If(adj, q - 1, q)))

    def __rfloordiv__(self, o):
        if not is_intlike(o):
            return NotImplemented
        return SInt(to_bv(o)).__floordiv__(self)

    def __mod__(self, o):
        if not is_intlike(o):
            return NotImplemented
        a, b = self.e, to_bv(o)
        if _CTX is not None and _CTX.fork(b == _bvv(0)):
            _CTX.raise_py(ZeroDivisionError)
        r = z3.SRem(a, b)
        adj = z3.And(r != _bvv(0), (r < 0) != (b < 0))
        return mk_int(z3.simplify(z3.If(adj, r + b, r)))

    def __rmod__(self, o):
        if not is_intlike(o):
            return NotImplemented
        return SInt(to_bv(o)).__mod__(self)

    def __lshift__(self, o):
        if not is_intlike(o):
            return NotImplemented
        a, n = self.e, to_bv(o)
        if _CTX is not None and _CTX.fork(n < 0):
            _CTX.raise_py(ValueError)
        r = a << n
        _side(_shl_safe(a, n), "<<")
        return mk_int(r)

    def __rlshift__(self, o):
        if not is_intlike(o):
            return NotImplemented
        return SInt(to_bv(o)).__lshift__(self)

    def shl_total(self, o):
        """spec-level shift: a negative count is a side-condition failure, not a ValueError."""
        a, n = self.e, to_bv(o)
        r = a << n
        _side(z3.And(n >= 0, _shl_safe(a, n)), "spec <<")
        return mk_int(r)

    def __rshift__(self, o):
        if not is_intlike(o):
            return NotImplemented
        a, n = self.e, to_bv(o)
        if _CTX is not None and _CTX.fork(n < 0):
            _CTX.raise_py(ValueError)
        # arithmetic shift: floor semantics like Python; shifts >= W saturate
        return mk_int(z3.If(z3.ULT(n, _bvv(W)), a >> n,
                            z3.If(a < 0, _bvv(-1), _bvv(0))))

    def __rrshift__(self, o):
        if not is_intlike(o):
            return NotImplemented
        return SInt(to_bv(o)).__rshift__(self)

    def __and__(self, o):
        if not is_intlike(o):
            return NotImplemented
        return mk_int(self.e & to_bv(o))
    __rand__ = __and__

    def __or__(self, o):
        if not is_intlike(o):
            return NotImplemented
        return mk_int(self.e | to_bv(o))
    __ror__ = __or__

    def __xor__(self, o):
        if not is_intlike(o):
            return NotImplemented
        return mk_int(self.e ^ to_bv(o))
    __rxor__ = __xor__

    def __invert__(self):
        return mk_int(~self.e)

    # ---- int methods used by the code base
    def bit_length(self):
        return BitLength(self)


class SFloat:
    """symbolic int times a concrete float/Decimal factor (x * factor); anything else is opaque.
    Only formatting and structural equality are modelled."""

    def __init__(self, x=None, factor=None):
        self.x = x
        self.factor = factor

    def __format__(self, spec):
        format(0.0, spec)
        return OPAQUE

    def __str__(self):
        return OPAQUE

    __repr__ = __str__

    def _arith(self, o):
        import decimal
        if isinstance(o, (int, float, SInt, SBool, SFloat, decimal.Decimal)):
            return SFloat()
        return NotImplemented
    __add__ = __radd__ = __sub__ = __rsub__ = __mul__ = __rmul__ = __truediv__ = __rtruediv__ = _arith

    def __neg__(self):
        return SFloat()

    def _cmp(self, o):
        raise Unsupported("comparison of an opaque float")
    __lt__ = __le__ = __gt__ = __ge__ = _cmp

    def __eq__(self, o):
        raise Unsupported("comparison of an opaque float")

    def __hash__(self):
        return id(self)

    def __bool__(self):
        raise Unsupported("truth value of an opaque float")

    def same_as(self, o):
        if not isinstance(o, SFloat):
            return False
        if self.x is None or o.x is None:
            raise Unsupported("equality of opaque floats")
        if type(self.factor) is not type(o.factor) or self.factor != o.factor:
            return False
        return self.x == o.x


class BitLength:
    """x.bit_length() kept lazy: only comparisons with an int are modelled.

    bit_length(x) > n  <=>  |x| >= 2**n  (n >= 0)."""
    __slots__ = ("x",)

    def __init__(self, x):
        self.x = x

    def _absx(self):
        e = self.x.e
        _side(e != _bvv(-(1 << (W - 1))), "bit_length")
        return SInt(z3.If(e < 0, -e, e))

    def __gt__(self, n):
        # |x| >> n != 0
        from .spec import ite
        a = self._absx()
        if isinstance(n, int):
            if n < 0:
                return True
            if n >= W - 1:
                return False
            return (a >> n) != 0
        n_nonneg = n >= 0
        return ite(n_nonneg, (a >> ite(n_nonneg, n, 0)) != 0, True)

    def __le__(self, n):
        from .spec import Not
        return Not(self.__gt__(n))

    def __ge__(self, n):
        return self.__gt__(n - 1)

    def __lt__(self, n):
        from .spec import Not
        return Not(self.__ge__(n))

    def __eq__(self, n):
        from .spec import And
        return And(self.__ge__(n), self.__le__(n))

    def __hash__(self):
        return id(self)
