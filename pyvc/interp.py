"""Symbolic AST interpreter over the real source files of the package under verification.

The text interpreted is re-read from the file that CPython compiled the live
function object from (inspect.getsourcefile + co_firstlineno); nothing is
copied or rewritten.  Dropped: docstrings, comments, annotations, and the
*effect* of logging calls (their arguments are still evaluated)."""
import ast
import builtins
import hashlib
import inspect
import operator
import os
import sys
import types
import enum

from . import sym
from .sym import SInt, SBool, Unsupported, is_sym, is_intlike, is_boollike, OPAQUE, BitLength
from .values import (AbstractValue, Choice, CtxGen, SObj, BoundMethod, SuperProxy, Closure, GenObj, CoroObj, SBytes, mk_bytes, SymSet,
                     class_of, contains_sym, set_interp, values_equal, next_serial)
from .path import RaiseEx, Infeasible, PathEnd
from .spec import And, Or, Not, ite, SpecRaise, AnyOf
from . import models


class ReturnEx(BaseException):
    def __init__(self, value):
        self.value = value


class BreakEx(BaseException):
    pass


class ContinueEx(BaseException):
    pass


class SkipStatement(BaseException):
    """inside an if-converted region whose condition is false on this path: the statement has no effect"""


class Env:
    __slots__ = ("locals", "parent", "func", "globals_", "owner", "cells", "self_arg", "exc_stack",
                 "qualname", "loop_ordinal", "fnode", "nonlocals")

    def __init__(self, locals_, parent, func, globals_, owner, cells, qualname):
        self.locals = locals_
        self.parent = parent
        self.func = func
        self.globals_ = globals_
        self.owner = owner          # class whose body lexically contains the function (name mangling, super())
        self.cells = cells
        self.self_arg = None
        self.exc_stack = []
        self.qualname = qualname
        self.loop_ordinal = 0
        self.fnode = None
        self.nonlocals = None       # names declared nonlocal in this activation


_MISSING = object()


def z3_is_undetermined(t):
    return isinstance(t, (SBool, SInt))

BINOPS = {
    ast.Add: operator.add, ast.Sub: operator.sub, ast.Mult: operator.mul,
    ast.FloorDiv: operator.floordiv, ast.Mod: operator.mod, ast.LShift: operator.lshift,
    ast.RShift: operator.rshift, ast.BitAnd: operator.and_, ast.BitOr: operator.or_,
    ast.BitXor: operator.xor, ast.Div: operator.truediv, ast.Pow: operator.pow,
    ast.MatMult: operator.matmul,
}
BIN_DUNDER = {
    ast.Add: "add", ast.Sub: "sub", ast.Mult: "mul", ast.FloorDiv: "floordiv", ast.Mod: "mod",
    ast.LShift: "lshift", ast.RShift: "rshift", ast.BitAnd: "and", ast.BitOr: "or",
    ast.BitXor: "xor", ast.Div: "truediv", ast.Pow: "pow",
}
CMPOPS = {
    ast.Lt: operator.lt, ast.LtE: operator.le, ast.Gt: operator.gt, ast.GtE: operator.ge,
}
LIST_MUTATORS = {"append", "extend", "insert", "pop", "remove", "clear", "sort", "reverse",
                 "__setitem__", "__delitem__", "__iadd__"}
DICT_MUTATORS = {"setdefault", "update", "pop", "popitem", "clear", "__setitem__", "__delitem__"}
SET_MUTATORS = {"add", "discard", "remove", "pop", "clear", "update", "difference_update",
                "intersection_update", "symmetric_difference_update"}


# value classes of the engine that stand for no Python object: a native TypeError naming one is a gap in the engine
ENGINE_TYPE_NAMES = ("'Choice'", "'AbstractValue'", "'AddrList'", "'SFloat'", "'CtxGen'")


class Interp:
    def __init__(self, root="/repo", package="dali"):
        self.root = os.path.realpath(root)
        self.package = package
        self.src = {}               # filename -> (tree, index)
        self.files = {}             # filename -> sha256
        self.contracts = {}         # key -> Contract, applied at call sites
        self.loop_specs = {}        # (key, ordinal) -> LoopSpec
        self.inlined = set()
        self.contracts_applied = set()
        self.interpreted = set()
        self.yield_handler = None
        self.await_handler = None
        self.fresh_ids = {}
        self.declared_mutable = {}
        self.depth = 0
        self.max_loop = 300
        self.specs_applied = False      # a loop specification of the unit has found its loop (on any path so far)
        self.loop_headers_seen = {}     # "function#ordinal" -> header shape of the loops that got a specification at home
        self.log_calls = 0
        self.local_class_models = {}
        self.local_function_models = {}
        self.world = None
        self.guards = []            # if-converted regions: (cond, first serial of the region, env)
        self.container_serial = {}
        set_interp(self)

    # ------------------------------------------------------------------ sources
    def is_repo_function(self, fn):
        mod = getattr(fn, "__module__", None) or ""
        return mod == self.package or mod.startswith(self.package + ".")

    def key_of(self, fn):
        return "%s:%s" % (fn.__module__, fn.__qualname__)

    def _load(self, filename):
        filename = os.path.realpath(filename)
        if filename in self.src:
            return self.src[filename]
        if not filename.startswith(self.root + os.sep):
            raise Unsupported("source file %s is not under %s" % (filename, self.root))
        data = open(filename, "rb").read()
        self.files[os.path.relpath(filename, self.root)] = hashlib.sha256(data).hexdigest()
        tree = ast.parse(data, filename)
        index = {}
        for node in ast.walk(tree):
            if isinstance(node, (ast.FunctionDef, ast.AsyncFunctionDef)):
                first = min([node.lineno] + [d.lineno for d in node.decorator_list])
                index[(node.name, first)] = node
                index[(node.name, node.lineno)] = node
            elif isinstance(node, ast.Lambda):
                index[("<lambda>", node.lineno)] = node
        self.src[filename] = (tree, index)
        return self.src[filename]

    def node_of(self, fn):
        code = fn.__code__
        tree, index = self._load(code.co_filename)
        node = index.get((code.co_name, code.co_firstlineno))
        if node is None:
            raise Unsupported("cannot locate source of %s at %s:%d"
                              % (fn.__qualname__, code.co_filename, code.co_firstlineno))
        return node

    # ------------------------------------------------------------------ helpers
    def fresh(self, container):
        self.fresh_ids[id(container)] = container
        self.container_serial[id(container)] = next_serial()
        return container

    # ------------------------------------------------------------------ guarded (if-converted) execution
    def guard(self):
        """conjunction of the conditions of the enclosing if-converted regions, or None"""
        if not self.guards:
            return None
        return And([g[0] for g in self.guards])

    def in_region(self, serial):
        return bool(self.guards) and serial >= self.guards[0][1]

    def merge_write(self, new, old, have_old=True):
        """value to store for a write of `new` over `old` inside an if-converted region;
        returns (do_write, value)"""
        g = self.guard()
        if g is None:
            return True, new
        if have_old and new is old:
            return False, old
        mergeable = have_old and ((isinstance(new, (bool, SBool)) and isinstance(old, (bool, SBool))) or
                                  (is_intlike(new) and is_intlike(old)
                                   and not isinstance(new, (bool, SBool)) and not isinstance(old, (bool, SBool))))
        if mergeable:
            return True, ite(g, new, old)
        # not expressible as a merged value: split on the region's condition here
        if self.test(g):
            return True, new
        return False, old

    MERGE_SET_METHODS = ("add", "discard")

    def mergeable_block(self, stmts):
        for s in stmts:
            if isinstance(s, ast.Pass):
                continue
            if isinstance(s, ast.Expr):
                v = s.value
                if isinstance(v, ast.Constant):
                    continue
                if isinstance(v, ast.Yield) and v.value is not None and not self.has_yield(v.value):
                    continue
                if isinstance(v, ast.Call) and isinstance(v.func, ast.Attribute) and isinstance(v.func.value, ast.Name) \
                        and v.func.attr in self.MERGE_SET_METHODS and len(v.args) == 1 and not v.keywords \
                        and not self.has_yield(v):
                    continue
                return False
            if isinstance(s, ast.Assign) and len(s.targets) == 1 and isinstance(s.targets[0], ast.Name) \
                    and not self.has_yield(s.value) and self.call_free(s.value):
                continue
            if isinstance(s, ast.AugAssign) and isinstance(s.target, ast.Name) and self.call_free(s.value):
                continue
            if isinstance(s, ast.If) and not self.has_yield(s.test) and self.call_free(s.test):
                if self.mergeable_block(s.body) and self.mergeable_block(s.orelse):
                    continue
            return False
        return True

    @staticmethod
    def has_yield(node):
        return any(isinstance(n, (ast.Yield, ast.YieldFrom, ast.Await)) for n in ast.walk(node))

    @staticmethod
    def call_free(node):
        return not any(isinstance(n, (ast.Call, ast.Yield, ast.YieldFrom, ast.Await, ast.NamedExpr))
                       for n in ast.walk(node))

    def exec_guarded(self, stmts, env, cond):
        """execute a mergeable block under `cond` without forking: its writes become ite-merges"""
        if not stmts:
            return
        self.guards.append((cond, next_serial(), env))
        try:
            for s in stmts:
                try:
                    self.exec_guarded_stmt(s, env)
                except RaiseEx:
                    # an exception inside the region happens exactly on the executions where the region runs
                    g = self.guard()
                    if self.test(g):
                        raise
                    return
        finally:
            self.guards.pop()

    def exec_guarded_stmt(self, s, env):
        if isinstance(s, ast.Expr) and isinstance(s.value, ast.Call) and isinstance(s.value.func, ast.Attribute) \
                and isinstance(s.value.func.value, ast.Name) and s.value.func.attr in self.MERGE_SET_METHODS:
            name = s.value.func.value.id
            recv = self.load_name(name, env)
            if isinstance(recv, (set, SymSet)):
                arg = self.ev(s.value.args[0], env)
                if isinstance(recv, set):
                    if not self.is_fresh_container(recv):
                        self.check_mutation(recv, "set." + s.value.func.attr)
                    recv = SymSet.of(recv)
                    # the name is rebound to the symbolic set (the real set object is no longer used)
                    e = env
                    while e is not None and name not in e.locals:
                        e = e.parent
                    if e is None:
                        raise Unsupported("conditional update of a non-local set")
                    e.locals[name] = recv
                if s.value.func.attr == "add":
                    recv.add_if(self.guard(), arg)
                else:
                    recv.discard_if(self.guard(), arg)
                return
        if isinstance(s, ast.If):
            t = self.truth(self.ev(s.test, env))
            if isinstance(t, bool):
                return self.exec_guarded_block_inline(s.body if t else s.orelse, env)
            self.exec_guarded(s.body, env, t)
            self.exec_guarded(s.orelse, env, Not(t))
            return
        return self.exec_stmt(s, env)

    def exec_guarded_block_inline(self, stmts, env):
        for s in stmts:
            self.exec_guarded_stmt(s, env)

    def is_fresh_container(self, c):
        return id(c) in self.fresh_ids or id(c) in self.declared_mutable

    def check_mutation(self, container, what):
        if self.guards and not self.in_region(self.container_serial.get(id(container), 0)):
            if not self.test(self.guard()):
                raise SkipStatement()
        if not self.is_fresh_container(container):
            c = sym.ctx()
            if c is not None:
                c.fail("frame/%s" % what,
                       detail="mutation (%s) of a pre-existing %s not listed as modifiable"
                       % (what, type(container).__name__))

    def py_raise(self, cls, *args):
        raise RaiseEx(SObj(cls, {"args": tuple(args)}))

    def native(self, f, *args, **kwargs):
        """run a native operation; Python exceptions become interpreted exceptions."""
        try:
            return f(*args, **kwargs)
        except RaiseEx:
            raise
        except SpecRaise:
            raise
        except Unsupported:
            raise
        except Exception as e:      # noqa: BLE001 - deliberate: map to the interpreted program
            if isinstance(e, (TypeError, AttributeError)) and any(w in str(e) for w in ENGINE_TYPE_NAMES):
                # a native operation met one of the engine's own value classes: a gap in the engine, not an exception of
                # the verified program
                raise Unsupported("native operation on an engine value (%s: %s)" % (type(e).__name__, e))
            raise RaiseEx(e)

    # ------------------------------------------------------------------ truthiness
    def truth(self, v):
        """truth value as bool or SBool (no forking here)."""
        if isinstance(v, (bool, SBool)):
            return v
        if isinstance(v, SInt):
            return v != 0
        if v is None:
            return False
        if isinstance(v, SObj):
            m = self.find_in_mro(v.cls, "__bool__")
            if m is not None and self.is_repo_function(m):
                return self.truth_of_bool_result(self.call(m, (v,), {}))
            m = self.find_in_mro(v.cls, "__len__")
            if m is not None and self.is_repo_function(m):
                n = self.call(m, (v,), {})
                return n != 0
            if issubclass(v.cls, BaseException):
                return True
            if m is not None:
                raise Unsupported("truth value via native __len__ of %s" % v.cls.__name__)
            return True
        if isinstance(v, SBytes):
            return len(v.items) != 0
        if isinstance(v, SymSet):
            return Or([c for _, c in v.elements()])
        if isinstance(v, AbstractValue):
            return v.py_truth(self)
        if isinstance(v, BitLength):
            return v > 0
        if isinstance(v, (GenObj, Closure, BoundMethod)):
            return True
        if isinstance(v, AnyOf):
            raise Unsupported("truth value of an unspecified value")
        if isinstance(v, str) and OPAQUE in v:
            if v.replace(OPAQUE, ""):
                return True         # formatted text with at least one literal character is non-empty
            raise Unsupported("truth value of opaque text")
        if hasattr(v, "__dict__") and self.is_repo_class(type(v)):
            m = self.find_in_mro(type(v), "__bool__") or self.find_in_mro(type(v), "__len__")
            if m is not None and self.is_repo_function(m):
                r = self.call(m, (v,), {})
                return r != 0 if not isinstance(r, (bool, SBool)) else r
        return self.native(bool, v)

    def truth_of_bool_result(self, r):
        if isinstance(r, (bool, SBool)):
            return r
        raise Unsupported("__bool__ returned non-bool")

    def test(self, v):
        """fork on the truth of v."""
        t = self.truth(v)
        if isinstance(t, bool):
            return t
        return bool(t)

    # ------------------------------------------------------------------ classes / attributes
    def is_repo_class(self, cls):
        mod = getattr(cls, "__module__", "") or ""
        return mod == self.package or mod.startswith(self.package + ".")

    def find_in_mro(self, cls, name):
        for k in cls.__mro__:
            if name in k.__dict__:
                return self._unwrap_static(k.__dict__[name])
        return None

    @staticmethod
    def _unwrap_static(a):
        if isinstance(a, (staticmethod, classmethod)):
            return a.__func__
        return a

    def raw_lookup(self, cls, name, start_after=None):
        mro = cls.__mro__
        if start_after is not None:
            mro = mro[mro.index(start_after) + 1:]
        for k in mro:
            if name in k.__dict__:
                return k.__dict__[name], k
        return _MISSING, None

    def instance_fields(self, obj):
        if isinstance(obj, SObj):
            return obj.fields
        d = getattr(obj, "__dict__", None)
        return d if isinstance(d, dict) else {}

    def get_attr(self, obj, name, spec=False):
        if isinstance(obj, SObj) or (hasattr(obj, "__dict__") and not isinstance(obj, (type, types.ModuleType, types.FunctionType))
                                     and self.is_repo_class(type(obj)) and not isinstance(obj, enum.Enum)):
            return self.get_attr_instance(obj, name, spec)
        if isinstance(obj, SuperProxy):
            inst = obj.obj
            cls = inst.cls if isinstance(inst, SObj) else (inst if isinstance(inst, type) else type(inst))
            a, where = self.raw_lookup(cls, name, start_after=obj.cls)
            if a is _MISSING:
                self.py_raise(AttributeError, name)
            return self.bind(a, inst, cls)
        if isinstance(obj, type) and self.is_repo_class(obj):
            a, where = self.raw_lookup(obj, name)
            if a is _MISSING:
                # metaclass attributes (e.g. Enum __members__, __name__)
                return self.native(getattr, obj, name)
            if isinstance(a, classmethod):
                return BoundMethod(a.__func__, obj)
            if isinstance(a, staticmethod):
                return a.__func__
            if isinstance(a, (types.FunctionType, property)):
                return a
            return self.native(getattr, obj, name)
        if isinstance(obj, GenObj):
            if name in ("send", "close", "throw", "__next__"):
                return BoundMethod(("gen", name), obj)
            self.py_raise(AttributeError, name)
        if isinstance(obj, SBytes):
            return models.sbytes_attr(self, obj, name)
        if isinstance(obj, models.AssocDict):
            return models.assoc_attr(self, obj, name)
        if isinstance(obj, SymSet):
            return models.symset_attr(self, obj, name)
        if isinstance(obj, AbstractValue):
            return obj.py_getattr(self, name)
        if isinstance(obj, models.SymList):
            if name == "append":
                return obj.append
            raise Unsupported("list.%s on a list of symbolic length" % name)
        if isinstance(obj, (SInt, SBool)):
            m = models.int_attr(self, obj, name)
            if m is not None:
                return m
            self.py_raise(AttributeError, name)
        if isinstance(obj, Closure):
            if name == "__name__":
                return obj.qualname
            self.py_raise(AttributeError, name)
        if isinstance(obj, AnyOf):
            raise Unsupported("attribute %s of an unspecified value" % name)
        return self.native(getattr, obj, name)

    def bind(self, a, inst, cls):
        if isinstance(a, types.FunctionType):
            if isinstance(inst, type):
                return a
            return BoundMethod(a, inst)
        if isinstance(a, classmethod):
            return BoundMethod(a.__func__, cls)
        if isinstance(a, staticmethod):
            return a.__func__
        if isinstance(a, property):
            if a.fget is None:
                self.py_raise(AttributeError, "unreadable property")
            return self.call(a.fget, (inst,), {})
        if hasattr(type(a), "__get__") and not isinstance(a, type):
            # other descriptors (builtin methods of object, slots...)
            if isinstance(inst, SObj):
                if isinstance(a, (types.WrapperDescriptorType, types.MethodDescriptorType,
                                  types.BuiltinFunctionType, types.ClassMethodDescriptorType)):
                    return BoundMethod(("native-desc", a), inst)
                raise Unsupported("descriptor %r on symbolic object" % (a,))
            return self.native(a.__get__, inst, cls)
        return a

    def get_attr_instance(self, obj, name, spec=False):
        cls = obj.cls if isinstance(obj, SObj) else type(obj)
        if name == "__class__":
            return cls
        if name == "__dict__":
            return self.instance_fields(obj)
        a, where = self.raw_lookup(cls, name)
        if a is not _MISSING and isinstance(a, property):
            return self.bind(a, obj, cls)
        fields = self.instance_fields(obj)
        if name in fields:
            return fields[name]
        if isinstance(obj, SObj) and issubclass(cls, BaseException) and name == "args":
            return fields.get("args", ())
        if a is not _MISSING:
            return self.bind(a, obj, cls)
        ga, _ = self.raw_lookup(cls, "__getattr__")
        if ga is not _MISSING and isinstance(ga, types.FunctionType):
            return self.call(ga, (obj, name), {})
        if not isinstance(obj, SObj):
            return self.native(getattr, obj, name)
        if spec and name.startswith("_") and not name.startswith("__") and self.is_repo_class(cls):
            # specification code reads a private attribute that the object does not have: the contract was written over
            # another representation of the class (a renamed or restructured private field) - nothing can be concluded
            raise Unsupported("the specification reads %s.%s, which the object does not have (the contract is written "
                              "over another representation of the class)" % (cls.__name__, name))
        self.py_raise(AttributeError, "'%s' object has no attribute '%s'" % (cls.__name__, name))

    def has_attr(self, obj, name):
        try:
            self.get_attr(obj, name)
            return True
        except RaiseEx as e:
            if issubclass(e.cls, AttributeError):
                return False
            raise

    def set_attr(self, obj, name, value):
        if isinstance(obj, SObj):
            if name in SObj.__slots__:
                raise Unsupported("attribute name %s clashes with an engine slot" % name)
            a, where = self.raw_lookup(obj.cls, name)
            if a is not _MISSING and isinstance(a, property):
                if a.fset is None:
                    self.py_raise(AttributeError, "can't set attribute %s" % name)
                self.call(a.fset, (obj, value), {})
                return
            sa, _ = self.raw_lookup(obj.cls, "__setattr__")
            if sa is not _MISSING and isinstance(sa, types.FunctionType):
                self.call(sa, (obj, name, value), {})
                return
            if not obj.fresh:
                c = sym.ctx()
                if c is not None:
                    c.writes.append((obj, name))
            if self.guards and not self.in_region(obj.birth):
                do, value = self.merge_write(value, obj.fields.get(name), name in obj.fields)
                if not do:
                    return
            obj.fields[name] = value
            return
        c = sym.ctx()
        if c is not None and not getattr(c, "native", False):
            c.fail("frame/store:%s.%s" % (type(obj).__name__ if not isinstance(obj, type) else obj.__name__, name),
                   detail="store to attribute %s of a pre-existing real object %r" % (name, obj))
            return
        self.native(setattr, obj, name, value)

    # ------------------------------------------------------------------ dunder dispatch
    def call_dunder(self, obj, name, *args):
        cls = obj.cls if isinstance(obj, SObj) else type(obj)
        m = self.find_in_mro(cls, name)
        if m is None or not isinstance(m, types.FunctionType):
            if name == "__getitem__" or name == "__setitem__":
                self.py_raise(TypeError, "'%s' object is not subscriptable" % cls.__name__)
            if name == "__contains__":
                self.py_raise(TypeError, "argument of type '%s' is not iterable" % cls.__name__)
            return NotImplemented
        return self.call(m, (obj,) + args, {})

    def binop_eq(self, a, b):
        """a == b following Python's protocol when an SObj (or repo instance) is involved."""
        for x, y in ((a, b), (b, a)):
            cls = class_of(x)
            if isinstance(x, SObj) or self.is_repo_class(cls):
                m = self.find_in_mro(cls, "__eq__")
                if isinstance(m, types.FunctionType):
                    r = self.call(m, (x, y), {})
                    if r is not NotImplemented:
                        return r
        if isinstance(a, SObj) or isinstance(b, SObj):
            return a is b
        return self.native(operator.eq, a, b)

    def py_str(self, v):
        """str(v): returns a Python str (possibly opaque); raises what __str__ raises."""
        if isinstance(v, SObj):
            m = self.find_in_mro(v.cls, "__str__")
            if isinstance(m, types.FunctionType):
                r = self.call(m, (v,), {})
                if isinstance(r, AnyOf):
                    return OPAQUE
                if not isinstance(r, str):
                    self.py_raise(TypeError, "__str__ returned non-string")
                return r
            if issubclass(v.cls, BaseException):
                args = v.fields.get("args", ())
                if len(args) == 0:
                    return ""
                if len(args) == 1:
                    return self.py_str(args[0])
                return OPAQUE
            m = self.find_in_mro(v.cls, "__repr__")
            if isinstance(m, types.FunctionType):
                return self.call(m, (v,), {})
            return OPAQUE
        if is_sym(v) or isinstance(v, (SBytes, BitLength)):
            return OPAQUE
        if isinstance(v, AnyOf):
            return OPAQUE
        if isinstance(v, (list, tuple, dict, set)) and contains_sym(v):
            for x in (v.values() if isinstance(v, dict) else v):
                if isinstance(x, SObj):
                    self.py_repr(x)
            return OPAQUE
        return self.native(str, v)

    def py_repr(self, v):
        if isinstance(v, SObj):
            m = self.find_in_mro(v.cls, "__repr__")
            if isinstance(m, types.FunctionType):
                return self.call(m, (v,), {})
            return OPAQUE
        if contains_sym(v):
            return OPAQUE
        return self.native(repr, v)

    # ------------------------------------------------------------------ calls
    def call(self, f, args, kwargs):
        args = tuple(args)
        if isinstance(f, BoundMethod):
            if isinstance(f.func, tuple):
                return self.call_special_bound(f, args, kwargs)
            return self.call(f.func, (f.self_,) + args, kwargs)
        if isinstance(f, types.MethodType):
            return self.call(f.__func__, (f.__self__,) + args, kwargs)
        if isinstance(f, Closure):
            return self.call_closure(f, args, kwargs)
        if self.local_function_models:
            try:
                lm = self.local_function_models.get(f)
            except TypeError:
                lm = None
            if lm is not None:
                return lm(self, *args, **kwargs)
        if isinstance(f, types.FunctionType):
            if self.is_repo_function(f):
                return self.call_repo_function(f, args, kwargs)
            m = models.FUNCTION_MODELS.get(f)
            if m is not None:
                return m(self, *args, **kwargs)
            if (f.__module__ or "").split(".")[0] in ("pyvc", "checks", "contracts", "specs"):
                return f(*args, **kwargs)       # engine / harness provided model (already bound)
            if not contains_sym(args) and not contains_sym(kwargs):
                return self.native(f, *args, **kwargs)
            if args and isinstance(args[0], tuple) and hasattr(args[0], "_fields") and f.__name__ in ("_asdict", "_replace"):
                # NamedTuple helpers only move the field values around: safe on symbolic fields
                r = self.native(f, *args, **kwargs)
                return self.fresh(r) if isinstance(r, dict) else r
            raise Unsupported("call of external function %s.%s with symbolic arguments"
                              % (f.__module__, f.__qualname__))
        if type(f).__name__ == "_lru_cache_wrapper" and isinstance(getattr(f, "__wrapped__", None), types.FunctionType) \
                and self.is_repo_function(f.__wrapped__):
            # functools.lru_cache / cache on a repository function: the call is the call of the wrapped function as long
            # as its result cannot be told apart from a fresh one (a shared mutable result would alias between calls)
            r = self.call(f.__wrapped__, args, kwargs)
            if isinstance(r, (list, dict, set, bytearray, SObj, SymSet)) or (isinstance(r, tuple) and any(
                    isinstance(x, (list, dict, set, bytearray, SObj, SymSet)) for x in r)):
                raise Unsupported("lru_cache on %s, which returns a mutable object (aliasing between calls is not modelled)"
                                  % f.__wrapped__.__qualname__)
            return r
        if isinstance(f, type):
            return self.call_class(f, args, kwargs)
        m = models.lookup_builtin(f)
        if m is not None:
            return m(self, *args, **kwargs)
        if isinstance(f, (types.BuiltinFunctionType, types.BuiltinMethodType, types.MethodWrapperType,
                          types.MethodDescriptorType, types.WrapperDescriptorType)):
            return self.call_builtin_method(f, args, kwargs)
        if isinstance(f, SObj):
            m = self.find_in_mro(f.cls, "__call__")
            if isinstance(m, types.FunctionType):
                return self.call(m, (f,) + args, kwargs)
            self.py_raise(TypeError, "'%s' object is not callable" % f.cls.__name__)
        if f is None or isinstance(f, (int, str, SInt, SBool, tuple, list, dict)):
            self.py_raise(TypeError, "'%s' object is not callable" % class_of(f).__name__)
        if callable(f) and not contains_sym(args) and not contains_sym(kwargs):
            return self.native(f, *args, **kwargs)
        raise Unsupported("call of %r" % (f,))

    def call_builtin_method(self, f, args, kwargs):
        recv = getattr(f, "__self__", None)
        name = getattr(f, "__name__", "")
        if recv is not None and not isinstance(recv, (type, types.ModuleType)):
            m = models.METHOD_MODELS.get((type(recv), name))
            if m is not None:
                return m(self, recv, *args, **kwargs)
            if isinstance(recv, list) and name in LIST_MUTATORS:
                self.check_mutation(recv, "list." + name)
            elif isinstance(recv, dict) and name in DICT_MUTATORS:
                self.check_mutation(recv, "dict." + name)
            elif isinstance(recv, (set, bytearray)) and name in SET_MUTATORS | LIST_MUTATORS:
                self.check_mutation(recv, type(recv).__name__ + "." + name)
        r = self.native(f, *args, **kwargs)
        if isinstance(r, (list, dict, set, bytearray)):
            self.fresh(r)
        return r

    def call_special_bound(self, f, args, kwargs):
        kind = f.func[0]
        if kind == "gen":
            return self.gen_method(f.self_, f.func[1], args)
        if kind == "native-desc":
            d = f.func[1]
            nm = getattr(d, "__name__", "")
            if nm == "__init__":
                return None
            if nm == "__eq__":
                return f.self_ is args[0]
            if nm == "__ne__":
                return f.self_ is not args[0]
            if nm == "__hash__":
                return id(f.self_)
            if nm in ("__str__", "__repr__"):
                return OPAQUE
            if nm == "__setattr__":
                o = f.self_
                if not o.fresh and sym.ctx() is not None:
                    sym.ctx().writes.append((o, args[0]))
                o.fields[args[0]] = args[1]
                return None
            if nm == "with_traceback":
                return f.self_
            raise Unsupported("native method %s on symbolic object" % nm)
        raise Unsupported("special bound %r" % (f.func,))

    def bind_args(self, node_args, defaults, kwdefaults, args, kwargs, fname):
        """Python's argument binding for an ast.arguments."""
        a = node_args
        pos = [x.arg for x in a.posonlyargs] + [x.arg for x in a.args]
        loc = {}
        args = list(args)
        kwargs = dict(kwargs)
        n = len(pos)
        if len(args) > n and a.vararg is None:
            self.py_raise(TypeError, "%s() takes %d positional arguments but %d were given"
                          % (fname, n, len(args)))
        for i, name in enumerate(pos):
            if i < len(args):
                loc[name] = args[i]
        if a.vararg is not None:
            loc[a.vararg.arg] = tuple(args[n:])
        nposonly = len(a.posonlyargs)
        for i, name in enumerate(pos):
            if name in kwargs and i >= nposonly:
                if name in loc:
                    self.py_raise(TypeError, "%s() got multiple values for argument '%s'" % (fname, name))
                loc[name] = kwargs.pop(name)
        d = list(defaults or ())
        for i, name in enumerate(pos):
            if name not in loc:
                j = i - (n - len(d))
                if j >= 0:
                    loc[name] = d[j]
                else:
                    self.py_raise(TypeError, "%s() missing required positional argument: '%s'" % (fname, name))
        for x in a.kwonlyargs:
            if x.arg in kwargs:
                loc[x.arg] = kwargs.pop(x.arg)
            elif kwdefaults and x.arg in kwdefaults:
                loc[x.arg] = kwdefaults[x.arg]
            else:
                self.py_raise(TypeError, "%s() missing required keyword-only argument: '%s'" % (fname, x.arg))
        if a.kwarg is not None:
            loc[a.kwarg.arg] = self.fresh(kwargs)
        elif kwargs:
            self.py_raise(TypeError, "%s() got an unexpected keyword argument '%s'"
                          % (fname, next(iter(kwargs))))
        return loc

    def owner_of(self, fn):
        """the class whose body lexically contains fn (for name mangling and zero-arg super)."""
        if fn.__closure__ and "__class__" in fn.__code__.co_freevars:
            i = fn.__code__.co_freevars.index("__class__")
            try:
                return fn.__closure__[i].cell_contents
            except ValueError:
                pass
        parts = fn.__qualname__.split(".")
        if len(parts) >= 2 and parts[-2] != "<locals>":
            obj = sys.modules.get(fn.__module__)
            try:
                for p in parts[:-1]:
                    obj = getattr(obj, p)
                if isinstance(obj, type):
                    return obj
            except AttributeError:
                return None
        return None

    def is_generator_node(self, node):
        cached = getattr(node, "_is_gen", None)
        if cached is not None:
            return cached
        r = False
        stack = list(node.body) if isinstance(node.body, list) else [node.body]      # a lambda's body is one expression
        while stack:
            n = stack.pop()
            if isinstance(n, (ast.Yield, ast.YieldFrom)):
                r = True
                break
            if isinstance(n, (ast.FunctionDef, ast.AsyncFunctionDef, ast.Lambda, ast.ClassDef)):
                continue
            stack.extend(ast.iter_child_nodes(n))
        node._is_gen = r
        return r

    def call_repo_function(self, fn, args, kwargs, force_body=False):
        w = getattr(fn, "__wrapped__", None)
        if w is not None and fn.__code__.co_name == "helper" and fn.__code__.co_filename.endswith("contextlib.py"):
            # @contextlib.contextmanager / @contextlib.asynccontextmanager on a repository generator function
            return CtxGen(w, tuple(args), dict(kwargs))
        key = self.key_of(fn)
        node = self.node_of(fn)
        if self.is_generator_node(node) and not force_body:
            return GenObj(fn, args, kwargs)     # (a contract, if any, is applied when the generator is run)
        if isinstance(node, ast.AsyncFunctionDef) and not force_body:
            return CoroObj(fn, args, kwargs)    # (a contract, if any, is applied when the coroutine is awaited)
        if not force_body:
            c = self.contracts.get(key)
            if c is not None:
                return self.apply_contract(key, c, args, kwargs)
        if isinstance(node, ast.AsyncFunctionDef) and not force_body:
            return CoroObj(fn, args, kwargs)
        return self.run_function(fn, node, args, kwargs)

    def run_function(self, fn, node, args, kwargs):
        key = self.key_of(fn)
        self.interpreted.add(key)
        loc = self.bind_args(node.args, fn.__defaults__, fn.__kwdefaults__, args, kwargs, fn.__name__)
        cells = {}
        if fn.__closure__:
            for nm, cell in zip(fn.__code__.co_freevars, fn.__closure__):
                try:
                    cells[nm] = cell.cell_contents
                except ValueError:
                    pass
        env = Env(loc, None, fn, fn.__globals__, self.owner_of(fn), cells, key)
        env.fnode = node
        if args:
            env.self_arg = args[0]
        elif node.args.args and node.args.args[0].arg in loc:
            env.self_arg = loc[node.args.args[0].arg]
        return self.run_body(node, env)

    def run_body(self, node, env):
        self.depth += 1
        if self.depth > 60:
            self.depth -= 1
            raise Unsupported("call depth exceeds 60 (recursion without a contract?)")
        try:
            if isinstance(node, ast.Lambda):
                return self.ev(node.body, env)
            self.exec_block(node.body, env)
            return None
        except ReturnEx as r:
            return r.value
        finally:
            self.depth -= 1

    def call_closure(self, c, args, kwargs):
        node = c.node
        loc = self.bind_args(node.args, c.defaults, c.kwdefaults, args, kwargs, c.qualname)
        env = Env(loc, c.env, c.env.func, c.globals_, c.owner, c.env.cells, c.qualname)
        env.self_arg = c.env.self_arg
        if not isinstance(node, ast.Lambda) and self.is_generator_node(node):
            return GenObj(c, args, kwargs)      # run in line where it is consumed (yield from)
        if isinstance(node, ast.AsyncFunctionDef) and not getattr(self, "_awaiting_closure", False):
            return CoroObj(c, args, kwargs)     # run when awaited
        return self.run_body(node, env)

    def call_class(self, cls, args, kwargs):
        lm = self.local_class_models.get(cls) if self.local_class_models else None
        if lm is not None:
            return lm(self, *args, **kwargs)
        m = models.CLASS_MODELS.get(cls)
        if m is not None:
            return m(self, *args, **kwargs)
        if issubclass(cls, enum.Enum):
            return models.enum_call(self, cls, *args, **kwargs)
        if self.is_repo_class(cls):
            return self.instantiate(cls, args, kwargs)
        if issubclass(cls, BaseException):
            if "__init__" in cls.__dict__ or contains_sym(args):
                return SObj(cls, {"args": tuple(args)})
            return SObj(cls, {"args": tuple(args)})
        if not contains_sym(args) and not contains_sym(kwargs):
            r = self.native(cls, *args, **kwargs)
            if isinstance(r, (list, dict, set, bytearray)):
                self.fresh(r)
            return r
        raise Unsupported("instantiation of external class %s with symbolic arguments" % cls.__name__)

    def instantiate(self, cls, args, kwargs):
        if issubclass(cls, tuple) and hasattr(cls, "_fields"):
            return self.native(cls, *args, **kwargs)        # NamedTuple: native tuple holding values
        new, where = self.raw_lookup(cls, "__new__")
        if isinstance(new, staticmethod) and isinstance(new.__func__, types.FunctionType) \
                and self.is_repo_function(new.__func__):
            raise Unsupported("custom __new__ in %s" % cls.__name__)
        obj = SObj(cls, {})
        if issubclass(cls, BaseException):
            obj.fields["args"] = tuple(args)
        init, where = self.raw_lookup(cls, "__init__")
        if isinstance(init, types.FunctionType):
            self.call(init, (obj,) + tuple(args), kwargs)
        elif where is object or where is None:
            if (args or kwargs) and (new is _MISSING or where is object) and \
                    self.raw_lookup(cls, "__new__")[1] is object:
                self.py_raise(TypeError, "%s() takes no arguments" % cls.__name__)
        return obj

    # ------------------------------------------------------------------ contracts at call sites
    def apply_contract(self, key, c, args, kwargs):
        ctx = sym.ctx()
        self.contracts_applied.add(key)
        if ctx is None:
            return c.spec(*args, **kwargs)
        old_mode, old_label = ctx.require_mode, ctx.prefix_label
        ctx.require_mode = "prove"
        ctx.prefix_label = "pre@%s/" % key
        try:
            if c.requires is not None:
                ctx.require(c.requires(*args, **kwargs), "requires")
            r = c.spec(*args, **kwargs)
            if key.endswith(".__init__") and args and isinstance(args[0], SObj):
                # a constructor contract fixes the abstract view; the remaining (private) fields are whatever the
                # class's real constructor derives from that view
                from .values import canonical, canon_entry
                ent = canon_entry(args[0].cls)
                if ent is not None and all(f in args[0].fields for f in ent[1]):
                    twin = canonical(SObj(args[0].cls, {f: args[0].fields[f] for f in ent[1]}))
                    for k, v in twin.fields.items():
                        if k not in args[0].fields:
                            args[0].fields[k] = v
            return r
        except SpecRaise as s:
            classes = s.classes
            for k in classes[:-1]:
                if ctx.fork(ctx.fresh_bool("pick").e):
                    self.py_raise(k)
            self.py_raise(classes[-1])
        finally:
            ctx.require_mode, ctx.prefix_label = old_mode, old_label

    # ------------------------------------------------------------------ generators
    def run_generator_inline(self, g):
        """yield from <generator object>: run its body in the current yield environment."""
        if g.started:
            raise Unsupported("generator object resumed twice")
        g.started = True
        if isinstance(g.func, Closure):
            node = g.func.node
            loc = self.bind_args(node.args, g.func.defaults, g.func.kwdefaults, g.args, g.kwargs, g.func.qualname)
            env = Env(loc, g.func.env, g.func.env.func, g.func.globals_, g.func.owner, g.func.env.cells, g.func.qualname)
            env.self_arg = g.func.env.self_arg
            return self.run_body(node, env)
        key = self.key_of(g.func)
        c = self.contracts.get(key)
        if c is not None:
            # a sequence under contract: its yields are summarised by the contract's effect on the unit model
            return self.apply_contract(key, c, g.args, g.kwargs)
        return self.call_repo_function(g.func, g.args, g.kwargs, force_body=True)

    def gen_method(self, g, name, args):
        raise Unsupported("generator method %s on a generator object (needs coroutine semantics)" % name)

    # ------------------------------------------------------------------ statements
    def exec_block(self, stmts, env):
        for s in stmts:
            self.exec_stmt(s, env)

    def exec_stmt(self, s, env):
        m = getattr(self, "s_" + s.__class__.__name__, None)
        if m is None:
            raise Unsupported("statement %s at %s:%d" % (s.__class__.__name__, env.qualname, s.lineno))
        sym.STEP += 1
        sym.WHERE = s.lineno
        try:
            return m(s, env)
        except SkipStatement:
            return None
        except RaiseEx as e:
            if e.where is None:
                e.where = "%s:%d" % (env.qualname, s.lineno)
            raise

    def s_Expr(self, s, env):
        if isinstance(s.value, ast.Constant):
            return
        self.ev(s.value, env)

    def s_Pass(self, s, env):
        pass

    def s_Return(self, s, env):
        raise ReturnEx(self.ev(s.value, env) if s.value is not None else None)

    def s_Break(self, s, env):
        raise BreakEx()

    def s_Continue(self, s, env):
        raise ContinueEx()

    def s_Assign(self, s, env):
        v = self.ev(s.value, env)
        for t in s.targets:
            self.assign(t, v, env)

    def s_AnnAssign(self, s, env):
        if s.value is not None:
            self.assign(s.target, self.ev(s.value, env), env)

    def s_AugAssign(self, s, env):
        t = s.target
        if isinstance(t, ast.Name):
            cur = self.load_name(t.id, env)
            self.store_name(t.id, self.binop(type(s.op), cur, self.ev(s.value, env), inplace=True), env)
        elif isinstance(t, ast.Attribute):
            o = self.ev(t.value, env)
            nm = self.mangle(t.attr, env)
            cur = self.get_attr(o, nm)
            self.set_attr(o, nm, self.binop(type(s.op), cur, self.ev(s.value, env), inplace=True))
        elif isinstance(t, ast.Subscript):
            o = self.ev(t.value, env)
            k = self.ev_slice(t.slice, env)
            cur = self.subscript(o, k)
            self.store_subscript(o, k, self.binop(type(s.op), cur, self.ev(s.value, env), inplace=True))
        else:
            raise Unsupported("augmented assignment target")

    def s_If(self, s, env):
        t = self.truth(self.ev(s.test, env))
        if not isinstance(t, bool):
            ok = getattr(s, "_mergeable", None)
            if ok is None:
                ok = s._mergeable = self.mergeable_block(s.body) and self.mergeable_block(s.orelse)
            if ok and sym.ctx() is not None and z3_is_undetermined(t):
                self.exec_guarded(s.body, env, t)
                self.exec_guarded(s.orelse, env, Not(t))
                return
        if self.test(t):
            self.exec_block(s.body, env)
        else:
            self.exec_block(s.orelse, env)

    def s_Assert(self, s, env):
        if not self.test(self.ev(s.test, env)):
            if s.msg is not None:
                self.py_raise(AssertionError, self.ev(s.msg, env))
            self.py_raise(AssertionError)

    def s_Raise(self, s, env):
        if s.exc is None:
            if env.exc_stack:
                raise RaiseEx(env.exc_stack[-1])
            self.py_raise(RuntimeError, "No active exception to reraise")
        v = self.ev(s.exc, env)
        if s.cause is not None:
            self.ev(s.cause, env)
        if isinstance(v, type):
            if not issubclass(v, BaseException):
                self.py_raise(TypeError, "exceptions must derive from BaseException")
            v = self.call_class(v, (), {})
        elif isinstance(v, SObj):
            if not issubclass(v.cls, BaseException):
                self.py_raise(TypeError, "exceptions must derive from BaseException")
        elif not isinstance(v, BaseException):
            self.py_raise(TypeError, "exceptions must derive from BaseException")
        raise RaiseEx(v, "%s:%d" % (env.qualname, s.lineno))

    def s_Delete(self, s, env):
        for t in s.targets:
            if isinstance(t, ast.Name):
                if t.id in env.locals:
                    del env.locals[t.id]
                else:
                    self.py_raise(NameError, t.id)
            elif isinstance(t, ast.Subscript):
                o = self.ev(t.value, env)
                k = self.ev_slice(t.slice, env)
                models.del_item(self, o, k)
            elif isinstance(t, ast.Attribute):
                o = self.ev(t.value, env)
                nm = self.mangle(t.attr, env)
                if isinstance(o, SObj):
                    if nm not in o.fields:
                        self.py_raise(AttributeError, nm)
                    if not o.fresh and sym.ctx() is not None:
                        sym.ctx().writes.append((o, nm))
                    del o.fields[nm]
                else:
                    raise Unsupported("del attribute of real object")
            else:
                raise Unsupported("del target")

    def s_Global(self, s, env):
        raise Unsupported("global statement")

    def s_Nonlocal(self, s, env):
        for name in s.names:
            e = env.parent
            while e is not None and name not in e.locals:
                e = e.parent
            if e is None:
                raise Unsupported("nonlocal %s: the binding lives in a cell of a real function" % name)
        if env.nonlocals is None:
            env.nonlocals = set()
        env.nonlocals.update(s.names)

    def s_Import(self, s, env):
        import importlib
        for a in s.names:
            m = importlib.import_module(a.name)
            if a.asname:
                env.locals[a.asname] = m
            else:
                env.locals[a.name.split(".")[0]] = importlib.import_module(a.name.split(".")[0])

    def s_ImportFrom(self, s, env):
        import importlib
        if s.level:
            pkg = env.globals_.get("__package__")
            m = importlib.import_module("." * s.level + (s.module or ""), pkg)
        else:
            m = importlib.import_module(s.module)
        for a in s.names:
            env.locals[a.asname or a.name] = getattr(m, a.name)

    def s_FunctionDef(self, s, env):
        defaults = [self.ev(d, env) for d in s.args.defaults]
        kwd = {a.arg: self.ev(d, env) for a, d in zip(s.args.kwonlyargs, s.args.kw_defaults) if d is not None}
        if s.decorator_list:
            raise Unsupported("decorated nested function")
        env.locals[s.name] = Closure(s, env, env.globals_, env.owner, defaults, kwd,
                                     env.qualname + ".<locals>." + s.name)

    s_AsyncFunctionDef = s_FunctionDef

    def s_While(self, s, env):
        spec = self.loop_spec_for(env, s)
        if spec is not None:
            return self.exec_loop_with_spec(s, env, spec)
        n = 0
        while True:
            if not self.test(self.ev(s.test, env)):
                self.exec_block(s.orelse, env)
                return
            n += 1
            if n > self.max_loop:
                raise Unsupported("loop at %s:%d exceeds %d iterations without an invariant"
                                  % (env.qualname, s.lineno, self.max_loop))
            if n > 48 and self.loop_specs and not self.specs_applied:
                # the unit brings loop specifications, none has found its loop, and a loop is being unrolled at length:
                # the loop the specification was written for is no longer recognisable (moved behind a local helper,
                # say).  Unrolling it against an unbounded environment would only exhaust the budget
                from .sym import UnsupportedUnit
                raise UnsupportedUnit("none of the unit's loop specifications (%s) found its loop, and the loop at %s:%d "
                                      "is being unrolled beyond 48 iterations"
                                      % (", ".join(sorted(v.name for v in self.loop_specs.values())), env.qualname, s.lineno))
            try:
                self.exec_block(s.body, env)
            except BreakEx:
                return
            except ContinueEx:
                continue

    @staticmethod
    def _loop_index_of(fnode):
        idx = getattr(fnode, "_loop_index", None)
        if idx is None:
            idx = {}
            n = 0
            stack = list(reversed(fnode.body)) if isinstance(fnode.body, list) else []
            while stack:
                x = stack.pop()
                if isinstance(x, (ast.FunctionDef, ast.AsyncFunctionDef, ast.Lambda, ast.ClassDef)):
                    continue
                if isinstance(x, (ast.For, ast.While, ast.AsyncFor)):
                    idx[id(x)] = n
                    x._loop_parent = None
                    n += 1
                stack.extend(reversed(list(ast.iter_child_nodes(x))))
            fnode._loop_index = idx
            fnode._loops = {}
            for x in ast.walk(fnode):
                if id(x) in idx:
                    fnode._loops[idx[id(x)]] = x
        return idx

    @staticmethod
    def _names_in(node):
        seen = set()
        for x in ast.walk(node):
            if isinstance(x, ast.Name):
                seen.add(x.id)
            elif isinstance(x, ast.Attribute):
                seen.add(x.attr)
        return seen

    def _mentions(self, stmt, names, fnode=None, env=None):
        """does the statement mention all the names - directly, or through a function it calls by name: one defined
        locally in `fnode`, a function of the same module, a method of the same class (two levels deep)?  This is how a
        loop whose body was partly moved into a helper is still recognised."""
        seen = getattr(stmt, "_mentioned", None)
        if seen is None or (env is not None and not getattr(stmt, "_mentioned_deep", False)):
            seen = set(self._names_in(stmt))
            if fnode is not None:
                local_defs = {x.name: x for x in ast.walk(fnode)
                              if isinstance(x, (ast.FunctionDef, ast.AsyncFunctionDef)) and x is not fnode}
                frontier = set(seen)
                for _depth in range(2):
                    new = set()
                    for nm in frontier:
                        d = local_defs.get(nm)
                        node = None
                        if d is not None:
                            if not any(y is stmt for y in ast.walk(d)):
                                node = d
                        elif env is not None:
                            f = env.globals_.get(nm) if isinstance(env.globals_, dict) else None
                            if not isinstance(f, types.FunctionType) and env.owner is not None:
                                f = self.find_in_mro(env.owner, nm)
                                f = getattr(f, "__func__", f)
                            if isinstance(f, types.FunctionType) and self.is_repo_function(f):
                                try:
                                    node = self.node_of(getattr(f, "__wrapped__", f))
                                except Unsupported:
                                    node = None
                        if node is not None and node is not fnode:
                            more = self._names_in(node) - seen
                            seen |= more
                            new |= more
                    frontier = new
                stmt._mentioned = seen
                if env is not None:
                    stmt._mentioned_deep = True
        return all(n in seen for n in names)

    def _spec_home_intact(self, key, spec):
        """does the function the specification was written against still hold, at that ordinal, a loop that mentions
        the specification's anchor names?"""
        cache = self.__dict__.setdefault("_home_intact", {})
        if key in cache:
            return cache[key]
        ok = False
        try:
            modname, qual = key[0].split(":")
            obj = sys.modules.get(modname)
            for part in qual.split("."):
                obj = obj.__dict__[part] if isinstance(obj, type) else getattr(obj, part)
            obj = getattr(obj, "__func__", obj)
            fnode = self.node_of(obj)
            self._loop_index_of(fnode)
            loop = fnode._loops.get(key[1])
            ok = loop is not None and self._mentions(loop, spec.anchor, fnode)
        except Exception:       # noqa: BLE001
            ok = False
        cache[key] = ok
        return ok

    @staticmethod
    def header_fp(stmt):
        """shape of a loop's header with every identifier erased: `for _ in _(0, 64)`, `while not _`, `while True`"""
        import copy

        def norm(n):
            n = copy.deepcopy(n)
            for x in ast.walk(n):
                if isinstance(x, ast.Name):
                    x.id = "_"
            return ast.unparse(n)
        if isinstance(stmt, (ast.For, ast.AsyncFor)):
            return "for %s in %s" % (norm(stmt.target), norm(stmt.iter))
        return "while %s" % norm(stmt.test)

    PINNED_HEADERS = None

    @classmethod
    def pinned_headers(cls):
        if cls.PINNED_HEADERS is None:
            import json
            p = os.path.join(os.path.dirname(os.path.dirname(os.path.abspath(__file__))), "loop_headers.lock.json")
            try:
                cls.PINNED_HEADERS = json.load(open(p))
            except (OSError, ValueError):
                cls.PINNED_HEADERS = {}
        return cls.PINNED_HEADERS

    def loop_spec_for(self, env, stmt=None):
        """sidecar loop specification keyed by (function key, ordinal of the loop in source order).  A specification
        may also name anchors (identifiers the loop's text mentions): when the loop has been moved out of the function
        it was written against (extracted into a helper, say), the innermost loop mentioning all anchors in whatever
        function is being executed gets the specification instead.  A specification that then does not fit makes the
        unit undecided (loops.LoopSpec.execute), never a violation."""
        if not self.loop_specs or env.fnode is None or stmt is None:
            return None
        idx = self._loop_index_of(env.fnode)
        spec = self.loop_specs.get((env.qualname, idx.get(id(stmt))))
        if spec is not None and (not getattr(spec, "anchor", None) or self._mentions(stmt, spec.anchor, env.fnode, env)):
            # at home.  The header the specification was written against is pinned (loop_headers.lock.json); over a
            # loop with another header (another iteration domain, another exit condition) the specification is as
            # suspect as one that was moved: it has to be proved there before a failure is believed
            hk = "%s#%s" % (env.qualname, idx.get(id(stmt)))
            fp = self.header_fp(stmt)
            self.loop_headers_seen[hk] = fp
            was = self.pinned_headers().get(hk)
            if was is not None and was != fp:
                sym.ctx().ex.relocated[spec.name] = "%s:%d, whose header is now `%s` (pinned: `%s`)" % (env.qualname, stmt.lineno, fp, was)
            return spec
        for key, spec in self.loop_specs.items():
            anchor = getattr(spec, "anchor", None)
            if not anchor or not self._mentions(stmt, anchor, env.fnode, env):
                continue
            if any(self._mentions(stmt, (a,), env.fnode, env) for a in getattr(spec, "avoid", ())):
                continue
            if self._spec_home_intact(key, spec):
                continue
            # the innermost loop of this function that mentions the anchors
            inner = False
            for other in env.fnode._loops.values():
                if other is not stmt and self._mentions(other, anchor, env.fnode, env) and any(x is other for x in ast.walk(stmt)):
                    inner = True
                    break
            if not inner:
                sym.ctx().ex.relocated[spec.name] = "%s:%d instead of %s loop %d" % (env.qualname, stmt.lineno, key[0], key[1])
                return spec
        return None

    def exec_loop_with_spec(self, s, env, spec):
        self.specs_applied = True
        return spec.execute(self, s, env)

    def s_For(self, s, env):
        spec = self.loop_spec_for(env, s)
        if spec is not None:
            return self.exec_loop_with_spec(s, env, spec)
        it = self.ev(s.iter, env)
        if isinstance(it, SymSet):
            return self.for_symset(s, env, it)
        items = self.iterate(it)
        broke = False
        for x in items:
            self.assign(s.target, x, env)
            try:
                self.exec_block(s.body, env)
            except BreakEx:
                broke = True
                break
            except ContinueEx:
                continue
        if not broke:
            self.exec_block(s.orelse, env)

    def for_symset(self, s, env, it):
        """iteration over a set with symbolic membership: every possible element in turn, its body run
        under the membership condition (merged when the body allows, otherwise split)"""
        ok = getattr(s, "_mergeable_body", None)
        if ok is None:
            ok = s._mergeable_body = self.mergeable_block(s.body) and not s.orelse
        for elem, cond in it.elements():
            if isinstance(cond, bool):
                if not cond:
                    continue
                run = True
            elif ok and isinstance(s.target, ast.Name):
                env.locals[s.target.id] = elem      # the loop variable only matters inside the guarded body
                self.exec_guarded(s.body, env, cond)
                continue
            else:
                run = self.test(cond)
            if run:
                self.assign(s.target, elem, env)
                try:
                    self.exec_block(s.body, env)
                except BreakEx:
                    return
                except ContinueEx:
                    continue
        self.exec_block(s.orelse, env)

    def s_Try(self, s, env):
        try:
            try:
                self.exec_block(s.body, env)
            except RaiseEx as e:
                handled = False
                for h in s.handlers:
                    if h.type is None:
                        match = True
                    else:
                        t = self.ev(h.type, env)
                        match = self.exc_matches(e.cls, t)
                    if match:
                        handled = True
                        if h.name:
                            env.locals[h.name] = e.value
                        env.exc_stack.append(e.value)
                        try:
                            self.exec_block(h.body, env)
                        finally:
                            env.exc_stack.pop()
                            if h.name:
                                env.locals.pop(h.name, None)
                        break
                if not handled:
                    raise
            else:
                self.exec_block(s.orelse, env)
        finally:
            if s.finalbody:
                # NB: runs for interpreted outcomes (return/break/raise); engine aborts
                # (Infeasible/Unsupported) skip nothing observable
                exc = sys.exc_info()[1]
                if not isinstance(exc, (Infeasible, Unsupported, PathEnd)):
                    self.exec_block(s.finalbody, env)

    def exc_matches(self, cls, t):
        if isinstance(t, tuple):
            return any(self.exc_matches(cls, x) for x in t)
        if not isinstance(t, type):
            self.py_raise(TypeError, "catching classes that do not inherit from BaseException is not allowed")
        return issubclass(cls, t)

    def with_ctxgen(self, cm, target, body, env):
        """`with cm() as x: BODY` for a generator-based context manager: the generator's body is run in line and BODY
        is executed at its (single) yield; an exception of BODY is raised at that yield, as contextlib does with
        throw(); return / break / continue in BODY resume the generator normally and take effect afterwards"""
        state = {"n": 0, "pending": None}
        outer = self.yield_handler

        def handler(v, guard=None):
            if guard is not None:
                raise Unsupported("conditional yield in a context-manager generator")
            state["n"] += 1
            if state["n"] > 1:
                self.py_raise(RuntimeError, "generator didn't stop")
            if target is not None:
                self.assign(target, v, env)
            self.yield_handler = outer
            try:
                body()
            except (ReturnEx, BreakEx, ContinueEx) as cf:
                state["pending"] = cf
            finally:
                self.yield_handler = handler
            return None
        self.yield_handler = handler
        try:
            self.call_repo_function(cm.func, cm.args, cm.kwargs, force_body=True)
        finally:
            self.yield_handler = outer
        if state["n"] == 0:
            self.py_raise(RuntimeError, "generator didn't yield")
        if state["pending"] is not None:
            raise state["pending"]

    def s_With(self, s, env):
        if len(s.items) == 1:
            cm0 = self.ev(s.items[0].context_expr, env)
            if isinstance(cm0, CtxGen):
                return self.with_ctxgen(cm0, s.items[0].optional_vars, lambda: self.exec_block(s.body, env), env)
            return self.with_plain(s, env, cm0)
        return self.with_plain(s, env, None)

    def stdlib_cm(self, cm):
        """contextlib.suppress / closing / nullcontext instances: their protocol in terms of the interpreter"""
        import contextlib
        if isinstance(cm, contextlib.suppress):
            excs = tuple(cm._exceptions)

            def s_exit(cls, value, tb):
                return cls is not None and issubclass(cls, excs)
            return (lambda: None), s_exit
        if isinstance(cm, contextlib.closing):
            thing = cm.thing

            def c_exit(cls, value, tb):
                self.call(self.get_attr(thing, "close"), (), {})
                return False
            return (lambda: thing), c_exit
        if isinstance(cm, contextlib.nullcontext):
            return (lambda: cm.enter_result), (lambda cls, value, tb: False)
        return None

    def with_plain(self, s, env, cm0):
        exits = []
        try:
            for i, item in enumerate(s.items):
                cm = cm0 if (i == 0 and cm0 is not None) else self.ev(item.context_expr, env)
                if isinstance(cm, CtxGen):
                    raise Unsupported("generator-based context manager among several in one with statement")
                std = self.stdlib_cm(cm)
                if std is not None:
                    enter, exit_ = std
                else:
                    enter = self.get_attr(cm, "__enter__")
                    exit_ = self.get_attr(cm, "__exit__")
                v = self.call(enter, (), {})
                exits.append(exit_)
                if item.optional_vars is not None:
                    self.assign(item.optional_vars, v, env)
            self.exec_block(s.body, env)
        except RaiseEx as e:
            suppressed = False
            while exits:
                ex = exits.pop()
                if self.test(self.call(ex, (e.cls, e.value, None), {})):
                    suppressed = True
                    break
            if not suppressed:
                raise
            while exits:
                self.call(exits.pop(), (None, None, None), {})
        except (Infeasible, Unsupported, PathEnd):
            raise
        except BaseException:
            while exits:
                self.call(exits.pop(), (None, None, None), {})
            raise
        else:
            while exits:
                self.call(exits.pop(), (None, None, None), {})

    def s_AsyncWith(self, s, env):
        entered = []
        cm0 = None
        if len(s.items) == 1:
            cm0 = self.ev(s.items[0].context_expr, env)
            if isinstance(cm0, CtxGen):
                return self.with_ctxgen(cm0, s.items[0].optional_vars, lambda: self.exec_block(s.body, env), env)
        try:
            for i, item in enumerate(s.items):
                cm = cm0 if (i == 0 and cm0 is not None) else self.ev(item.context_expr, env)
                if isinstance(cm, CtxGen):
                    raise Unsupported("generator-based context manager among several in one async with statement")
                if not hasattr(cm, "aenter"):
                    raise Unsupported("async with on %r" % (type(cm).__name__,))
                v = cm.aenter()
                entered.append(cm)
                if item.optional_vars is not None:
                    self.assign(item.optional_vars, v, env)
            self.exec_block(s.body, env)
        finally:
            exc = sys.exc_info()[1]
            if not isinstance(exc, (Infeasible, Unsupported, PathEnd)):
                while entered:
                    entered.pop().aexit()

    def do_await(self, v):
        from .aio import Awaitable
        if isinstance(v, CoroObj):
            if v.started:
                raise Unsupported("coroutine awaited twice")
            v.started = True
            if isinstance(v.func, Closure):
                self._awaiting_closure = True
                try:
                    return self.call_closure(v.func, v.args, v.kwargs)
                finally:
                    self._awaiting_closure = False
            key = self.key_of(v.func)
            c = self.contracts.get(key)
            if c is not None:
                return self.apply_contract(key, c, v.args, v.kwargs)
            return self.call_repo_function(v.func, v.args, v.kwargs, force_body=True)
        if isinstance(v, Awaitable):
            return v.resolve()
        raise Unsupported("await of %r" % (type(v).__name__,))

    def s_AsyncFor(self, s, env):
        raise Unsupported("async for")

    def s_ClassDef(self, s, env):
        raise Unsupported("class definition inside a function")

    def s_Match(self, s, env):
        subject = self.ev(s.subject, env)
        for case in s.cases:
            if self.match_pattern(case.pattern, subject, env):
                if case.guard is None or self.test(self.ev(case.guard, env)):
                    self.exec_block(case.body, env)
                    return

    def match_pattern(self, p, v, env):
        """structural pattern matching for the patterns that need no protocol beyond ==, is, isinstance, len and indexing;
        forks on symbolic comparisons; captures bind as the match proceeds (as in CPython)"""
        if isinstance(p, ast.MatchValue):
            return self.test(self.compare(ast.Eq, v, self.ev(p.value, env)))
        if isinstance(p, ast.MatchSingleton):
            return self.test(self.compare(ast.Is, v, p.value))
        if isinstance(p, ast.MatchAs):
            if p.pattern is not None and not self.match_pattern(p.pattern, v, env):
                return False
            if p.name is not None:
                self.store_name(p.name, v, env)
            return True
        if isinstance(p, ast.MatchOr):
            return any(self.match_pattern(q, v, env) for q in p.patterns)
        if isinstance(p, ast.MatchClass):
            cls = self.ev(p.cls, env)
            if p.patterns:
                if len(p.patterns) == 1 and cls in (int, str, bool, bytes, float, list, tuple, dict, set, frozenset, bytearray):
                    return self.test(models.b_isinstance(self, v, cls)) and self.match_pattern(p.patterns[0], v, env)
                raise Unsupported("class pattern with positional sub-patterns (__match_args__)")
            if not self.test(models.b_isinstance(self, v, cls)):
                return False
            for name, q in zip(p.kwd_attrs, p.kwd_patterns):
                try:
                    av = self.get_attr(v, name)
                except RaiseEx as e:
                    if issubclass(e.cls, AttributeError):
                        return False
                    raise
                if not self.match_pattern(q, av, env):
                    return False
            return True
        if isinstance(p, ast.MatchSequence):
            if isinstance(v, (str, bytes, bytearray, SBytes)) or not isinstance(v, (list, tuple)):
                if isinstance(v, (SObj, AbstractValue)) or is_sym(v):
                    raise Unsupported("sequence pattern on %s" % type(v).__name__) if not is_sym(v) else None
                return False
            if any(isinstance(q, ast.MatchStar) for q in p.patterns):
                raise Unsupported("starred sequence pattern")
            if len(v) != len(p.patterns):
                return False
            return all(self.match_pattern(q, x, env) for q, x in zip(p.patterns, v))
        raise Unsupported("pattern %s" % p.__class__.__name__)

    # ------------------------------------------------------------------ assignment
    def mangle(self, name, env):
        if name.startswith("__") and not name.endswith("__") and env.owner is not None:
            return "_" + env.owner.__name__.lstrip("_") + name
        return name

    def assign(self, t, v, env):
        if isinstance(t, ast.Name):
            self.store_name(t.id, v, env)
        elif isinstance(t, ast.Attribute):
            o = self.ev(t.value, env)
            self.set_attr(o, self.mangle(t.attr, env), v)
        elif isinstance(t, ast.Subscript):
            o = self.ev(t.value, env)
            k = self.ev_slice(t.slice, env)
            self.store_subscript(o, k, v)
        elif isinstance(t, (ast.Tuple, ast.List)):
            items = self.iterate(v)
            star = [i for i, e in enumerate(t.elts) if isinstance(e, ast.Starred)]
            if star:
                i = star[0]
                after = len(t.elts) - i - 1
                if len(items) < len(t.elts) - 1:
                    self.py_raise(ValueError, "not enough values to unpack")
                for e, x in zip(t.elts[:i], items[:i]):
                    self.assign(e, x, env)
                self.assign(t.elts[i].value, self.fresh(list(items[i:len(items) - after])), env)
                for e, x in zip(t.elts[i + 1:], items[len(items) - after:]):
                    self.assign(e, x, env)
            else:
                if len(items) != len(t.elts):
                    self.py_raise(ValueError, "wrong number of values to unpack (expected %d, got %d)"
                                  % (len(t.elts), len(items)))
                for e, x in zip(t.elts, items):
                    self.assign(e, x, env)
        elif isinstance(t, ast.Starred):
            raise Unsupported("starred assignment")
        else:
            raise Unsupported("assignment target %s" % t.__class__.__name__)

    def store_name(self, name, v, env):
        if env.nonlocals and env.nonlocals != "comprehension" and name in env.nonlocals:
            e = env.parent
            while e is not None and name not in e.locals:
                e = e.parent
            if e is None:
                raise Unsupported("nonlocal %s lost its binding" % name)
            if self.guards:
                raise Unsupported("conditional store to a nonlocal name")
            e.locals[name] = v
            return
        if self.guards and self.guards[-1][2] is env:
            have = name in env.locals
            do, v = self.merge_write(v, env.locals.get(name), have)
            if not do:
                return
        env.locals[name] = v

    def load_name(self, name, env, raw=False):
        e = env
        while e is not None:
            if name in e.locals:
                v = e.locals[name]
                if isinstance(v, Choice) and not raw:
                    v = self.resolve_choice(v)
                return v
            e = e.parent
        if name in env.cells:
            return env.cells[name]
        g = env.globals_
        if name in g:
            return g[name]
        b = builtins.__dict__
        if name in b:
            return b[name]
        self.py_raise(NameError, "name '%s' is not defined" % name)

    # ------------------------------------------------------------------ iteration
    def iterate(self, it):
        """materialise an iterable into a Python list of items."""
        if isinstance(it, (list, tuple)):
            return list(it)
        if isinstance(it, range):
            return list(it)
        if isinstance(it, dict):
            return list(it.keys())
        if isinstance(it, AbstractValue):
            # known only through its contract: what iteration would yield is not stated there - undecided, never an
            # exception of the program
            raise Unsupported("iteration over %s (an abstract view of the value)" % type(it).__name__)
        if isinstance(it, SymSet):
            out = []
            for e, c in it.elements():
                if self.test(c):
                    out.append(e)
            return out
        if isinstance(it, (set, frozenset)):
            try:
                return sorted(it)
            except TypeError:
                return list(it)
        if isinstance(it, (str, bytes, bytearray)):
            return list(it)
        if isinstance(it, SBytes):
            return list(it.items)
        if isinstance(it, models.SRange):
            return it.materialise(self)
        if isinstance(it, models.LazySplit):
            return list(it.all())
        if isinstance(it, GenObj):
            raise Unsupported("iteration over a generator object")
        if isinstance(it, SObj):
            m = self.find_in_mro(it.cls, "__iter__")
            if m is not None:
                r = self.call(m, (it,), {})
                return self.iterate(r)
            self.py_raise(TypeError, "'%s' object is not iterable" % it.cls.__name__)
        if is_sym(it) or it is None:
            self.py_raise(TypeError, "'%s' object is not iterable" % class_of(it).__name__)
        if isinstance(it, type) and issubclass(it, enum.Enum):
            return list(it)
        if isinstance(it, AnyOf):
            raise Unsupported("iteration over an unspecified value")
        try:
            iter(it)
        except TypeError as e:
            raise RaiseEx(e)
        return self.native(list, it)

    # ------------------------------------------------------------------ expressions
    def ev(self, n, env):
        m = getattr(self, "e_" + n.__class__.__name__, None)
        if m is None:
            raise Unsupported("expression %s at %s:%d" % (n.__class__.__name__, env.qualname,
                                                          getattr(n, "lineno", 0)))
        return m(n, env)

    def e_Constant(self, n, env):
        return n.value

    def e_Name(self, n, env):
        v = self.load_name(n.id, env, raw=True)
        if isinstance(v, Choice) and not self.choice_ok(n, env):
            v = self.resolve_choice(v)
        return v

    def e_Tuple(self, n, env):
        out = []
        for e in n.elts:
            if isinstance(e, ast.Starred):
                out.extend(self.iterate(self.ev(e.value, env)))
            else:
                out.append(self.ev(e, env))
        return tuple(out)

    def e_List(self, n, env):
        return self.fresh(list(self.e_Tuple(n, env)))

    def e_Set(self, n, env):
        items = self.e_Tuple(n, env)
        if contains_sym(items):
            raise Unsupported("set display with symbolic elements")
        return self.fresh(set(items))

    def e_Dict(self, n, env):
        d = {}
        for k, v in zip(n.keys, n.values):
            if k is None:
                d.update(self.ev(v, env))
            else:
                kk = self.ev(k, env)
                if is_sym(kk) or isinstance(kk, SObj):
                    raise Unsupported("dict display with symbolic key")
                d[kk] = self.ev(v, env)
        return self.fresh(d)

    def e_Attribute(self, n, env):
        o = self.ev(n.value, env)
        return self.get_attr(o, self.mangle(n.attr, env))

    def e_Lambda(self, n, env):
        defaults = [self.ev(d, env) for d in n.args.defaults]
        kwd = {a.arg: self.ev(d, env) for a, d in zip(n.args.kwonlyargs, n.args.kw_defaults) if d is not None}
        return Closure(n, env, env.globals_, env.owner, defaults, kwd, env.qualname + ".<lambda>")

    def e_IfExp(self, n, env):
        t = self.truth(self.ev(n.test, env))
        if not isinstance(t, bool) and self.choice_ok(n, env) and self.plain_operand(n.body) and self.plain_operand(n.orelse):
            a = self.ev(n.body, env)
            b = self.ev(n.orelse, env)
            if a is b:
                return a
            if (is_boollike(a) and is_boollike(b)) or (is_intlike(a) and is_intlike(b)
                                                       and not is_boollike(a) and not is_boollike(b)):
                return ite(t, a, b)
            if isinstance(a, Choice) or isinstance(b, Choice):
                return self.resolve_choice(a) if self.test(t) else self.resolve_choice(b)
            return Choice(t, a, b)
        if self.test(t):
            return self.ev(n.body, env)
        return self.ev(n.orelse, env)

    # ------------------------------------------------------------------ unforked choice between two values
    @staticmethod
    def plain_operand(node):
        """side-effect free and cheap: a name, a dotted name or a constant"""
        while isinstance(node, ast.Attribute):
            node = node.value
        return isinstance(node, (ast.Name, ast.Constant))

    def choice_ok(self, node, env):
        """may the value of this expression stay an unresolved Choice?  Only where the interpreter knows what to do
        with one: bound to a local name, called, or yielded."""
        fnode = env.fnode
        if fnode is None:
            return False
        if not getattr(fnode, "_parents_set", False):
            for p in ast.walk(fnode):
                for c in ast.iter_child_nodes(p):
                    c._parent = p
            fnode._parents_set = True
        p = getattr(node, "_parent", None)
        if isinstance(p, ast.Assign):
            return p.value is node and len(p.targets) == 1 and isinstance(p.targets[0], ast.Name)
        if isinstance(p, ast.Call):
            return p.func is node
        if isinstance(p, ast.Yield):
            return p.value is node
        return False

    def resolve_choice(self, v):
        while isinstance(v, Choice):
            v = v.a if self.test(v.cond) else v.b
        return v

    def call_choice(self, n, env, f, args, kwargs):
        """ite(c, A, B)(args): each alternative is called under its condition (as an if-converted region)"""
        missing = object()
        out = []
        for cond, alt in ((f.cond, f.a), (Not(f.cond), f.b)):
            alt = self.resolve_choice(alt)
            self.guards.append((cond, next_serial(), env))
            try:
                out.append(self.call(alt, list(args), dict(kwargs)))
            except RaiseEx:
                # raised exactly on the executions where this alternative is the one called
                if self.test(self.guard()):
                    raise
                out.append(missing)
            finally:
                self.guards.pop()
        if out[0] is missing:
            return out[1]           # the path now carries "not cond"
        if out[1] is missing or out[0] is out[1]:
            return out[0]
        r = Choice(f.cond, out[0], out[1])
        return r if self.choice_ok(n, env) else self.resolve_choice(r)

    def e_NamedExpr(self, n, env):
        v = self.ev(n.value, env)
        target_env = env
        while target_env.nonlocals == "comprehension" and target_env.parent is not None:
            target_env = target_env.parent      # PEP 572: the name is bound in the scope containing the comprehension
        self.assign(n.target, v, target_env)
        return v

    def e_BoolOp(self, n, env):
        is_and = isinstance(n.op, ast.And)
        v = None
        for i, e in enumerate(n.values):
            v = self.ev(e, env)
            if i == len(n.values) - 1:
                return v
            t = self.truth(v)
            # keep pure boolean chains unforked when the rest is side-effect free and bool-valued
            if is_and:
                if isinstance(t, bool):
                    if not t:
                        return v
                    continue
                if not bool(t):
                    return v
            else:
                if isinstance(t, bool):
                    if t:
                        return v
                    continue
                if bool(t):
                    return v
        return v

    def e_UnaryOp(self, n, env):
        v = self.ev(n.operand, env)
        if isinstance(n.op, ast.Not):
            return Not(self.truth(v))
        if isinstance(v, SObj):
            raise Unsupported("unary operator on object")
        if isinstance(n.op, ast.USub):
            return self.native(operator.neg, v)
        if isinstance(n.op, ast.Invert):
            return self.native(operator.invert, v)
        if isinstance(n.op, ast.UAdd):
            return self.native(operator.pos, v)
        raise Unsupported("unary op")

    def e_BinOp(self, n, env):
        a = self.ev(n.left, env)
        b = self.ev(n.right, env)
        return self.binop(type(n.op), a, b)

    def binop(self, op, a, b, inplace=False):
        if isinstance(a, AnyOf) or isinstance(b, AnyOf):
            raise Unsupported("arithmetic on an unspecified value")
        if isinstance(a, SObj) or isinstance(b, SObj) or \
                (hasattr(a, "__dict__") and self.is_repo_class(type(a)) and not isinstance(a, (type, enum.Enum))):
            d = BIN_DUNDER.get(op)
            if d is None:
                raise Unsupported("operator on object")
            if isinstance(a, SObj) or not is_sym(a) and self.is_repo_class(class_of(a)):
                if op is ast.Mod and isinstance(a, str):
                    pass
                m = self.find_in_mro(class_of(a), "__%s__" % d)
                if isinstance(m, types.FunctionType):
                    r = self.call(m, (a, b), {})
                    if r is not NotImplemented:
                        return r
            if isinstance(a, str) and op is ast.Mod:
                return models.str_mod(self, a, b)
            if isinstance(b, SObj):
                m = self.find_in_mro(b.cls, "__r%s__" % d)
                if isinstance(m, types.FunctionType):
                    r = self.call(m, (b, a), {})
                    if r is not NotImplemented:
                        return r
            self.py_raise(TypeError, "unsupported operand type(s) for %s: '%s' and '%s'"
                          % (d, class_of(a).__name__, class_of(b).__name__))
        if op is ast.Mod and isinstance(a, str):
            return models.str_mod(self, a, b)
        if op is ast.Add and (isinstance(a, SBytes) or isinstance(b, SBytes)):
            if isinstance(a, (bytes, bytearray, SBytes)) and isinstance(b, (bytes, bytearray, SBytes)):
                return mk_bytes(list(a) + list(b))
            self.py_raise(TypeError, "can't concat")
        if op is ast.Mult and (is_sym(a) or is_sym(b)) and (isinstance(a, (list, tuple, str, bytes))
                                                            or isinstance(b, (list, tuple, str, bytes))):
            seq, k = (a, b) if isinstance(a, (list, tuple, str, bytes)) else (b, a)
            k = sym.ctx().choose_int(k, "sequence repetition count")
            r = seq * k
            return self.fresh(r) if isinstance(r, list) else r
        if op is ast.Pow and (is_sym(a) or is_sym(b)):
            if isinstance(a, int) and a == 2 and is_sym(b):
                return 1 << b
            raise Unsupported("symbolic power")
        if inplace and isinstance(a, (list, set, dict, bytearray, SymSet)):
            # augmented assignment on a mutable container updates THE OBJECT (every alias sees it), as in CPython
            return self.inplace_update(op, a, b)
        r = self.native(BINOPS[op], a, b)
        if r is NotImplemented:
            self.py_raise(TypeError, "unsupported operand")
        if isinstance(r, (list, dict, set, bytearray)) and not (inplace and r is a):
            self.fresh(r)
        return r

    def inplace_update(self, op, a, b):
        if not isinstance(a, SymSet):
            self.check_mutation(a, "in-place %s" % BIN_DUNDER.get(op, "update"))
        if isinstance(a, SymSet) or (isinstance(a, set) and isinstance(b, SymSet)):
            if not isinstance(b, (set, frozenset, SymSet)):
                self.py_raise(TypeError, "unsupported operand type(s) for in-place set operation")
            if isinstance(a, set):
                raise Unsupported("in-place update of a concrete set with a symbolic one")
            fn = {ast.Sub: SymSet.__sub__, ast.BitOr: SymSet.__or__, ast.BitAnd: SymSet.__and__, ast.BitXor: SymSet.__xor__}.get(op)
            if fn is None:
                self.py_raise(TypeError, "unsupported in-place operation on a set")
            a.mem = dict(fn(a, b).mem)
            return a
        if isinstance(a, list):
            if op is ast.Add:
                a.extend(self.iterate(b))
                return a
            if op is ast.Mult:
                k = sym.ctx().choose_int(b, "sequence repetition count") if is_sym(b) else b
                a[:] = a * k
                return a
            self.py_raise(TypeError, "unsupported in-place operation on a list")
        if isinstance(a, set):
            if not isinstance(b, (set, frozenset)):
                self.py_raise(TypeError, "unsupported operand type(s) for in-place set operation")
            if op is ast.Sub:
                a.difference_update(b)
            elif op is ast.BitOr:
                a.update(b)
            elif op is ast.BitAnd:
                a.intersection_update(b)
            elif op is ast.BitXor:
                a.symmetric_difference_update(b)
            else:
                self.py_raise(TypeError, "unsupported in-place operation on a set")
            return a
        if isinstance(a, dict) and op is ast.BitOr:
            a.update(b)
            return a
        if isinstance(a, bytearray) and op is ast.Add:
            a.extend(b)
            return a
        self.py_raise(TypeError, "unsupported in-place operation")

    def e_Compare(self, n, env):
        left = self.ev(n.left, env)
        result = True
        for i, (op, c) in enumerate(zip(n.ops, n.comparators)):
            right = self.ev(c, env)
            r = self.compare(type(op), left, right)
            if i == len(n.ops) - 1:
                if result is True:
                    return r
                return And(result, self.truth(r))
            # chained: short-circuit (fork) to keep evaluation order semantics
            if not self.test(r):
                return r
            left = right
        return result

    def compare(self, op, a, b):
        if op is ast.Is:
            return self.is_(a, b)
        if op is ast.IsNot:
            return Not(self.is_(a, b))
        if op is ast.Eq:
            return self.eq(a, b)
        if op is ast.NotEq:
            if isinstance(a, SObj):
                m = self.find_in_mro(a.cls, "__ne__")
                if isinstance(m, types.FunctionType):
                    return self.call(m, (a, b), {})
            return Not(self.truth(self.eq(a, b)))
        if op is ast.In:
            return self.contains(b, a)
        if op is ast.NotIn:
            return Not(self.truth(self.contains(b, a)))
        if isinstance(a, AnyOf) or isinstance(b, AnyOf):
            raise Unsupported("ordering of an unspecified value")
        if isinstance(a, SObj) or isinstance(b, SObj):
            nm = {ast.Lt: "__lt__", ast.LtE: "__le__", ast.Gt: "__gt__", ast.GtE: "__ge__"}[op]
            if isinstance(a, SObj):
                m = self.find_in_mro(a.cls, nm)
                if isinstance(m, types.FunctionType):
                    return self.call(m, (a, b), {})
            self.py_raise(TypeError, "'%s' not supported between instances" % nm)
        if (is_sym(a) and not is_intlike(b)) or (is_sym(b) and not is_intlike(a)):
            if isinstance(a, BitLength) or isinstance(b, BitLength):
                return self.native(CMPOPS[op], a, b)
            if isinstance(a, float) or isinstance(b, float):
                raise Unsupported("comparison of symbolic int with float")
            self.py_raise(TypeError, "ordering not supported between '%s' and '%s'"
                          % (class_of(a).__name__, class_of(b).__name__))
        r = self.native(CMPOPS[op], a, b)
        if r is NotImplemented:
            self.py_raise(TypeError, "ordering not supported")
        return r

    def is_(self, a, b):
        if isinstance(a, SBool) and isinstance(b, bool):
            return a if b else Not(a)
        if isinstance(b, SBool) and isinstance(a, bool):
            return b if a else Not(b)
        if isinstance(a, SBool) and isinstance(b, SBool):
            return a == b
        if is_sym(a) or is_sym(b):
            if isinstance(a, (SInt,)) and isinstance(b, (SInt,)) and a is b:
                return True
            if isinstance(a, SInt) and isinstance(b, (int, SInt)) and not isinstance(b, bool) or \
                    isinstance(b, SInt) and isinstance(a, (int, SInt)) and not isinstance(a, bool):
                raise Unsupported("identity comparison of ints")
            return False
        if isinstance(a, AnyOf) or isinstance(b, AnyOf):
            if a is None or b is None:
                return False
            raise Unsupported("identity of an unspecified value")
        return a is b

    def eq(self, a, b):
        if isinstance(a, AnyOf) or isinstance(b, AnyOf):
            raise Unsupported("equality on an unspecified value")
        if isinstance(a, SObj) or isinstance(b, SObj) or \
                (self.is_repo_class(class_of(a)) and not isinstance(a, (type, enum.Enum))):
            return self.binop_eq(a, b)
        if isinstance(a, str) and isinstance(b, str) and (OPAQUE in a or OPAQUE in b):
            raise Unsupported("comparison of opaque text")
        if isinstance(a, SBytes) or isinstance(b, SBytes):
            return values_equal(a, b)
        if isinstance(a, (tuple, list)) and isinstance(b, (tuple, list)) and (contains_sym(a) or contains_sym(b)):
            if type(a) is not type(b) or len(a) != len(b):
                return False
            return And([self.truth(self.eq(x, y)) for x, y in zip(a, b)])
        return self.native(operator.eq, a, b)

    def contains(self, container, item):
        if isinstance(container, SObj):
            r = self.call_dunder(container, "__contains__", item)
            return self.truth(r)
        if isinstance(container, AbstractValue):
            return container.py_contains(self, item)
        if isinstance(container, AnyOf) or isinstance(item, AnyOf):
            raise Unsupported("membership on an unspecified value")
        if isinstance(container, (list, tuple)):
            if contains_sym(item) or contains_sym(container) or isinstance(item, SObj):
                return Or([self.truth(self.is_or_eq(x, item)) for x in container])
            return self.native(operator.contains, container, item)
        if isinstance(container, SymSet):
            return container.member(item)
        if isinstance(container, models.AssocDict):
            return Or([self.truth(self.eq(k, item)) for k, _ in container.live_entries()])
        if isinstance(container, (dict, set, frozenset)):
            if contains_sym(item):
                keys = list(container.keys()) if isinstance(container, dict) else list(container)
                return Or([self.truth(self.eq(k, item)) for k in keys])
            if isinstance(item, SObj):
                return any(k is item for k in container)
            return self.native(operator.contains, container, item)
        if isinstance(container, (SBytes, bytes, bytearray)) and (is_sym(item) or isinstance(container, SBytes)):
            if is_intlike(item):
                return Or([x == item for x in container])
            raise Unsupported("subsequence test on symbolic bytes")
        if isinstance(container, str):
            if isinstance(item, str) and (OPAQUE in container or OPAQUE in item):
                raise Unsupported("substring test on opaque text")
            if not isinstance(item, str):
                self.py_raise(TypeError, "'in <string>' requires string as left operand")
        if isinstance(container, models.SRange):
            return container.contains(item)
        if isinstance(container, range) and is_sym(item):
            if container.step == 1:
                return And(item >= container.start, item < container.stop)
            return Or([item == x for x in container])
        if is_sym(container) or container is None:
            self.py_raise(TypeError, "argument of type '%s' is not iterable" % class_of(container).__name__)
        if isinstance(container, type) and issubclass(container, enum.Enum) and is_sym(item):
            return Or([item == m.value for m in container])
        return self.native(operator.contains, container, item)

    def is_or_eq(self, x, item):
        if x is item:
            return True
        return self.eq(x, item)

    def ev_slice(self, n, env):
        if isinstance(n, ast.Slice):
            lo = self.ev(n.lower, env) if n.lower is not None else None
            hi = self.ev(n.upper, env) if n.upper is not None else None
            st = self.ev(n.step, env) if n.step is not None else None
            return slice(lo, hi, st)
        return self.ev(n, env)

    def e_Slice(self, n, env):
        return self.ev_slice(n, env)

    def e_Subscript(self, n, env):
        o = self.ev(n.value, env)
        k = self.ev_slice(n.slice, env)
        return self.subscript(o, k)

    def subscript(self, o, k):
        return models.get_item(self, o, k)

    def store_subscript(self, o, k, v):
        return models.set_item(self, o, k, v)

    def e_Starred(self, n, env):
        raise Unsupported("starred expression")

    def e_Call(self, n, env):
        # logging calls: arguments evaluated, effect dropped
        fnode = n.func
        if isinstance(fnode, ast.Name) and fnode.id == "super" and not n.args:
            if env.owner is None or env.self_arg is None:
                self.py_raise(RuntimeError, "super(): no arguments")
            return SuperProxy(env.owner, env.self_arg)
        f = self.ev(fnode, env)
        if (f is next or f is any or f is all) and n.args and isinstance(n.args[0], ast.GeneratorExp) and not n.keywords \
                and (f is next or any(isinstance(x, ast.NamedExpr) for x in ast.walk(n.args[0]))):
            return self.lazy_genexp_call(f, n, env)
        args = []
        for a in n.args:
            if isinstance(a, ast.Starred):
                args.extend(self.iterate(self.ev(a.value, env)))
            else:
                args.append(self.ev(a, env))
        kwargs = {}
        for kw in n.keywords:
            if kw.arg is None:
                d = self.ev(kw.value, env)
                if not isinstance(d, dict):
                    self.py_raise(TypeError, "argument after ** must be a mapping")
                kwargs.update(d)
            else:
                kwargs[kw.arg] = self.ev(kw.value, env)
        if models.is_logger_factory(f):
            return f(*[a if isinstance(a, str) else "x" for a in args])
        if models.is_logging_callable(f):
            self.log_calls += 1
            for a in args[1:]:
                if isinstance(a, SObj):
                    pass
            return None
        if isinstance(f, Choice):
            return self.call_choice(n, env, f, args, kwargs)
        return self.call(f, args, kwargs)

    def e_JoinedStr(self, n, env):
        parts = []
        for v in n.values:
            if isinstance(v, ast.Constant):
                parts.append(v.value)
            else:
                parts.append(self.e_FormattedValue(v, env))
        return "".join(parts)

    def e_FormattedValue(self, n, env):
        v = self.ev(n.value, env)
        spec = ""
        if n.format_spec is not None:
            spec = self.ev(n.format_spec, env)
        if n.conversion == ord("r"):
            v = self.py_repr(v)
        elif n.conversion == ord("s"):
            v = self.py_str(v)
        elif n.conversion == ord("a"):
            v = self.py_repr(v)
        return models.format_value(self, v, spec)

    def _comp(self, n, env, emit):
        def rec(gens, e):
            if not gens:
                emit(e)
                return
            g = gens[0]
            if g.is_async:
                raise Unsupported("async comprehension")
            for x in self.iterate(self.ev(g.iter, e)):
                self.assign(g.target, x, e)
                if all(self.test(self.ev(c, e)) for c in g.ifs):
                    rec(gens[1:], e)
        sub = Env({}, env, env.func, env.globals_, env.owner, env.cells, env.qualname)
        sub.self_arg = env.self_arg
        sub.fnode = env.fnode
        sub.nonlocals = "comprehension"
        rec(n.generators, sub)

    def lazy_genexp_call(self, f, n, env):
        """next(<genexp>[, default]) and any / all over a generator expression that binds names (walrus): the elements
        are produced one at a time and production stops where CPython stops"""
        class _Enough(BaseException):
            pass
        g = n.args[0]
        box = []

        def emit(e):
            v = self.ev(g.elt, e)
            if f is next:
                box.append(v)
                raise _Enough()
            t = self.test(v)
            if (f is any and t) or (f is all and not t):
                box.append(t)
                raise _Enough()
        try:
            self._comp(g, env, emit)
        except _Enough:
            pass
        if f is next:
            if box:
                return box[0]
            if len(n.args) > 1:
                return self.ev(n.args[1], env)
            self.py_raise(StopIteration)
        if len(n.args) > 1:
            self.py_raise(TypeError, "%s() takes exactly one argument" % f.__name__)
        return box[0] if box else (f is all)

    def e_ListComp(self, n, env):
        out = []
        self._comp(n, env, lambda e: out.append(self.ev(n.elt, e)))
        return self.fresh(out)

    def e_GeneratorExp(self, n, env):
        return self.e_ListComp(n, env)

    def e_SetComp(self, n, env):
        # {elt for x in <concrete iterable> if <symbolic condition>}: membership by if-conversion, no forking
        if len(n.generators) == 1 and not n.generators[0].is_async and n.generators[0].ifs:
            g = n.generators[0]
            sub = Env({}, env, env.func, env.globals_, env.owner, env.cells, env.qualname)
            sub.self_arg = env.self_arg
            items = self.iterate(self.ev(g.iter, sub))
            res = SymSet()
            symbolic = False
            for x in items:
                self.assign(g.target, x, sub)
                cond = True
                for c in g.ifs:
                    t = self.truth(self.ev(c, sub))
                    cond = t if cond is True else And(cond, t)
                if cond is False:
                    continue
                elt = self.ev(n.elt, sub)
                if is_sym(elt) or contains_sym([elt]):
                    raise Unsupported("set comprehension with symbolic elements")
                if not isinstance(cond, bool):
                    symbolic = True
                res.add_if(cond, elt)
            if symbolic:
                return res
            return self.fresh({e for e, c in res.mem.items() if c is True})
        out = []
        self._comp(n, env, lambda e: out.append(self.ev(n.elt, e)))
        if contains_sym(out):
            raise Unsupported("set comprehension with symbolic elements")
        return self.fresh(set(out))

    def e_DictComp(self, n, env):
        out = {}

        def emit(e):
            k = self.ev(n.key, e)
            if is_sym(k):
                raise Unsupported("dict comprehension with symbolic key")
            out[k] = self.ev(n.value, e)
        self._comp(n, env, emit)
        return self.fresh(out)

    def e_Yield(self, n, env):
        v = self.ev(n.value, env) if n.value is not None else None
        if self.yield_handler is None:
            raise Unsupported("yield outside a sequence environment")
        g = self.guard()
        if isinstance(v, Choice):
            # `yield ite(c, X, Y)` is `if c: yield X else: yield Y`
            r = []
            for cond, alt in ((v.cond, v.a), (Not(v.cond), v.b)):
                alt = self.resolve_choice(alt)
                r.append(self.yield_handler(alt, cond if g is None else And(g, cond)))
            if r[0] is r[1]:
                return r[0]
            return r[0] if self.test(v.cond) else r[1]
        if g is not None:
            return self.yield_handler(v, g)
        return self.yield_handler(v)

    def e_YieldFrom(self, n, env):
        g = self.ev(n.value, env)
        if isinstance(g, GenObj):
            return self.run_generator_inline(g)
        # yield from <iterable>: each item is yielded, result None
        for x in self.iterate(g):
            if self.yield_handler is None:
                raise Unsupported("yield outside a sequence environment")
            self.yield_handler(x)
        return None

    def e_Await(self, n, env):
        return self.do_await(self.ev(n.value, env))
