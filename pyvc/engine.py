"""Contracts, proof units, outcome comparison, native replay."""
import importlib
import json
import os
import sys
import time
import traceback
import types

from . import sym
from .sym import Unsupported
from .path import Explorer, PathCtx, NativeCtx, RaiseEx, Infeasible, Obligation
from .interp import Interp
from .values import SObj, values_equal, class_of
from .spec import SpecRaise, PreconditionFailed, AnyOf, And, Alternatives


ROOT = os.environ.get("PYVC_ROOT", "/repo")
PACKAGE = "dali"

CONTRACTS = {}


class Contract:
    def __init__(self, key, spec, requires=None, ensures=(), doc=""):
        self.key = key
        self.spec = spec
        self.requires = requires
        self.ensures = list(ensures)
        self.doc = doc or (spec.__doc__ or "")


def contract(key, requires=None, ensures=()):
    def deco(f):
        CONTRACTS[key] = Contract(key, f, requires, ensures)
        return f
    return deco


def resolve(key):
    """'pkg.mod:Class.attr' -> the live function object (unwrapping descriptors)."""
    modname, qual = key.split(":")
    obj = importlib.import_module(modname)
    parts = qual.split(".")
    for i, p in enumerate(parts):
        if isinstance(obj, type):
            raw = None
            for k in obj.__mro__:
                if p in k.__dict__:
                    raw = k.__dict__[p]
                    break
            if raw is None:
                raise AttributeError("%s has no %s" % (obj, p))
            obj = raw
        else:
            obj = getattr(obj, p)
    if isinstance(obj, (classmethod, staticmethod)):
        obj = obj.__func__
    if isinstance(obj, property):
        obj = obj.fget
    if not isinstance(obj, types.FunctionType):
        raise TypeError("%s is not a function: %r" % (key, obj))
    return obj


def assert_repo_origin():
    """refuse to verify anything but the tree under ROOT."""
    pkg = importlib.import_module(PACKAGE)
    f = os.path.realpath(pkg.__file__)
    if not f.startswith(os.path.realpath(ROOT) + os.sep):
        raise RuntimeError("package %s is imported from %s, not from %s" % (PACKAGE, f, ROOT))
    return f


def stub_missing_modules():
    """third-party I/O modules absent from this sandbox are stubbed by empty modules;
    only pure functions of the importing modules are put under contract."""
    stubbed = []
    for name in ("usb", "usb.core", "usb.util", "hid", "pymodbus.client.sync"):
        try:
            importlib.import_module(name)
        except Exception:       # noqa: BLE001
            m = types.ModuleType(name)
            # any name imported from the stub is an inert placeholder class
            m.__getattr__ = lambda attr, _n=name: type(attr, (), {"__module__": _n})
            sys.modules[name] = m
            if "." in name:
                parent = sys.modules.get(name.rsplit(".", 1)[0])
                if parent is not None:
                    setattr(parent, name.rsplit(".", 1)[1], m)
            stubbed.append(name)
    return stubbed


class Unit:
    """One proof unit = one function (or lemma) verified over one family of symbolic inputs."""

    def __init__(self, name, prop, target=None, builder=None, use=(), width=72, kind="refines",
                 lemma=None, timeout_ms=30000, max_paths=20000, spec=None, requires=None,
                 ensures=(), loops=None, runner=None, note="", state_on_raise=True, logic="QF_BV",
                 quick_ms=1500):
        self.name = name
        self.prop = prop
        self.target = target
        self.builder = builder
        self.use = tuple(use)
        self.width = width
        self.kind = kind
        self.lemma = lemma
        self.timeout_ms = timeout_ms
        self.max_paths = max_paths
        self.spec = spec
        self.requires = requires
        self.ensures = list(ensures)
        self.loops = loops or {}
        self.runner = runner
        self.note = note
        self.state_on_raise = state_on_raise
        self.logic = logic
        self.quick_ms = quick_ms


def _split_args(r):
    if isinstance(r, tuple) and len(r) == 2 and isinstance(r[1], dict) and isinstance(r[0], (tuple, list)):
        return tuple(r[0]), r[1]
    if isinstance(r, (tuple, list)):
        return tuple(r), {}
    return (r,), {}


def _run_body(interp, fn, args, kwargs):
    try:
        return ("return", interp.call_repo_function(fn, args, kwargs, force_body=True))
    except RaiseEx as e:
        return ("raise", e.cls, e.value, e.where)


def _run_spec(spec, args, kwargs):
    try:
        return ("return", spec(*args, **kwargs))
    except SpecRaise as s:
        return ("raise", s.classes)
    except RaiseEx as e:
        # the spec called a contracted/real function that raised
        return ("raise", (e.cls,))


def _name_of(classes):
    return "|".join(c.__name__ for c in classes)


def compare_outcomes(ctx, out_b, out_s, objs1, objs2, label="", state_on_raise=True):
    """obligations: the body's outcome equals the spec function's outcome."""
    if out_s[0] == "return" and isinstance(out_s[1], Alternatives):
        ok = []
        for alt in out_s[1].alts:
            if alt[0] == "return" and out_b[0] == "return":
                ok.append(values_equal(out_b[1], alt[1]))
            elif alt[0] == "raise" and out_b[0] == "raise":
                ok.append(any(issubclass(out_b[1], k) for k in alt[1]))
        from .spec import Or as _Or
        what = "returns" if out_b[0] == "return" else "raises %s at %s" % (out_b[1].__name__, out_b[3])
        ctx.prove(label + "refines/one-of-the-allowed-outcomes", _Or(ok) if ok else False,
                  detail="%s, which is none of the outcomes the specification allows" % what)
        for i, (o1, o2) in enumerate(zip(objs1, objs2)):
            compare_state(ctx, o1, o2, label, i)
        return
    if out_b[0] == "return" and out_s[0] == "return":
        ctx.prove(label + "refines/result", values_equal(out_b[1], out_s[1]),
                  detail="returned value differs from the specification")
    elif out_b[0] == "raise" and out_s[0] == "return":
        ctx.fail(label + "raises/unexpected:%s" % out_b[1].__name__,
                 detail="raises %s at %s where the specification returns normally" % (out_b[1].__name__, out_b[3]))
        return
    elif out_b[0] == "return" and out_s[0] == "raise":
        ctx.fail(label + "raises/missing:%s" % _name_of(out_s[1]),
                 detail="returns normally where the specification requires %s" % _name_of(out_s[1]))
        return
    else:
        if not any(issubclass(out_b[1], k) for k in out_s[1]):
            ctx.fail(label + "raises/wrong-class:%s-for-%s" % (out_b[1].__name__, _name_of(out_s[1])),
                     detail="raises %s at %s where the specification requires %s"
                     % (out_b[1].__name__, out_b[3], _name_of(out_s[1])))
            return
        else:
            ctx.prove(label + "raises/class:%s" % _name_of(out_s[1]), True)
        if not state_on_raise:
            return
    # final states of the input objects
    for i, (o1, o2) in enumerate(zip(objs1, objs2)):
        compare_state(ctx, o1, o2, label, i)


def compare_state(ctx, o1, o2, label, i):
    if isinstance(o1, SObj):
        from .values import canonical, canon_entry
        ent = canon_entry(o1.cls)
        if ent is not None and all(f in o2.fields for f in ent[1]):
            # the specification's final object, rebuilt from its abstract view by the real constructor
            try:
                o2 = canonical(SObj(o2.cls, {f: o2.fields[f] for f in ent[1]}))
            except RaiseEx as e:
                ctx.fail(label + "refines/state:%s-view-not-constructible" % o1.cls.__name__,
                         detail="the specified final view is rejected by the constructor (%s)" % e.cls.__name__)
                return
        f1, f2 = o1.fields, o2.fields
        cname = o1.cls.__name__
    elif isinstance(o1, (list, dict)):
        ctx.prove(label + "refines/state:%s#%d" % (type(o1).__name__, i), values_equal(o1, o2),
                  detail="final contents of container #%d differ from the specification" % i)
        return
    else:
        return
    for k in sorted(set(f1) | set(f2)):
        if k in f1 and k not in f2 and k.startswith("_"):
            # a private attribute the object did not have before the call and the specification knows nothing about:
            # representation (a memo on the instance), not part of the abstract view the property talks about.  What a
            # stale memo could do later is a matter of histories (the result / canonical-form obligations, the bounded
            # history searches), not of this call's final state
            continue
        if k not in f1 and k.startswith("_"):
            # the specification's view names a private attribute the real object does not have after the call: the
            # contract is written over another representation (a renamed private field) - undecided, not a violation
            from .path import Obligation
            ctx.ex.record(Obligation(ctx.ex.label + "/" + label + "refines/state:%s.%s" % (cname, k), "undecided",
                                     detail="the object has no attribute %s after the call: the contract's view does not "
                                            "match the class's representation" % k))
            continue
        if k not in f1 or k not in f2:
            ctx.fail(label + "refines/state:%s.%s" % (cname, k),
                     detail="attribute %s %s" % (k, "missing after the call" if k not in f1 else "unexpectedly set"))
            continue
        ctx.prove(label + "refines/state:%s.%s" % (cname, k), values_equal(f1[k], f2[k]),
                  detail="final value of %s.%s differs from the specification" % (cname, k))


class UnitResult:
    def __init__(self, unit):
        self.unit = unit.name
        self.prop = unit.prop
        self.target = unit.target
        self.kind = unit.kind
        self.obligations = {}
        self.failed = []
        self.undecided = []
        self.paths = 0
        self.covers = 0
        self.queries = 0
        self.solver_s = 0.0
        self.wall_s = 0.0
        self.files = {}
        self.interpreted = []
        self.contracts_applied = []
        self.width = unit.width
        self.error = None
        self.log_calls = 0
        self.unknown_forks = 0
        self.unconfirmed_models = 0
        self.solver_rebuilds = 0
        self.loop_headers_seen = {}
        self.by_backend = {}
        self.cross_stats = {}
        self.witnesses = []

    def as_dict(self):
        return dict(self.__dict__)


def run_unit(unit):
    """explore all paths of one proof unit; returns a UnitResult (picklable dict form)."""
    t0 = time.time()
    res = UnitResult(unit)
    try:
        sym.set_width(unit.width)
        interp = Interp(ROOT, PACKAGE)
        for k in unit.use:
            if k not in CONTRACTS:
                raise KeyError("no contract registered for %s" % k)
            interp.contracts[k] = CONTRACTS[k]
        for k, v in unit.loops.items():
            interp.loop_specs[k] = v
        ex = Explorer(unit.name, timeout_ms=unit.timeout_ms, max_paths=unit.max_paths, logic=unit.logic,
                      quick_ms=unit.quick_ms)
        fn = resolve(unit.target) if unit.target else None
        if unit.kind == "refines":
            c = CONTRACTS.get(unit.target)
            spec = unit.spec or (c.spec if c else None)
            requires = unit.requires or (c.requires if c else None)
            ensures = unit.ensures or (c.ensures if c else [])
            if spec is None:
                raise KeyError("no spec for %s" % unit.target)

            def body(ctx):
                a1, k1 = _split_args(unit.builder(ctx))
                objs1 = ctx.objects
                ctx.objects = []
                a2, k2 = _split_args(unit.builder(ctx))
                objs2 = ctx.objects
                if requires is not None:
                    ctx.assume(requires(*a2, **k2))
                out_b = _run_body(interp, fn, a1, k1)
                ctx.require_mode = "assume"
                saved = interp.contracts
                out_s = _run_spec(spec, a2, k2)
                interp.contracts = saved
                ctx.cover()
                compare_outcomes(ctx, out_b, out_s, objs1, objs2, state_on_raise=unit.state_on_raise)
                for label, pred in ensures:
                    ctx.prove("ensures/" + label, pred(ctx, a1, out_b),
                              detail="postcondition %s" % label)
        elif unit.kind == "lemma":
            def body(ctx):
                ctx.require_mode = "prove"
                unit.lemma(ctx, interp)
                ctx.cover()
        elif unit.kind == "custom":
            def body(ctx):
                unit.runner(ctx, interp, fn)
        else:
            raise ValueError(unit.kind)
        ex.run(body)
        misfit = None
        if ex.relocated and ex.failed:
            # a loop specification written against one function was applied to a loop found elsewhere (the loop has
            # been moved).  If the specification is PROVED for the loop where it now stands (every inv-init / inv-keep /
            # variant obligation of it discharged, nothing undecided in the unit) and none of its roles is played by
            # state handed over by reference, it is as good as at home and failures stand.  Otherwise a failed
            # obligation may be a misfit of the specification as well as a defect: it is left undecided.
            for lname in ex.relocated:
                for oname, agg in ex.obligations.items():
                    if ("@" + lname) in oname and agg["status"] != "discharged":
                        misfit = "its obligation %s is not discharged" % oname.rsplit("/", 2)[-2 if oname.count("/") > 1 else -1]
                        break
            if misfit is None and ex.undecided:
                misfit = "the unit has undecided obligations (%s)" % ex.undecided[0].name.rsplit("/", 1)[-1]
            if misfit is None and ex.by_reference_roles:
                misfit = "loop-carried state is handed over by reference (%s)" % ", ".join(sorted(ex.by_reference_roles))
        if misfit is not None:
            note = "; ".join("loop specification %s applied at %s" % kv for kv in sorted(ex.relocated.items())) + "; " + misfit
            for ob in ex.failed:
                ob.status = "undecided"
                ob.detail = "not decided (%s): %s" % (note, ob.detail)
                ob.model = None
                ex.undecided.append(ob)
                if ob.name in ex.obligations:
                    ex.obligations[ob.name]["status"] = "undecided"
            ex.failed = []
        res.obligations = ex.obligations
        res.failed = [o.as_dict() for o in ex.failed]
        res.undecided = [o.as_dict() for o in ex.undecided]
        res.paths = ex.paths
        res.covers = ex.covers
        res.queries = ex.queries
        res.solver_s = ex.solver_s
        res.unknown_forks = ex.unknown_forks
        res.unconfirmed_models = getattr(ex, "unconfirmed_models", 0)
        res.solver_rebuilds = ex.solver_rebuilds
        res.loop_headers_seen = dict(interp.loop_headers_seen)
        res.by_backend = dict(ex.by_backend)
        res.cross_stats = dict(ex.cross_stats)
        res.witnesses = list(ex.witnesses)
        if ex.disagreements:
            res.error = "back ends disagree (z3: unsat, cvc5: sat) on: %s" % ", ".join(sorted(set(ex.disagreements))[:10])
        res.files = dict(interp.files)
        res.interpreted = sorted(interp.interpreted)
        res.contracts_applied = sorted(interp.contracts_applied)
        res.log_calls = interp.log_calls
        for lname in sorted(ex.loop_exit_wanted - ex.loop_exit_seen):
            res.undecided.append(Obligation(unit.name + "/vacuity/loop-exit@" + lname, "undecided",
                                            detail="no satisfiable state leaves the loop under its specification: what follows "
                                                   "the loop was not verified").as_dict())
        if ex.covers == 0 and not ex.failed and not ex.undecided:
            res.undecided.append(Obligation(unit.name + "/vacuity", "undecided",
                                            detail="no satisfiable path reached the end of the unit").as_dict())
    except BaseException as e:      # noqa: BLE001
        res.error = "%s: %s\n%s" % (type(e).__name__, e, traceback.format_exc())
    res.wall_s = time.time() - t0
    return res.as_dict()


# ----------------------------------------------------------------------------- stores to pre-existing state
def adjudicate_stores(prop, failed, undecided, obligations, extra, no_witness_text):
    """A store to an object that existed before the call and is not an argument (`<unit>/frame/*`, `pure:*`) shows that
    the function keeps state; whether that state can ever change a result is what the property is about.  When stores
    are the ONLY failures of a run and the check's bounded witness search (extra checks `<prop>/bounded/*`) found no
    history that changes a result, the proof does not go through but nothing is violated: undecided."""
    witness = [e for e in extra if e["name"].startswith(prop + "/bounded/") and e["status"] == "failed"]
    stores = [ob for ob in failed if "/frame/" in ob["name"] or "/pure:" in ob["name"]]
    others = [ob for ob in failed if ob not in stores and not ob["name"].startswith(prop + "/bounded/")]
    if witness or others or not stores:
        return
    for ob in stores:
        failed.remove(ob)
        ob["status"] = "undecided"
        ob["detail"] = "purity not established (%s), and %s" % (ob.get("detail") or "store to pre-existing state", no_witness_text)
        ob["model"] = None
        undecided.append(ob)
        if ob["name"] in obligations:
            obligations[ob["name"]]["status"] = "undecided"


# ----------------------------------------------------------------------------- native replay
def _native_call(fn, args, kwargs):
    try:
        return ("return", fn(*args, **kwargs))
    except Exception as e:      # noqa: BLE001
        return ("raise", type(e), e, "")


def describe(v, depth=0):
    if depth > 3:
        return "..."
    if isinstance(v, (int, str, bool, type(None), float)):
        return v
    if isinstance(v, (bytes, bytearray)):
        return v.hex()
    if isinstance(v, (list, tuple)):
        return [describe(x, depth + 1) for x in v]
    if isinstance(v, dict):
        return {str(k): describe(x, depth + 1) for k, x in v.items()}
    if isinstance(v, slice):
        return "slice(%r,%r,%r)" % (v.start, v.stop, v.step)
    if isinstance(v, type):
        return v.__name__
    if isinstance(v, BaseException):
        return "%s(%s)" % (type(v).__name__, v)
    if hasattr(v, "__dict__"):
        return {"<class>": type(v).__name__, **{k: describe(x, depth + 1) for k, x in vars(v).items()}}
    return repr(v)


def replay_refines(unit, model):
    """run the real function natively on the counter-model; compare with the spec natively."""
    sym.set_ctx(None)
    fn = resolve(unit.target)
    c = CONTRACTS.get(unit.target)
    spec = unit.spec or c.spec
    requires = unit.requires or (c.requires if c else None)
    n1 = NativeCtx(model)
    a1, k1 = _split_args(unit.builder(n1))
    n2 = NativeCtx(model)
    a2, k2 = _split_args(unit.builder(n2))
    info = {"unit": unit.name, "target": unit.target, "model": model,
            "arguments": describe(a1), "kwargs": describe(k1)}
    try:
        if requires is not None and not requires(*a2, **k2):
            info["reproduced"] = False
            info["note"] = "counter-model violates the precondition natively (model not realisable)"
            return info
        out_b = _native_call(fn, a1, k1)
        try:
            out_s = ("return", spec(*a2, **k2))
        except SpecRaise as s:
            out_s = ("raise", s.classes)
        except PreconditionFailed as p:
            info["reproduced"] = False
            info["note"] = "specification precondition %s not met by the counter-model" % (p,)
            return info
        info["real_outcome"] = [out_b[0], describe(out_b[1])]
        info["spec_outcome"] = [out_s[0], describe(out_s[1]) if out_s[0] == "return" else _name_of(out_s[1])]
        diff = []
        if out_s[0] == "return" and isinstance(out_s[1], Alternatives):
            okk = False
            for alt in out_s[1].alts:
                if alt[0] == "return" and out_b[0] == "return" and values_equal(out_b[1], alt[1]):
                    okk = True
                if alt[0] == "raise" and out_b[0] == "raise" and any(issubclass(out_b[1], k) for k in alt[1]):
                    okk = True
            info["spec_outcome"] = ["one-of", [a[0] for a in out_s[1].alts]]
            if not okk:
                diff.append("outcome is none of the allowed alternatives")
        elif out_b[0] != out_s[0]:
            diff.append("outcome kind: real %s vs spec %s" % (out_b[0], out_s[0]))
        elif out_b[0] == "return":
            if not values_equal(out_b[1], out_s[1]):
                diff.append("result differs")
        else:
            if not any(issubclass(out_b[1], k) for k in out_s[1]):
                diff.append("exception class differs")
        if (not diff or out_b[0] == out_s[0]) and (out_b[0] == "return" or unit.state_on_raise):
            for i, (o1, o2) in enumerate(zip(n1.objects, n2.objects)):
                if hasattr(o1, "__dict__"):
                    d1, d2 = vars(o1), vars(o2)
                    d1 = {k: v for k, v in d1.items() if k in d2 or not k.startswith("_")}     # (new private attributes: see compare_state)
                    if not values_equal(d1, d2):
                        diff.append("final state of input object #%d (%s) differs: real %r vs spec %r"
                                    % (i, type(o1).__name__, describe(vars(o1)), describe(vars(o2))))
        info["differences"] = diff
        info["reproduced"] = bool(diff)
    except Exception as e:      # noqa: BLE001
        info["reproduced"] = False
        info["note"] = "replay harness error: %s: %s" % (type(e).__name__, e)
    return info


class NativeInterp:
    """the interpreter's interface executed by CPython on real objects (replay of lemma/custom units)"""
    native = True

    def __init__(self):
        self.contracts = {}

    @staticmethod
    def _wrap(f, *a, **k):
        try:
            return f(*a, **k)
        except RaiseEx:
            raise
        except Exception as e:      # noqa: BLE001
            raise RaiseEx(e, "native")

    def call(self, f, args=(), kwargs=None):
        return self._wrap(f, *args, **(kwargs or {}))

    def call_repo_function(self, fn, args, kwargs, force_body=False):
        return self._wrap(fn, *args, **(kwargs or {}))

    def get_attr(self, o, name):
        return self._wrap(getattr, o, name)

    def set_attr(self, o, name, v):
        return self._wrap(setattr, o, name, v)

    def py_str(self, v):
        return self._wrap(str, v)

    def truth(self, v):
        return self._wrap(bool, v)

    def test(self, v):
        return self._wrap(bool, v)

    def fresh(self, c):
        return c

    def eq(self, a, b):
        return self._wrap(lambda: a == b)

    def contains(self, c, x):
        return self._wrap(lambda: x in c)

    def binop(self, op, a, b):
        from .interp import BINOPS
        return self._wrap(BINOPS[op], a, b)

    def subscript(self, o, k):
        return self._wrap(lambda: o[k])

    def store_subscript(self, o, k, v):
        def st():
            o[k] = v
        return self._wrap(st)

    def iterate(self, it):
        return self._wrap(list, it)

    def is_repo_class(self, cls):
        mod = getattr(cls, "__module__", "") or ""
        return mod == PACKAGE or mod.startswith(PACKAGE + ".")


def replay_custom(unit, model):
    """re-run a lemma / custom unit natively on the counter-model against the real code"""
    sym.set_ctx(None)
    n = NativeCtx(model)
    n.writes = []
    ni = NativeInterp()
    info = {"unit": unit.name, "target": unit.target, "model": model}
    try:
        if unit.kind == "lemma":
            unit.lemma(n, ni)
        else:
            fn = resolve(unit.target) if unit.target else None
            unit.runner(n, ni, fn)
    except PreconditionFailed as p:
        info["reproduced"] = False
        info["note"] = "counter-model does not satisfy the unit's assumptions natively: %s" % (p,)
        return info
    except RaiseEx as e:
        info["reproduced"] = True
        info["native_failures"] = [{"obligation": "uncaught exception", "detail": "%s: %s" % (e.cls.__name__, e.value)}]
        return info
    except Exception as e:      # noqa: BLE001
        info["reproduced"] = False
        info["note"] = "replay harness error: %s: %s" % (type(e).__name__, e)
        return info
    bad = [{"obligation": nm, "detail": d} for nm, ok, d in n.proved if not ok]
    info["native_obligations_evaluated"] = len(n.proved)
    info["native_failures"] = bad
    info["reproduced"] = bool(bad)
    return info
