"""Check driver: ./check <property-id> [--tier quick|thorough] [--replay file] [--unit substr]

exit 0: every obligation discharged (known findings are printed as KNOWN-FINDING lines)
exit 1: a violation (VIOLATION property=<id> replay=<path> [no-failing-input-found])
exit 2: undecided (solver unknown / construct outside the engine) - never a violation
exit 3: checker error
"""
import argparse
import hashlib
import importlib
import json
import multiprocessing as mp
import os
import re
import sys
import time
import traceback

HERE = os.path.dirname(os.path.dirname(os.path.abspath(__file__)))
sys.path.insert(0, HERE)

from pyvc import engine                     # noqa: E402
from pyvc.engine import run_unit            # noqa: E402

_UNITS = None
_MOD = None


def _load(prop, tier):
    engine.stub_missing_modules()
    mod = importlib.import_module("checks.%s" % prop.lower())
    return mod


def _worker(i):
    try:
        return i, run_unit(_UNITS[i])
    except BaseException as e:     # noqa: BLE001
        return i, {"unit": _UNITS[i].name, "error": "%s: %s\n%s" % (type(e).__name__, e, traceback.format_exc()),
                   "obligations": {}, "failed": [], "undecided": [], "paths": 0, "covers": 0, "queries": 0,
                   "solver_s": 0.0, "wall_s": 0.0, "files": {}, "interpreted": [], "contracts_applied": [],
                   "target": _UNITS[i].target, "kind": _UNITS[i].kind, "width": _UNITS[i].width,
                   "log_calls": 0, "unknown_forks": 0, "by_backend": {}, "cross_stats": {}, "witnesses": []}


def _witness_worker(job):
    """thorough tier: replay one satisfying witness of a fully discharged path natively (engine vs. CPython)"""
    i, model = job
    u = _UNITS[i]
    try:
        rep = getattr(_MOD, "replay", None)
        if u.kind == "refines":
            ri = engine.replay_refines(u, model)
        elif rep is not None:
            ri = rep(u, {"name": u.name, "model": model})
        else:
            ri = engine.replay_custom(u, model)
    except BaseException as e:     # noqa: BLE001
        ri = {"reproduced": False, "note": "replay error %s: %s" % (type(e).__name__, e)}
    return i, model, ri


def dependency_units(mod, prop, units, info):
    """modular verification: the proof units of `prop` use callee contracts (Unit(use=[...])); a change inside a callee
    shows only as a failure of that callee's own contract.  So the check of `prop` also re-verifies every contract it
    applies: the providing checks' proof units for exactly those keys, renamed <prop>/dep:<their name>."""
    import contracts.frame as CF
    out = []
    used = set(k for u in units for k in u.use)
    queue = list(getattr(mod, "DEPENDENCIES", []))
    seen = set()
    have = set()
    while queue:
        d = queue.pop(0)
        if d in seen or d == prop:
            continue
        seen.add(d)
        dm = importlib.import_module("checks.%s" % d.lower())
        wmax = CF.WMAX
        dunits = dm.units("quick")
        CF.WMAX = wmax
        if hasattr(dm, "provides"):
            sel = dm.provides(used, dunits)
        else:
            sel = [u for u in dunits if u.kind == "refines" and u.target in used]
        n = 0
        for u in sel:
            if u.name in have:
                continue
            have.add(u.name)
            used |= set(u.use)
            u.name = "%s/dep:%s" % (prop, u.name)
            u.prop = prop
            out.append(u)
            n += 1
        info[d] = n
        queue += list(getattr(dm, "DEPENDENCIES", []))
    # whole checks whose subject this property builds on without a callee contract in between (e.g. what the serial
    # receivers deliver, for the properties about what is done with the delivered items)
    for d in getattr(mod, "INCLUDES", []):
        if d in seen or d == prop:
            continue
        seen.add(d)
        dm = importlib.import_module("checks.%s" % d.lower())
        wmax = CF.WMAX
        dunits = dm.units("quick")
        CF.WMAX = wmax
        n = 0
        for u in dunits:
            if u.name in have or not u.name.startswith(d + "/"):
                continue
            have.add(u.name)
            u.name = "%s/dep:%s" % (prop, u.name)
            u.prop = prop
            out.append(u)
            n += 1
        info[d] = n
    return out


def _lockable(name):
    """only obligations that state something about the property are pinned; side conditions whose presence depends on how
    the code happens to be written (a callee's precondition at a call site, absence of overflow, stores) may come and go
    with harmless refactors"""
    return "/pre@" not in name and not name.endswith("/no-overflow") and "/frame/" not in name


def _group_names(names, unit_names):
    """obligation names grouped by the proof unit they belong to (longest unit-name prefix)"""
    units = sorted(unit_names, key=len, reverse=True)
    out = {}
    for n in names:
        u = next((x for x in units if n.startswith(x + "/")), "")
        out.setdefault(u, []).append(n[len(u):])
    return out


def sanitize(name):
    return re.sub(r"[^A-Za-z0-9_.@:+-]+", "_", name)[:150]


def load_known():
    p = os.path.join(HERE, "known_findings.json")
    if not os.path.exists(p):
        return []
    return json.load(open(p)).get("findings", [])


def match_known(known, prop, ob):
    """a known finding names the failing obligation (glob-free exact name or prefix ending in '*')
    and optionally pins model values; anything else is a new violation."""
    for k in known:
        if k.get("status") != "known" or k.get("property") != prop:
            continue
        pat = k.get("obligation", "")
        name = ob["name"]
        ok = name == pat or (pat.endswith("*") and name.startswith(pat[:-1]))
        if not ok:
            continue
        where = k.get("where") or {}
        model = ob.get("model") or {}
        if all(model.get(n) == v for n, v in where.items()):
            return k
    return None


def main(argv=None):
    global _UNITS, _MOD
    ap = argparse.ArgumentParser()
    ap.add_argument("prop")
    ap.add_argument("--tier", default=os.environ.get("VERIF_TIER", "quick"))
    ap.add_argument("--replay")
    ap.add_argument("--unit", default=None, help="only units whose name contains this text")
    ap.add_argument("--jobs", type=int, default=int(os.environ.get("VERIF_JOBS", "16")))
    ap.add_argument("--no-evidence", action="store_true")
    ap.add_argument("--no-deps", action="store_true", help="do not re-verify the callee contracts this property relies on")
    ap.add_argument("--write-lock", action="store_true", help="record this run's obligation names in obligations.lock.json")
    ap.add_argument("-v", "--verbose", action="store_true")
    args = ap.parse_args(argv)
    prop = args.prop.upper()
    tier = "thorough" if args.tier.startswith("t") else "quick"
    seed = int(os.environ.get("VERIF_SEED", "0") or 0)
    t0 = time.time()
    try:
        origin = engine.assert_repo_origin()
        mod = _load(prop, tier)
        if args.replay:
            return replay_file(mod, args.replay)
        _MOD = mod
        if tier == "thorough":
            os.environ.setdefault("PYVC_CROSS", "1")
            os.environ.setdefault("PYVC_WITNESSES", "1")
        units = mod.units(tier)
        dep_info = {}
        if not args.no_deps:
            units = units + dependency_units(mod, prop, units, dep_info)
        args.dep_info = dep_info
        if args.unit:
            units = [u for u in units if args.unit in u.name]
        _UNITS = units
        results = [None] * len(units)
        if args.jobs > 1 and len(units) > 1:
            ctxmp = mp.get_context("fork")
            with ctxmp.Pool(min(args.jobs, len(units))) as pool:
                for i, r in pool.imap_unordered(_worker, range(len(units))):
                    results[i] = r
                    if args.verbose:
                        print("  unit %-60s paths=%-5d wall=%.1fs %s" % (r["unit"], r["paths"], r["wall_s"],
                              "ERROR" if r.get("error") else ""), flush=True)
        else:
            for i in range(len(units)):
                results[i] = _worker(i)[1]
                if args.verbose:
                    r = results[i]
                    print("  unit %-60s paths=%-5d wall=%.1fs %s" % (r["unit"], r["paths"], r["wall_s"],
                          "ERROR" if r.get("error") else ""), flush=True)
        extra = []
        if hasattr(mod, "extra_checks"):
            extra = mod.extra_checks(tier, seed)
        # engine vs. CPython: replay the witnesses of discharged paths on the real code
        xcheck = {"witnesses_replayed": 0, "agree": 0, "not_replayable": 0, "disagree": []}
        jobs = [(i, w) for i, r in enumerate(results) for w in (r.get("witnesses") or [])]
        if jobs:
            ctxmp = mp.get_context("fork")
            with ctxmp.Pool(min(args.jobs, max(1, len(jobs)))) as pool:
                for i, model, ri in pool.imap_unordered(_witness_worker, jobs, chunksize=4):
                    xcheck["witnesses_replayed"] += 1
                    if ri.get("reproduced"):
                        xcheck["disagree"].append({"unit": units[i].name, "model": model, "native": ri})
                    elif ri.get("native_obligations_evaluated") == 0 and not ri.get("note"):
                        xcheck["nothing_to_check"] = xcheck.get("nothing_to_check", 0) + 1
                    elif ri.get("note"):
                        xcheck["not_replayable"] += 1
                        why = "%s: %s" % (units[i].name.split("/")[1] if "/" in units[i].name else units[i].name,
                                          (ri.get("note") or "")[:160])
                        xcheck.setdefault("not_replayable_reasons", {})
                        xcheck["not_replayable_reasons"][why] = xcheck["not_replayable_reasons"].get(why, 0) + 1
                    else:
                        xcheck["agree"] += 1
        args.xcheck = xcheck
    except BaseException as e:     # noqa: BLE001
        print("CHECKER-ERROR %s: %s" % (type(e).__name__, e))
        traceback.print_exc()
        return 3
    return report(mod, prop, tier, seed, units, results, extra, t0, origin, args)


def report(mod, prop, tier, seed, units, results, extra, t0, origin, args):
    known = load_known()
    errors = [r for r in results if r.get("error")]
    obligations = {}
    failed, undecided = [], []
    files = {}
    interpreted, applied = set(), set()
    paths = covers = queries = 0
    solver_s = 0.0
    by_backend = {}
    cross_stats = {}
    for r in results:
        for k, v in (r.get("cross_stats") or {}).items():
            cross_stats[k] = cross_stats.get(k, 0) + v
        for name, agg in r["obligations"].items():
            o = obligations.setdefault(name, {"checks": 0, "status": "discharged", "seconds": 0.0})
            o["checks"] += agg["checks"]
            o["seconds"] += agg["seconds"]
            if agg["status"] == "failed" or (agg["status"] == "undecided" and o["status"] != "failed"):
                o["status"] = agg["status"]
        failed.extend(r["failed"])
        undecided.extend(r["undecided"])
        files.update(r["files"])
        interpreted.update(r["interpreted"])
        applied.update(r["contracts_applied"])
        paths += r["paths"]
        covers += r["covers"]
        queries += r["queries"]
        solver_s += r["solver_s"]
        for k, v in (r.get("by_backend") or {}).items():
            by_backend[k] = by_backend.get(k, 0) + v
    # extra (exhaustive / bounded) checks contribute obligations too
    extra_summ = []
    for e in extra:
        o = obligations.setdefault(e["name"], {"checks": 0, "status": "discharged", "seconds": 0.0})
        o["checks"] += e.get("cases", 1)
        o["seconds"] += e.get("seconds", 0.0)
        o["kind"] = e.get("kind", "exhaustive")
        if e["status"] != "discharged":
            o["status"] = e["status"]
            (failed if e["status"] == "failed" else undecided).append(
                {"name": e["name"], "status": e["status"], "detail": e.get("detail"), "model": e.get("witness"),
                 "seconds": e.get("seconds", 0.0), "path": None, "backend": e.get("kind", "exhaustive"),
                 "native": True, "replay": e.get("replay")})
        extra_summ.append({k: e[k] for k in e if k not in ("replay",)})

    # ---- a check may weigh its own obligations against each other (a sufficient condition that failed, next to a
    # witness search that found nothing, is undecided - not a violation)
    if hasattr(mod, "adjudicate"):
        mod.adjudicate(failed, undecided, obligations, extra)
    else:
        engine.adjudicate_stores(prop, failed, undecided, obligations, extra,
                                 "no other obligation of the property fails (keeping state is not by itself a violation of it)")

    # ---- replay failures, classify against known findings
    unit_by_name = {u.name: u for u in units}
    violations = []
    known_hits = []
    rdir = os.path.join(os.environ.get("PYVC_REPLAY_DIR") or os.path.join(HERE, "replays"), prop)
    if os.path.isdir(rdir):
        for fn in os.listdir(rdir):
            os.unlink(os.path.join(rdir, fn))
    seen = set()
    per_name = {}
    for ob in failed:
        key = (ob["name"], json.dumps(ob.get("model"), sort_keys=True, default=str))
        if key in seen:
            continue
        seen.add(key)
        per_name[ob["name"]] = per_name.get(ob["name"], 0) + 1
        if per_name[ob["name"]] > 2:
            continue            # two counter-models per obligation are kept and replayed
        k = match_known(known, prop, ob)
        if k is not None:
            known_hits.append((k, ob))
            continue
        os.makedirs(rdir, exist_ok=True)
        uname = max((u for u in unit_by_name if ob["name"].startswith(u + "/")), key=len, default=None)
        info = {"property": prop, "obligation": ob["name"], "detail": ob.get("detail"),
                "solver_model": ob.get("model"), "path": ob.get("path"), "backend": ob.get("backend")}
        reproduced = False
        if ob.get("native"):
            info["replay"] = ob.get("replay")
            reproduced = True
        elif uname is not None and ob.get("model") is not None:
            u = unit_by_name[uname]
            try:
                rep = getattr(mod, "replay", None)
                if u.kind == "refines":
                    ri = engine.replay_refines(u, ob["model"])
                elif rep is not None:
                    ri = rep(u, ob)
                else:
                    ri = engine.replay_custom(u, ob["model"])
            except BaseException as e:     # noqa: BLE001
                ri = {"reproduced": False, "note": "replay error %s: %s" % (type(e).__name__, e)}
            info["native_replay"] = ri
            reproduced = bool(ri.get("reproduced"))
        info["reproduced_on_real_code"] = reproduced
        path = os.path.join(rdir, sanitize(ob["name"]) + "-" + hashlib.sha1(key[1].encode()).hexdigest()[:8] + ".json")
        json.dump(info, open(path, "w"), indent=1, default=str)
        violations.append((ob, path, reproduced))

    # de-duplicate violation lines per obligation name (first model kept)
    printed = set()
    for ob, path, reproduced in violations:
        if ob["name"] in printed:
            continue
        printed.add(ob["name"])
        print("FAILED-OBLIGATION %s : %s" % (ob["name"], ob.get("detail") or ""))
        print("VIOLATION property=%s replay=%s%s" % (prop, path, "" if reproduced else " no-failing-input-found"))
    shown = set()
    for k, ob in known_hits:
        if k["id"] in shown:
            continue
        shown.add(k["id"])
        print("KNOWN-FINDING: property=%s %s" % (prop, k["what"]))
    und_names = sorted({o["name"] for o in undecided})
    for n in und_names[:40]:
        d = next(o for o in undecided if o["name"] == n)
        print("UNDECIDED %s : %s" % (n, (d.get("detail") or "")[:300]))
    for r in errors:
        print("CHECKER-ERROR in unit %s:\n%s" % (r["unit"], r["error"]))
    xdis = (getattr(args, "xcheck", None) or {}).get("disagree") or []
    for d in xdis[:10]:
        print("CHECKER-ERROR engine and CPython disagree: unit %s, every obligation of the path was discharged but the "
              "native run on witness %s differs: %s" % (d["unit"], json.dumps(d["model"], default=str)[:300],
                                                        json.dumps(d["native"], default=str)[:600]))

    # ---- obligation lock: a name generated on the pinned tree must still be generated (else: undecided, not a pass)
    lock_path = os.path.join(HERE, "obligations.lock.json")
    lock = json.load(open(lock_path)) if os.path.exists(lock_path) else {}
    lkey = "%s/%s" % (prop, tier)
    lost = []
    if not args.unit and not args.no_deps:
        if args.write_lock:
            if failed or undecided or errors:
                print("CHECKER-ERROR: refusing to write the obligation lock from a run that is not clean")
                return 3
            lock[lkey] = _group_names(sorted(n for n in obligations if _lockable(n)), [u.name for u in units])
            json.dump(lock, open(lock_path, "w"), indent=0, sort_keys=True)
            # the headers of the loops the loop specifications are written against
            hp = os.path.join(HERE, "loop_headers.lock.json")
            heads = json.load(open(hp)) if os.path.exists(hp) else {}
            for r in results:
                heads.update(r.get("loop_headers_seen") or {})
            json.dump(heads, open(hp, "w"), indent=1, sort_keys=True)
        elif lkey in lock:
            have = set(obligations)
            for uname, suffixes in lock[lkey].items():
                for sfx in suffixes:
                    full = uname + sfx
                    if full not in have:
                        lost.append(full)
            for n in lost[:40]:
                print("UNDECIDED %s : an obligation of the pinned tree was not generated on this tree (the code it is about "
                      "has become unreachable for the proof unit, or a unit lost paths)" % n)
            und_names = und_names + lost

    n_ob = len(obligations)
    n_dis = sum(1 for o in obligations.values() if o["status"] == "discharged")
    wall = time.time() - t0
    meta = getattr(mod, "META", {})
    samples = []
    for name in sorted(obligations)[:: max(1, len(obligations) // 12)][:12]:
        samples.append({"obligation": name, **{k: (round(v, 4) if isinstance(v, float) else v)
                                               for k, v in obligations[name].items()}})
    level = meta.get("level", "proof")
    import z3
    # obligations of bounded stand-ins (units named *-bounded/*, extra checks of kind bounded-*) decide an instance of the
    # property up to a stated bound: they are listed apart and are NOT part of what is claimed as proved
    bounded_names = [n for n in obligations if "-bounded/" in n or "/bounded/" in n]
    coverage = {
        "obligations": n_ob,
        "discharged": n_dis,
        "of_which_bounded_stand_ins_not_counted_as_proved": {
            "obligations": len(bounded_names),
            "discharged": sum(1 for n in bounded_names if obligations[n]["status"] == "discharged")},
        "checker_cmd": "./check %s --tier %s" % (prop, tier),
        "trusted_base": meta.get("trusted_base", []) + [
            "pyvc (this VC generator: symbolic AST interpreter, builtin models, contract application)",
            "z3 %s (incremental QF_BV, then fresh qfbv tactic); cvc5 CLI as fallback on unknown" % z3.get_version_string(),
            "CPython's execution of the package's metaclasses at import (live registries are read, not re-derived)",
        ],
        "samples": samples,
        "functions_under_contract": sorted({u.target for u in units if u.target}),
        "function_bodies_interpreted": sorted(interpreted),
        "callee_contracts_applied_at_call_sites": sorted(applied),
        "proof_units": len(units),
        "callee_contracts_reverified_from": getattr(args, "dep_info", {}),
        "paths": paths,
        "vacuity": {"paths_with_sat_witness": covers,
                    "units_without_any_sat_path": [r["unit"] for r in results if r["covers"] == 0 and r["kind"] != "none"]},
        "solver_queries": queries,
        "solver_s": round(solver_s, 2),
        "by_backend": by_backend,
        "solver_robustness": {
            "forks_with_an_undecided_side_explored_as_feasible": sum(r.get("unknown_forks", 0) for r in results),
            "counter_models_rejected_on_validation": sum(r.get("unconfirmed_models", 0) for r in results),
            "incremental_solver_replaced_after_a_timeout": sum(r.get("solver_rebuilds", 0) for r in results),
            "note": "every replayed decision is asserted; a re-execution that meets a decision at another site than "
                    "recorded makes the unit undecided; a counter-model is believed only when it satisfies the path "
                    "condition and the negated goal, otherwise a fresh solver decides"},
        "second_backend_cvc5": cross_stats,
        "cpython_cross_check": {k: (v if k != "disagree" else v[:5]) for k, v in (getattr(args, "xcheck", None) or {}).items()},
        "files": {k: "sha256:" + v for k, v in sorted(files.items())},
        "package_origin": origin,
        "int_model_bits": sorted({r["width"] for r in results}),
        "dropped_by_interpretation": ["docstrings", "comments", "type annotations",
                                      "effect of logging calls (arguments still evaluated)"],
        "bounds": meta.get("bounds", {}),
        "extra_checks": extra_summ,
        "failed_obligations": sorted({o["name"] for o in failed}),
        "undecided_obligations": und_names,
        "known_findings_hit": sorted(shown),
        "obligation_lock": {"locked_names": sum(len(v) for v in lock.get(lkey, {}).values()), "lost": lost[:50]},
        "not_decided_by_this_check": meta.get("undecided_clauses", []),
        "explanation": meta.get("explanation", ""),
    }
    if extra:
        coverage["evaluations"] = sum(e.get("cases", 0) for e in extra)
    evidence = {
        "property_id": prop, "tier": tier, "seed": seed, "level": level,
        "coverage": coverage,
        "assumptions": meta.get("assumptions", []),
        "wall_s": round(wall, 2),
        "violations": len(printed),
    }
    if not args.no_evidence and not args.unit:
        os.makedirs(os.path.join(HERE, "evidence"), exist_ok=True)
        json.dump(evidence, open(os.path.join(HERE, "evidence", prop + ".json"), "w"), indent=1, default=str)
    xc = getattr(args, "xcheck", None) or {}
    extra_txt = ""
    if xc.get("witnesses_replayed"):
        extra_txt += " cpython-xcheck=%d/%d agree (%d not replayable)" % (xc["agree"], xc["witnesses_replayed"], xc["not_replayable"])
    if cross_stats.get("rechecked"):
        extra_txt += " cvc5=%d/%d agree" % (cross_stats["agreed"], cross_stats["rechecked"])
    print("%s tier=%s units=%d paths=%d obligations=%d discharged=%d failed=%d undecided=%d known=%d wall=%.1fs solver=%.1fs%s"
          % (prop, tier, len(units), paths, n_ob, n_dis, len(printed), len(und_names), len(shown), wall, solver_s, extra_txt))
    if printed:
        return 1            # a violation stands even if another proof unit could not be run
    if errors or xdis:
        return 3
    if und_names:
        return 2
    if n_ob == 0:
        print("CHECKER-ERROR: zero obligations generated")
        return 3
    return 0


def replay_file(mod, path):
    info = json.load(open(path))
    units = {u.name: u for u in mod.units("quick")}
    uname = max((u for u in units if info["obligation"].startswith(u + "/")), key=len, default=None)
    if uname is None or info.get("solver_model") is None:
        print(json.dumps(info, indent=1))
        return 0
    u = units[uname]
    if u.kind == "refines":
        ri = engine.replay_refines(u, info["solver_model"])
    elif hasattr(mod, "replay"):
        ri = mod.replay(u, {"name": info["obligation"], "model": info["solver_model"]})
    else:
        ri = engine.replay_custom(u, info["solver_model"])
    print(json.dumps(ri, indent=1, default=str))
    return 1 if ri.get("reproduced") else 0


if __name__ == "__main__":
    sys.exit(main())
