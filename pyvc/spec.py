"""Polymorphic helpers for contracts, spec functions and unit models.

Everything here works on plain Python values (native replay) and on symbolic
proxies (proof)."""
import z3
from . import sym
from .sym import SInt, SBool, is_intlike, is_sym, to_bv, mk_bool, mk_int, Unsupported


def _b(x):
    """z3 Bool of a truth value that must already be bool-like."""
    if isinstance(x, SBool):
        return x.e
    if isinstance(x, bool):
        return z3.BoolVal(x)
    if isinstance(x, SInt):
        return x.e != to_bv(0)
    if isinstance(x, int):
        return z3.BoolVal(x != 0)
    if x is None:
        return z3.BoolVal(False)
    raise Unsupported("truth value of %r in a specification" % (type(x),))


def And(*xs):
    if len(xs) == 1 and isinstance(xs[0], (list, tuple)):
        xs = tuple(xs[0])
    out = []
    for x in xs:
        if isinstance(x, SBool):
            out.append(x.e)
        elif isinstance(x, SInt):
            out.append(_b(x))
        elif not x:
            return False
    if not out:
        return True
    return mk_bool(z3.simplify(z3.And(*out)) if len(out) > 1 else out[0])


def Or(*xs):
    if len(xs) == 1 and isinstance(xs[0], (list, tuple)):
        xs = tuple(xs[0])
    out = []
    for x in xs:
        if isinstance(x, SBool):
            out.append(x.e)
        elif isinstance(x, SInt):
            out.append(_b(x))
        elif x:
            return True
    if not out:
        return False
    return mk_bool(z3.simplify(z3.Or(*out)) if len(out) > 1 else out[0])


def Not(x):
    if isinstance(x, (SBool, SInt)):
        return mk_bool(z3.simplify(z3.Not(_b(x))))
    return not x


def Implies(a, b):
    return Or(Not(a), b)


def Iff(a, b):
    return And(Implies(a, b), Implies(b, a))


def ite(c, a, b):
    """value-level if-then-else without forking (ints and bools only when symbolic)."""
    if not is_sym(c):
        return a if c else b
    if a is b:
        return a
    ce = _b(c)
    if is_boolish(a) and is_boolish(b):
        return mk_bool(z3.simplify(z3.If(ce, _b(a), _b(b))))
    if is_intlike(a) and is_intlike(b):
        return mk_int(z3.simplify(z3.If(ce, to_bv(a), to_bv(b))))
    # non-mergeable shapes: fork
    return a if c else b


def is_boolish(x):
    return isinstance(x, (bool, SBool))


def is_int(x):
    """Python's isinstance(x, int)."""
    return is_intlike(x)


def is_bool(x):
    return isinstance(x, (bool, SBool))


def pow2(n):
    """2**n for n >= 0 (a negative n is reported as leaving the integer model)."""
    if is_sym(n):
        return SInt(to_bv(1)).shl_total(n)
    return 1 << n


def shl(a, n):
    if is_sym(n) or is_sym(a):
        return SInt(to_bv(a)).shl_total(n)
    return a << n


def bit(x, i):
    """bit i of non-negative int x as a bool."""
    return ((x >> i) & 1) != 0


def eq(a, b):
    """structural equality of spec-level values as a truth value (no forking)."""
    from .values import values_equal
    return values_equal(a, b)


def smin(a, b):
    """min(a, b) as CPython computes it: the FIRST minimal argument (matters natively when True meets 1)"""
    return ite(b < a, b, a)


def smax(a, b):
    """max(a, b) as CPython computes it: the FIRST maximal argument"""
    return ite(b > a, b, a)


# ---- context-directed operations -------------------------------------------

def require(cond, label="pre"):
    """Precondition: assumed when the function is verified, an obligation at call sites."""
    c = sym.ctx()
    if c is None:
        if not cond:
            raise PreconditionFailed(label)
        return
    c.require(cond, label)


def assume(cond):
    c = sym.ctx()
    if c is None:
        if not cond:
            raise PreconditionFailed("assume")
        return
    c.assume(cond)


class PreconditionFailed(Exception):
    pass


class SpecRaise(Exception):
    """A spec function says: the real function raises one of these classes."""

    def __init__(self, *classes):
        self.classes = classes
        super().__init__(classes)


def throw(*classes):
    raise SpecRaise(*classes)


class AnyOf:
    """Under-specified result: any value of the given Python type(s) (content not modelled)."""

    def __init__(self, *types):
        self.types = types

    def __repr__(self):
        return "AnyOf(%s)" % ",".join(t.__name__ for t in self.types)


ANY_STR = AnyOf(str)


def concretize(x, what="shape"):
    """case analysis on every feasible value of a symbolic int (complete enumeration)."""
    c = sym.ctx()
    if c is None or not is_sym(x):
        return x
    return c.choose_int(x, what)


def new_object(cls, **fields):
    """a fresh instance of cls with exactly these attributes (no constructor is run)."""
    from .values import SObj, canonical, canon_entry
    c = sym.ctx()
    if c is None:
        o = cls.__new__(cls)
        for k, v in fields.items():
            object.__setattr__(o, k, v)
        return canonical_native(o)
    o = SObj(cls, fields, fresh=True)
    from .path import RaiseEx, Infeasible
    try:
        return canonical(o)
    except RaiseEx:
        raise Infeasible()


def canonical_native(o):
    """native replay: rebuild registered classes through their real constructor"""
    from .values import canon_entry
    ent = canon_entry(type(o))
    if ent is None or any(f not in vars(o) for f in ent[1]):
        return o
    from .engine import NativeInterp
    return ent[2](NativeInterp(), type(o), {f: vars(o)[f] for f in ent[1]})


def is_instance(x, cls):
    from .values import class_of
    return issubclass(class_of(x), cls)


def type_of(x):
    from .values import class_of
    return class_of(x)


def seq_items(data):
    from .values import SBytes
    if isinstance(data, SBytes):
        return list(data.items)
    return list(data)


def is_seq_of_ints(data):
    from .values import SBytes
    if isinstance(data, (bytes, bytearray, SBytes)):
        return True
    if isinstance(data, (list, tuple)):
        return all(is_intlike(x) for x in data)
    return False


def const_true(*a, **k):
    return True


def fork(cond):
    """explicit case split (same as `if cond:` but usable in expressions)"""
    return bool(cond)


class Alternatives:
    """under-specified outcome: the real function may do any one of these.
    each alternative is ("return", value) or ("raise", (ExcClass, ...))"""

    def __init__(self, *alts):
        self.alts = list(alts)
