"""Running a command sequence (generator function) against a bus-unit model.

Symbolic mode: `r = yield X` is executed by the interpreter as r = harness.on_yield(X).
Native mode (replay): the real generator is driven with the same model on concrete values."""
from . import sym
from .path import RaiseEx
from .spec import new_object, type_of, is_instance
from dali import frame as F
from dali import sequences as S
from dali import command as C


def answer_frame(value, garbled=False):
    if garbled:
        return new_object(F.BackwardFrameError, _bits=8, _data=value, _error=True)
    return new_object(F.BackwardFrame, _bits=8, _data=value, _error=False)


class Harness:
    """model.step(cmd) -> None (no backward frame) | int value | ("garbled", value)"""

    def __init__(self, ctx, interp, model, fault_budget=0, max_yields=2000):
        self.ctx = ctx
        self.interp = interp
        self.model = model
        self.trace = []         # commands yielded unconditionally on this path (objects)
        self.ctrace = []        # (condition, command): yields merged by if-conversion
        self.notes = []         # progress / sleep objects
        self.fault_budget = fault_budget
        self.faults = []        # (index in trace, kind)
        self.max_yields = max_yields

    def respond(self, cmd, ans):
        rc = self.interp.get_attr(cmd, "response")
        if rc is None:
            return None
        if ans is None:
            raw = None
        elif isinstance(ans, tuple):
            raw = answer_frame(ans[1], garbled=True)
        else:
            raw = answer_frame(ans)
        return self.interp.call(rc, (raw,), {})

    def inject(self, cmd, ans):
        """fault layer: any single answer may be replaced by silence or by a framing-error frame"""
        if self.fault_budget <= 0:
            return ans
        if self.interp.get_attr(cmd, "response") is None:
            return ans
        k = len(self.trace)
        if self.ctx.fresh_bool("fault_silence"):
            self.fault_budget -= 1
            self.faults.append((k, "silence"))
            return None
        if self.ctx.fresh_bool("fault_garble"):
            self.fault_budget -= 1
            self.faults.append((k, "garbled"))
            v = ans if isinstance(ans, int) or sym.is_sym(ans) else (ans[1] if isinstance(ans, tuple) else 0)
            return ("garbled", v)
        return ans

    def on_yield(self, x, guard=None):
        if is_instance(x, (S.progress, S.sleep)) or not is_instance(x, C.Command):
            self.notes.append(x)
            return None
        if guard is not None:
            return self.on_guarded_yield(x, guard)
        if len(self.trace) >= self.max_yields:
            from .sym import Unsupported
            raise Unsupported("sequence yielded more than %d commands" % self.max_yields)
        ans = self.model.step(x)
        ans = self.inject(x, ans)
        self.trace.append(x)
        return self.respond(x, ans)

    def on_guarded_yield(self, x, guard):
        """`if c: yield X` without forking: the unit's state becomes ite(c, state after X, state before)"""
        from .spec import ite
        if self.interp.get_attr(x, "response") is not None:
            if self.interp.test(guard):
                return self.on_yield(x)
            return None
        before = snapshot_model(self.model)
        ans = self.model.step(x)
        merge_model(self.model, before, guard)
        self.ctrace.append((guard, x))
        return None

    def count(self, *classes):
        """number of yielded commands of the given classes (symbolic when yields were conditional)"""
        from .spec import ite
        n = 0
        for c in self.trace:
            if type_of(c) in classes:
                n = n + 1
        for g, c in self.ctrace:
            if type_of(c) in classes:
                n = n + ite(g, 1, 0)
        return n

    def run(self, fn, *args, **kwargs):
        """-> ("return", value) | ("raise", class, exception object)"""
        if getattr(self.ctx, "native", False):
            return self.run_native(fn, args, kwargs)
        old = self.interp.yield_handler
        self.interp.yield_handler = self.on_yield
        try:
            v = self.interp.call_repo_function(fn, args, kwargs, force_body=True)
            from .values import GenObj
            if isinstance(v, GenObj):
                # a plain function that returns another sequence's generator object
                v = self.interp.run_generator_inline(v)
            return ("return", v)
        except RaiseEx as e:
            return ("raise", e.cls, e.value, e.where)
        finally:
            self.interp.yield_handler = old

    def run_native(self, fn, args, kwargs):
        try:
            g = fn(*args, **kwargs)
            r = None
            started = False
            while True:
                try:
                    x = g.send(r) if started else next(g)
                    started = True
                except StopIteration as s:
                    return ("return", s.value)
                r = self.on_yield(x)
        except RaiseEx as e:
            return ("raise", e.cls, e.value, e.where)
        except Exception as e:      # noqa: BLE001
            return ("raise", type(e), e, "native")


def snapshot_model(m):
    out = {}
    for k, v in vars(m).items():
        if isinstance(v, list):
            out[k] = list(v)
        elif isinstance(v, dict):
            out[k] = dict(v)
        else:
            out[k] = v
    return out


def _merge_value(g, new, old, what):
    from .spec import ite
    from .sym import Unsupported, is_intlike
    if new is old:
        return old
    if isinstance(new, (bool, sym.SBool)) and isinstance(old, (bool, sym.SBool)):
        return ite(g, new, old)
    if is_intlike(new) and is_intlike(old):
        return ite(g, new, old)
    if isinstance(new, list) and isinstance(old, list) and len(new) == len(old):
        return [_merge_value(g, a, b, what) for a, b in zip(new, old)]
    if isinstance(new, dict) and isinstance(old, dict) and set(new) == set(old):
        return {k: _merge_value(g, new[k], old[k], what) for k in new}
    try:
        if new == old:
            return old
    except Exception:       # noqa: BLE001
        pass
    raise Unsupported("conditional update of unit-model field %s" % what)


def merge_model(m, before, guard):
    for k, v in list(vars(m).items()):
        if k not in before:
            raise sym.Unsupported("unit model gained field %s under a condition" % k)
        setattr(m, k, _merge_value(guard, v, before[k], k))
