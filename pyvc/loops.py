"""Loop rule: a loop with a sidecar specification is replaced by
   (1) initiation: the invariant holds on entry;
   (2) one arbitrary iteration from an arbitrary state satisfying the invariant, after which the invariant is
       re-established (this path then ends);
   (3) the exit state: an arbitrary state satisfying the invariant with the loop finished.
Specifications are keyed by (function key, loop ordinal) so that renaming locals does not disturb them."""
import ast
from . import sym
from .sym import Unsupported
from .path import PathEnd
from .models import SRange


class LoopCtx:
    def __init__(self, ctx, interp, env, spec):
        self.ctx = ctx
        self.interp = interp
        self.env = env
        self.spec = spec
        self.k = None           # iteration index: elements with index < k are done
        self.lo = None
        self.hi = None
        self.elems = None       # concrete element list, or None for a symbolic range
        self.ghost = {}
        self.phase = "init"

    def elem(self, k):
        if self.elems is None:
            return k
        if list(self.elems) == list(range(len(self.elems))) and self.lo == 0:
            return k
        from .models import _select
        return _select(self.interp, list(self.elems), k - self.lo)


class LoopSpec:
    def __init__(self, name, invariant, havoc, ghost_init=None, variant=None):
        self.name = name
        self.invariant = invariant      # lc -> condition
        self.havoc = havoc              # lc -> None (puts loop-modified state into an arbitrary state)
        self.ghost_init = ghost_init    # lc -> None, run once before initiation
        self.variant = variant          # lc -> int expression decreasing on every iteration (while loops)

    def execute(self, interp, s, env):
        from .interp import BreakEx, ContinueEx
        ctx = sym.ctx()
        lc = LoopCtx(ctx, interp, env, self)
        is_for = isinstance(s, ast.For)
        if is_for:
            it = interp.ev(s.iter, env)
            if isinstance(it, SRange):
                lc.lo, lc.hi = it.start, it.stop
            else:
                lc.elems = interp.iterate(it)
                if any(sym.is_sym(x) for x in lc.elems) and False:
                    raise Unsupported("loop rule over a list with symbolic elements")
                lc.lo, lc.hi = 0, len(lc.elems)
        if self.ghost_init is not None:
            self.ghost_init(lc)
        lc.k = lc.lo
        ctx.prove("inv-init@%s" % self.name, self.invariant(lc), detail="loop invariant does not hold on entry")
        if ctx.fork(ctx.fresh_bool("loop_step@%s" % self.name).e):
            # ---- an arbitrary iteration
            lc.phase = "step"
            if is_for:
                k = ctx.fresh_int("k@%s" % self.name)
                lc.k = k
                ctx.assume(k >= lc.lo)
                ctx.assume(k < lc.hi)
            self.havoc(lc)
            ctx.assume(self.invariant(lc))
            if is_for:
                interp.assign(s.target, lc.elem(lc.k), env)
            else:
                if not interp.test(interp.ev(s.test, env)):
                    raise PathEnd()       # covered by the exit path
                v0 = self.variant(lc) if self.variant else None
            try:
                interp.exec_block(s.body, env)
            except ContinueEx:
                pass
            except BreakEx:
                return                    # leaves the loop from a reachable (over-approximated) state
            if is_for:
                lc.k = lc.k + 1
            lc.phase = "keep"
            ctx.cover()         # vacuity guard: an arbitrary iteration is executable
            ctx.prove("inv-keep@%s" % self.name, self.invariant(lc),
                      detail="loop invariant not re-established by an arbitrary iteration")
            if not is_for and self.variant:
                v1 = self.variant(lc)
                ctx.prove("variant@%s" % self.name, (v1 < v0) & (v0 >= 0) if sym.is_sym(v1 < v0) else (v1 < v0 and v0 >= 0),
                          detail="loop variant does not decrease")
            raise PathEnd()
        # ---- the state after the loop
        lc.phase = "exit"
        if is_for:
            lc.k = lc.hi if not sym.is_sym(lc.hi) or True else lc.hi
            # an empty symbolic range leaves k at lo
            if sym.is_sym(lc.hi) or sym.is_sym(lc.lo):
                from .spec import ite
                lc.k = ite(lc.hi > lc.lo, lc.hi, lc.lo)
        self.havoc(lc)
        ctx.assume(self.invariant(lc))
        if not is_for:
            if interp.test(interp.ev(s.test, env)):
                raise PathEnd()           # not an exit state
        interp.exec_block(s.orelse, env)
