"""Loop rule: a loop with a sidecar specification is replaced by
   (1) initiation: the invariant holds on entry;
   (2) one arbitrary iteration from an arbitrary state satisfying the invariant, after which the invariant is
       re-established (this path then ends);
   (3) the exit state: an arbitrary state satisfying the invariant with the loop finished.
Specifications are keyed by (function key, loop ordinal) so that renaming locals does not disturb them."""
import ast
from . import sym
from .sym import Unsupported
from .path import PathEnd
from .models import SRange


class LoopCtx:
    def __init__(self, ctx, interp, env, spec):
        self.ctx = ctx
        self.interp = interp
        self.env = env
        self.spec = spec
        self.k = None           # iteration index: elements with index < k are done
        self.lo = None
        self.hi = None
        self.elems = None       # concrete element list, or None for a symbolic range
        self.ghost = {}
        self.phase = "init"
        self.names = {}         # role -> name of the local that plays it (bound at loop entry)

    # ---- loop-carried locals are addressed by ROLE, so that renaming a local does not disturb the specification
    def get(self, role):
        n = self.names.get(role, role)
        e = self.env
        while e is not None:
            if n in e.locals:
                return e.locals[n]
            e = e.parent
        raise Unsupported("loop specification %s: the local for %r (%s) does not exist" % (self.spec.name, role, n))

    def set(self, role, value):
        self.env.locals[self.names.get(role, role)] = value

    def loop_target(self, ordinal):
        """name of the target variable of the for-loop with this ordinal in the same function"""
        idx = getattr(self.env.fnode, "_loop_index", None) or {}
        for node in ast.walk(self.env.fnode):
            if isinstance(node, ast.For) and idx.get(id(node)) == ordinal and isinstance(node.target, ast.Name):
                return node.target.id
        raise Unsupported("loop specification %s: for-loop #%d has no simple target" % (self.spec.name, ordinal))

    def bind_roles(self):
        roles = self.spec.roles or {}
        fn = self.env.fnode
        params = set()
        if fn is not None:
            a = fn.args
            params = {x.arg for x in a.posonlyargs + a.args + a.kwonlyargs}
            if a.vararg:
                params.add(a.vararg.arg)
            if a.kwarg:
                params.add(a.kwarg.arg)
        # bindings made by an enclosing loop specification of the same function activation are kept
        shared = self.interp.__dict__.setdefault("_role_names", {}).setdefault(id(self.env), {})
        for role, (preferred, pred) in roles.items():
            if role in shared and shared[role] in self.env.locals:
                self.names[role] = shared[role]
                continue
            if preferred in self.env.locals:
                try:
                    fits = bool(pred(self.env.locals[preferred]))
                except Exception:       # noqa: BLE001
                    fits = False
                if fits:
                    self.names[role] = preferred
                    shared[role] = preferred
                    continue
            cands = []
            for n, v in self.env.locals.items():
                if n in params or n in self.names.values():
                    continue
                try:
                    ok = bool(pred(v))
                except Exception:       # noqa: BLE001
                    ok = False
                if ok:
                    cands.append(n)
            if not cands:
                # a loop moved into a helper gets its loop-carried state as parameters
                for n, v in self.env.locals.items():
                    if n not in params or n in self.names.values():
                        continue
                    try:
                        ok = bool(pred(v))
                    except Exception:       # noqa: BLE001
                        ok = False
                    if ok:
                        cands.append(n)
            if len(cands) != 1:
                raise Unsupported("loop specification %s: cannot tell which local plays the role %r (expected %r; "
                                  "candidates by value at loop entry: %r)" % (self.spec.name, role, preferred, cands))
            if cands[0] in params:
                # state handed over by reference: the havoc rebinds the helper's name only, the caller keeps the object
                sym.ctx().ex.by_reference_roles.add("%s.%s" % (self.spec.name, role))
            self.names[role] = cands[0]
            shared[role] = cands[0]

    def elem(self, k):
        if self.elems is None:
            return k
        if list(self.elems) == list(range(len(self.elems))) and self.lo == 0:
            return k
        from .models import _select
        return _select(self.interp, list(self.elems), k - self.lo)


def _all(inv):
    from .spec import And
    return And(list(inv.values())) if isinstance(inv, dict) else inv


def _prove_inv(ctx, name, inv, detail):
    """an invariant may be given as {label: condition}: each conjunct is then its own obligation"""
    if isinstance(inv, dict):
        for label, cond in inv.items():
            ctx.prove("%s/%s" % (name, label), cond, detail=detail)
    else:
        ctx.prove(name, inv, detail=detail)


class LoopSpec:
    def __init__(self, name, invariant, havoc, ghost_init=None, variant=None, roles=None, anchor=None, avoid=None):
        self.name = name
        self.avoid = tuple(avoid) if avoid else ()          # identifiers a loop must NOT mention to get this specification
        self.anchor = tuple(anchor) if anchor else None     # identifiers the loop mentions: lets the specification
        #                                                     follow the loop when it is moved to another function
        self.roles = roles              # role -> (usual local name, predicate on its value at loop entry)
        self.invariant = invariant      # lc -> condition
        self.havoc = havoc              # lc -> None (puts loop-modified state into an arbitrary state)
        self.ghost_init = ghost_init    # lc -> None, run once before initiation
        self.variant = variant          # lc -> int expression decreasing on every iteration (while loops)

    def execute(self, interp, s, env):
        """a specification that does not fit the code it is attached to (a loop-carried local of another shape, a
        restructured loop) makes the unit UNDECIDED; it is never reported as a violation or a checker crash"""
        inv0, hav0, var0 = self.invariant, self.havoc, self.variant

        def guard(f, what):
            if f is None:
                return None

            def g(lc):
                try:
                    return f(lc)
                except (TypeError, AttributeError, KeyError, IndexError, ValueError) as e:
                    raise Unsupported("loop specification %s: its %s does not fit the code (%s: %s)"
                                      % (self.name, what, type(e).__name__, e))
            return g
        self.invariant, self.havoc, self.variant = guard(inv0, "invariant"), guard(hav0, "havoc"), guard(var0, "variant")
        try:
            return self._execute(interp, s, env)
        finally:
            self.invariant, self.havoc, self.variant = inv0, hav0, var0

    def _execute(self, interp, s, env):
        from .interp import BreakEx, ContinueEx
        ctx = sym.ctx()
        lc = LoopCtx(ctx, interp, env, self)
        is_for = isinstance(s, ast.For)
        if is_for:
            it = interp.ev(s.iter, env)
            if isinstance(it, SRange):
                lc.lo, lc.hi = it.start, it.stop
            else:
                lc.elems = interp.iterate(it)
                if any(sym.is_sym(x) for x in lc.elems) and False:
                    raise Unsupported("loop rule over a list with symbolic elements")
                lc.lo, lc.hi = 0, len(lc.elems)
        lc.bind_roles()
        if self.ghost_init is not None:
            self.ghost_init(lc)
        lc.k = lc.lo
        _prove_inv(ctx, "inv-init@%s" % self.name, self.invariant(lc), "loop invariant does not hold on entry")
        if ctx.fork(ctx.fresh_bool("loop_step@%s" % self.name).e):
            # ---- an arbitrary iteration
            lc.phase = "step"
            if is_for:
                k = ctx.fresh_int("k@%s" % self.name)
                lc.k = k
                ctx.assume(k >= lc.lo)
                ctx.assume(k < lc.hi)
            self.havoc(lc)
            ctx.assume(_all(self.invariant(lc)))
            if is_for:
                interp.assign(s.target, lc.elem(lc.k), env)
            else:
                if not interp.test(interp.ev(s.test, env)):
                    raise PathEnd()       # covered by the exit path
                v0 = self.variant(lc) if self.variant else None
            try:
                interp.exec_block(s.body, env)
            except ContinueEx:
                pass
            except BreakEx:
                return                    # leaves the loop from a reachable (over-approximated) state
            if is_for:
                lc.k = lc.k + 1
            lc.phase = "keep"
            ctx.cover()         # vacuity guard: an arbitrary iteration is executable
            _prove_inv(ctx, "inv-keep@%s" % self.name, self.invariant(lc),
                       "loop invariant not re-established by an arbitrary iteration")
            if not is_for and self.variant:
                v1 = self.variant(lc)
                ctx.prove("variant@%s" % self.name, (v1 < v0) & (v0 >= 0) if sym.is_sym(v1 < v0) else (v1 < v0 and v0 >= 0),
                          detail="loop variant does not decrease")
            raise PathEnd()
        # ---- the state after the loop
        lc.phase = "exit"
        never_exits = isinstance(s, ast.While) and isinstance(s.test, ast.Constant) and bool(s.test.value)
        if not never_exits:
            ctx.ex.loop_exit_wanted.add(self.name)
        if is_for:
            lc.k = lc.hi if not sym.is_sym(lc.hi) or True else lc.hi
            # an empty symbolic range leaves k at lo
            if sym.is_sym(lc.hi) or sym.is_sym(lc.lo):
                from .spec import ite
                lc.k = ite(lc.hi > lc.lo, lc.hi, lc.lo)
        self.havoc(lc)
        ctx.assume(_all(self.invariant(lc)))
        if not is_for:
            if interp.test(interp.ev(s.test, env)):
                raise PathEnd()           # not an exit state
        ctx.cover()
        ctx.ex.loop_exit_seen.add(self.name)      # vacuity guard: the specified loop can be left
        interp.exec_block(s.orelse, env)
