"""Assumed contracts of asyncio / os / transport primitives for the sequential verification of driver coroutines.

`await f(...)` is executed as a call; every await of a primitive is a point where (a) the environment (other
tasks, the event loop's reader callbacks) may act - modelled by hooks supplied by the proof unit - and
(b) optionally the task is cancelled (CancelledError raised at that await).
Locks / semaphores are ghost tokens held by *this* task: the proofs are about token balance and about what is
written while the token is held; mutual exclusion itself is the (assumed) contract of asyncio.Lock.
Trusted; not verified."""
import asyncio
import os
import sys

from . import sym
from .sym import Unsupported
from .path import RaiseEx, PathEnd
from .values import SObj


class World:
    """ghost record of the interaction of one coroutine with its environment.

    The same models serve both modes.  Symbolic mode: the coroutine body is interpreted by pyvc, an `await` of a model
    is `resolve()`.  Native mode (replay / CPython cross-check): the REAL coroutine is driven by CPython
    (`coro.send(None)`); the asyncio / os names the drivers use are patched for the duration of the run so that they
    hand out the same models, whose awaitables complete synchronously - the environment acts exactly at the awaits,
    as in the symbolic run, and the decisions (cancel here? time out? write fails?) are read from the counter-model."""

    def __init__(self, ctx, interp, cancel=False, io_faults=False):
        self.ctx = ctx
        self.interp = interp
        self.cancel = cancel            # inject CancelledError at awaits
        self.io_faults = io_faults      # os.write / transport.write may raise OSError
        self.writes = []                # (channel, bytes-like) in order
        self.log = []                   # other effects ("sleep", d), ("call_soon", f, args), ...
        self.awaits = 0
        self.timeouts = 0               # wait_for calls that ended in TimeoutError
        self.cancelled_at = None
        self.hooks = {}                 # primitive-specific environment steps
        self.tasks = []
        self.native_patches = None      # (class table, function table) installed by install()
        self.native_contracts = {}      # "module:Class.method" -> contract function (coroutine callees)
        self.extra_patches = {}         # further os / asyncio entry points modelled by a proof unit

    def patch(self, real, model):
        """model(interp, *args) stands for the external function `real` during this unit (both modes)"""
        if self.native:
            self.extra_patches[real] = model
        else:
            self.interp.local_function_models[real] = model

    # ------------------------------------------------------------------ mode-independent helpers
    @property
    def native(self):
        return bool(getattr(self.ctx, "native", False))

    def choice(self, hint):
        """a nondeterministic decision of the environment: forked symbolically, read from the counter-model natively"""
        b = self.ctx.fresh_bool(hint)
        if self.native:
            return bool(b)
        return self.ctx.fork(b.e)

    def throw(self, cls, *args):
        if self.native:
            raise cls(*args)
        raise RaiseEx(SObj(cls, {"args": tuple(args)}))

    # ------------------------------------------------------------------ constructors
    def event(self, flag=False, name="event"):
        return MEvent(self, flag, name)

    def lock(self, name="lock", held=False):
        return MLock(self, name, held)

    def semaphore(self, value=1, name="semaphore"):
        return MSemaphore(self, value, name)

    def queue(self, name="queue", items=(), provider=None):
        return MQueue(self, name, items, provider)

    def transport(self, name="transport"):
        return MTransport(self, name)

    def mapping(self):
        from .models import AssocDict
        return {} if self.native else AssocDict()

    def seq_source(self, value):
        return iter([value] * 4) if self.native else _SeqSource(value)

    def run(self, fn, *args, contracts=(), **kwargs):
        """run the coroutine function under verification:
        ("return", v) | ("raise", cls, exc, where) | ("blocked",)"""
        if not self.native:
            try:
                return ("return", self.interp.call_repo_function(fn, args, kwargs, force_body=True))
            except PathEnd:
                return ("blocked",)
            except RaiseEx as e:
                return ("raise", e.cls, e.value, e.where)
        return self.run_native(fn, args, kwargs)

    def run_native(self, fn, args, kwargs):
        """replay: CPython runs the real coroutine; the asyncio / os entry points are the models"""
        import contextlib
        import unittest.mock as mock
        with contextlib.ExitStack() as st:
            if self.native_patches is not None:
                table, funcs = self.native_patches
                for real, model in table.items():
                    st.enter_context(mock.patch.object(asyncio, real.__name__,
                                                       (lambda m: (lambda *a, **k: m(None, *a, **k)))(model)))
                for real, model in list(funcs.items()) + list(self.extra_patches.items()):
                    name = getattr(real, "__name__", None)
                    wrapper = (lambda m: (lambda *a, **k: m(None, *a, **k)))(model)
                    for owner in (os, asyncio):
                        if name and getattr(owner, name, None) is real:
                            st.enter_context(mock.patch.object(owner, name, wrapper))
                            break
                    # methods of asyncio.Queue work natively on the real subclass objects: not patched
            for key, cfn in self.native_contracts.items():
                mod, qual = key.split(":")
                owner = sys.modules[mod]
                parts = qual.split(".")
                for p_ in parts[:-1]:
                    owner = getattr(owner, p_)
                st.enter_context(mock.patch.object(owner, parts[-1], _as_coroutine(cfn)))
            try:
                if asyncio.iscoroutinefunction(fn):
                    return ("return", drive(fn(*args, **kwargs)))
                return ("return", fn(*args, **kwargs))
            except PathEnd:
                return ("blocked",)
            except RaiseEx as e:
                return ("raise", e.cls, e.value, e.where)
            except asyncio.CancelledError as e:
                return ("raise", asyncio.CancelledError, e, "native")
            except Exception as e:      # noqa: BLE001
                return ("raise", type(e), e, "native")

    def cancel_point(self, what):
        self.awaits += 1
        if self.cancel and self.cancelled_at is None:
            if self.choice("cancel_at_await"):
                self.cancelled_at = (self.awaits, what)
                self.throw(asyncio.CancelledError)


def drive(coro):
    """run a real coroutine whose awaits all complete synchronously (they are models)"""
    try:
        coro.send(None)
    except StopIteration as e:
        return e.value
    coro.close()
    raise Unsupported("native run: the coroutine suspended on a real awaitable")


def _as_coroutine(cfn):
    async def stub(*a, **k):
        return cfn(*a, **k)
    return stub


class Awaitable:
    def __init__(self, resolve, what="awaitable"):
        self.resolve = resolve
        self.what = what

    def __await__(self):
        # native mode: completes synchronously (never yields to an event loop)
        return self.resolve()
        yield       # pragma: no cover  (makes this a generator function)


class _AsyncCM:
    async def __aenter__(self):
        return self.aenter()

    async def __aexit__(self, *exc):
        self.aexit()
        return False


class MEvent:
    def __init__(self, world, flag=False, name="event"):
        self.world = world
        self.flag = flag
        self.name = name
        self.waits = 0

    def is_set(self):
        return self.flag

    def set(self):
        self.flag = True

    def clear(self):
        self.flag = False

    def wait(self):
        def resolve():
            self.world.cancel_point("Event.wait:" + self.name)
            self.waits += 1
            hook = self.world.hooks.get(("event", self.name)) or self.world.hooks.get("event")
            if hook is not None:
                hook(self)
            if not self.world.interp.test(self.flag):
                # nobody sets the event: the task blocks for ever (liveness is not decided here)
                raise PathEnd()
            return True
        return Awaitable(resolve, "Event.wait")


class MLock(_AsyncCM):
    """asyncio.Lock as a ghost token of *this* task.  While this task does not hold the token some other task may
    (that is why acquire can wait at all): locked() then answers nondeterministically - fixed between two awaits,
    because only an await lets another task run - and a release() without the token either hits another task's
    critical section (asyncio.Lock.release does not check ownership: recorded in `stolen`) or raises RuntimeError."""

    def __init__(self, world, name="lock", held=False):
        self.world = world
        self.name = name
        self.held = held
        self.acquisitions = 0
        self.violations = []
        self.stolen = 0
        self._other = None          # (await epoch, bool): is the lock held by another task

    def _held_by_another(self):
        ep = self.world.awaits
        if self._other is None or self._other[0] != ep:
            self._other = (ep, bool(self.world.choice("lock_held_by_another_task")))
        return self._other[1]

    def locked(self):
        if self.held:
            return True
        return self._held_by_another()

    def acquire(self):
        def resolve():
            self.world.cancel_point("Lock.acquire:" + self.name)
            if self.held:
                self.violations.append("acquire while already held by this task (deadlock)")
                raise PathEnd()
            self.held = True
            self._other = None
            self.acquisitions += 1
            return True
        return Awaitable(resolve, "Lock.acquire")

    def release(self):
        if not self.held:
            if self._held_by_another():
                self.stolen += 1
                self.violations.append("release of a lock held by another task")
                self._other = (self.world.awaits, False)
                return
            self.world.throw(RuntimeError, "Lock is not acquired.")
        self.held = False

    def aenter(self):
        return self.acquire().resolve()

    def aexit(self):
        self.release()


class MSemaphore(_AsyncCM):
    def __init__(self, world, value=1, name="semaphore", bounded=True):
        self.world = world
        self.initial = value
        self.value = value
        self.name = name
        self.bounded = bounded
        self.held = 0

    def locked(self):
        return self.value == 0

    def acquire(self):
        def resolve():
            self.world.cancel_point("Semaphore.acquire:" + self.name)
            # other tasks may hold the remaining slots; waiting for one is assumed to succeed eventually
            self.held += 1
            return True
        return Awaitable(resolve, "Semaphore.acquire")

    def release(self):
        if self.held <= 0 and self.bounded:
            self.world.throw(ValueError, "BoundedSemaphore released too many times")
        self.held -= 1

    def aenter(self):
        return self.acquire().resolve()

    def aexit(self):
        self.release()


class MQueue:
    """asyncio.Queue: `items` are what this task sees; `provider` (environment) may add items at a get()"""

    def __init__(self, world, name="queue", items=None, provider=None):
        self.world = world
        self.name = name
        self.items = list(items or [])
        self.provider = provider
        self.puts = []

    def qsize(self):
        return len(self.items)

    def empty(self):
        return len(self.items) == 0

    def put_nowait(self, item):
        self.items.append(item)
        self.puts.append(item)

    def get_nowait(self):
        if not self.items:
            self.world.throw(asyncio.QueueEmpty)
        return self.items.pop(0)

    def get(self):
        def resolve():
            self.world.cancel_point("Queue.get:" + self.name)
            if not self.items and self.provider is not None:
                self.provider(self)
            if not self.items:
                raise PathEnd()     # blocks for ever
            return self.items.pop(0)
        return Awaitable(resolve, "Queue.get:" + self.name)


class MTask:
    def __init__(self, world, coro):
        self.world = world
        self.coro = coro
        self.cancelled = False

    def cancel(self):
        self.cancelled = True
        return True


class MLoop:
    def __init__(self, world):
        self.world = world

    def call_soon(self, f, *args):
        self.world.log.append(("call_soon", f, args))

    def add_reader(self, fd, cb, *args):
        self.world.log.append(("add_reader", fd, cb))

    def remove_reader(self, fd):
        self.world.log.append(("remove_reader", fd))
        return True

    def stop(self):
        self.world.log.append(("loop.stop",))


class MTransport:
    def __init__(self, world, name="transport"):
        self.world = world
        self.name = name
        self.loop = MLoop(world)

    def write(self, data):
        if self.world.io_faults and self.world.choice("write_fails"):
            self.world.throw(OSError, "write failed")
        self.world.writes.append((self.name, data.snapshot() if hasattr(data, "snapshot") else data))


class _SeqSource:
    """a sequence-number generator abstracted by its contract (next value in the protocol's range)"""

    def __init__(self, value):
        self.value = value
        self.taken = 0

    def next_value(self):
        self.taken += 1
        return self.value


def install(interp, world):
    """route the real asyncio / os entry points used by the drivers to the models (for this interpreter only)"""
    from . import models

    def m_event(interp_, *a, **k):
        return MEvent(world, name="local-event-%d" % len(world.log))

    def m_lock(interp_, *a, **k):
        return MLock(world)

    def m_sem(interp_, value=1, **k):
        return MSemaphore(world, value)

    def m_queue(interp_, *a, **k):
        return MQueue(world)

    def m_sleep(interp_, delay, *a):
        def resolve():
            world.log.append(("sleep", delay))
            world.cancel_point("sleep")
            return None
        return Awaitable(resolve, "sleep")

    def m_wait_for(interp_, aw, timeout=None):
        def resolve():
            world.log.append(("wait_for", timeout, getattr(aw, "what", "?")))
            if world.choice("timeout"):
                world.timeouts += 1
                world.cancel_point("wait_for")
                if world.native and asyncio.iscoroutine(aw):
                    aw.close()
                world.throw(asyncio.TimeoutError)
            try:
                if world.native:
                    return aw.resolve() if isinstance(aw, Awaitable) else drive(aw)
                return interp_.do_await(aw)
            except PathEnd:
                # the awaited operation never completes: the timer fires
                world.timeouts += 1
                world.cancel_point("wait_for")
                world.throw(asyncio.TimeoutError)
        return Awaitable(resolve, "wait_for")

    def m_create_task(interp_, coro, **k):
        t = MTask(world, coro)
        world.tasks.append(t)
        fn_name = getattr(getattr(coro, "func", None), "__qualname__", None) or getattr(coro, "__qualname__", repr(coro))
        world.log.append(("create_task", fn_name))
        if world.native and asyncio.iscoroutine(coro):
            coro.close()        # the model does not run spawned tasks
        return t

    def m_loop(interp_):
        return MLoop(world)

    def m_os_write(interp_, fd, data):
        if world.io_faults and world.choice("write_fails"):
            world.throw(OSError, "write failed")
        world.writes.append((fd, data.snapshot() if hasattr(data, "snapshot") else data))
        return len(data) if hasattr(data, "__len__") else 0

    def m_os_close(interp_, fd):
        world.log.append(("os.close", fd))

    table = {
        asyncio.Event: m_event, asyncio.Lock: m_lock, asyncio.BoundedSemaphore: m_sem, asyncio.Semaphore: m_sem,
        asyncio.Queue: m_queue,
    }
    funcs = {
        asyncio.sleep: m_sleep, asyncio.wait_for: m_wait_for, asyncio.create_task: m_create_task,
        asyncio.ensure_future: m_create_task, asyncio.get_running_loop: m_loop, asyncio.get_event_loop: m_loop,
        os.write: m_os_write, os.close: m_os_close,
    }
    def m_queue_put_nowait(interp_, q, item):
        # asyncio.Queue.put_nowait on an object of a repo subclass (DistributorQueue): ghost list of delivered items
        q.fields.setdefault("_delivered", []).append(item)

    def m_queue_qsize(interp_, q):
        return len(q.fields.get("_delivered", []))

    def m_queue_init(interp_, q, *a, **k):
        # asyncio.Queue.__init__ reached through super().__init__() of a repo subclass
        q.fields.setdefault("_delivered", [])

    funcs[asyncio.Queue.__init__] = m_queue_init
    if world.native:
        world.native_patches = (table, funcs)
        return
    funcs[asyncio.Queue.put_nowait] = m_queue_put_nowait
    funcs[asyncio.Queue.qsize] = m_queue_qsize
    interp.local_class_models = table
    interp.local_function_models = funcs
    interp.world = world
