#!/bin/sh
# Builds /verif/.venv offline: python 3.12 + z3-solver, cvc5, jsonschema from the
# local wheelhouse, overlaid on /venv's site-packages so that `import dali`
# resolves to /repo (editable install) with the repo's own dependencies.
set -e
cd "$(dirname "$0")"
PY=/root/.pyenv/versions/3.12.1/bin/python3.12
ready() { [ -x .venv/bin/python ] && .venv/bin/python -c "import z3, jsonschema" 2>/dev/null; }
if ready; then
    exit 0
fi
# several checks may be started at once on a fresh restore: only one of them builds the environment
if command -v flock >/dev/null 2>&1 && [ -z "$PYVC_SETUP_LOCKED" ]; then
    PYVC_SETUP_LOCKED=1 exec flock .setup.lock "$0" "$@"
fi
if ready; then
    exit 0
fi
rm -rf .venv
"$PY" -m venv .venv
.venv/bin/pip install -q --no-index --find-links /opt/veriftools/wheels z3-solver cvc5 jsonschema
echo "import site; site.addsitedir('/venv/lib/python3.12/site-packages')" \
    > .venv/lib/python3.12/site-packages/_venv_overlay.pth
.venv/bin/python -c "import z3, jsonschema, dali; print('setup ok', z3.get_version_string(), dali.__file__)"
