"""Memory map of the standard memory banks, transcribed from IEC 62386-102:2014 Table 9 (bank 0; the 2009
edition for the 'legacy' layout), 9.10.7 and DiiA DALI Part 251 (bank 1), Part 252 (banks 202-204) and
Part 253 (banks 205-207).  Independent of the library; trusted oracle of C11 (layout clause).

row: (bank key, value name in the library, first location, last location, access type, width in bytes)
access types: ROM, RAM-RO, RAM-RW, NVM-RO, NVM-RW, NVM-RW-L (lockable)
"""

BANKS = {
    # key: (bank number, last accessible location default, has lock byte, lock byte latches)
    "0": (0, 0x7F, False, False),
    "0-legacy": (0, 0x0E, False, False),
    "1": (1, 0x77, True, False),
    "202": (202, 0x0F, False, True),
    "203": (203, 0x0F, False, True),
    "204": (204, 0x0F, False, True),
    "205": (205, 0x1C, True, True),
    "206": (206, 0x20, True, True),
    "207": (207, 0x07, True, False),
}

LAYOUT = [
    # ---- bank 0, IEC 62386-102:2014 Table 9
    ("0", "LastAddress", 0x00, 0x00, "ROM"),
    ("0", "LastMemoryBank", 0x02, 0x02, "ROM"),
    ("0", "GTIN", 0x03, 0x08, "ROM"),
    ("0", "FirmwareVersion", 0x09, 0x0A, "ROM"),
    ("0", "IdentificationNumber", 0x0B, 0x12, "ROM"),
    ("0", "HardwareVersion", 0x13, 0x14, "ROM"),
    ("0", "Part101Version", 0x15, 0x15, "ROM"),
    ("0", "Part102Version", 0x16, 0x16, "ROM"),
    ("0", "Part103Version", 0x17, 0x17, "ROM"),
    ("0", "DeviceUnitCount", 0x18, 0x18, "ROM"),
    ("0", "GearUnitCount", 0x19, 0x19, "ROM"),
    ("0", "UnitIndex", 0x1A, 0x1A, "ROM"),
    # ---- bank 0, 2009 edition
    ("0-legacy", "LastAddress", 0x00, 0x00, "ROM"),
    ("0-legacy", "LastMemoryBank_legacy", 0x02, 0x02, "ROM"),
    ("0-legacy", "GTIN_legacy", 0x03, 0x08, "ROM"),
    ("0-legacy", "FirmwareVersion_legacy", 0x09, 0x0A, "ROM"),
    ("0-legacy", "IdentifictionNumber_legacy", 0x0B, 0x0E, "ROM"),
    # ---- bank 1, IEC 62386-102 9.10.7 + DiiA Part 251
    ("1", "LastAddress", 0x00, 0x00, "ROM"),
    ("1", "LockByte", 0x02, 0x02, "RAM-RW"),
    ("1", "ManufacturerGTIN", 0x03, 0x08, "NVM-RW-L"),
    ("1", "LuminaireID", 0x09, 0x10, "NVM-RW-L"),
    ("1", "ContentFormatID", 0x11, 0x12, "NVM-RW-L"),
    ("1", "YearOfManufacture", 0x13, 0x13, "NVM-RW-L"),
    ("1", "WeekOfManufacture", 0x14, 0x14, "NVM-RW-L"),
    ("1", "InputPowerNominal", 0x15, 0x16, "NVM-RW-L"),
    ("1", "InputPowerMinimumDim", 0x17, 0x18, "NVM-RW-L"),
    ("1", "MainsVoltageMinimum", 0x19, 0x1A, "NVM-RW-L"),
    ("1", "MainsVoltageMaximum", 0x1B, 0x1C, "NVM-RW-L"),
    ("1", "LightOutputNominal", 0x1D, 0x1F, "NVM-RW-L"),
    ("1", "CRI", 0x20, 0x20, "NVM-RW-L"),
    ("1", "CCT", 0x21, 0x22, "NVM-RW-L"),
    ("1", "LightDistributionType", 0x23, 0x23, "NVM-RW-L"),
    ("1", "LuminaireColor", 0x24, 0x3B, "NVM-RW-L"),
    ("1", "LuminaireIdentification", 0x3C, 0x77, "NVM-RW-L"),
]

# ---- banks 202-204, DiiA Part 252: version, scale+energy (1+6 bytes), scale+power (1+4 bytes)
for _b, _pfx, _e, _p in (("202", "Active", "ActiveEnergy", "ActivePower"),
                         ("203", "Apparent", "ApparentEnergy", "ApparentPower"),
                         ("204", "Loadside", "ActiveEnergyLoadside", "ActivePowerLoadside")):
    LAYOUT += [
        (_b, "LastAddress", 0x00, 0x00, "ROM"),
        (_b, "LockByte", 0x02, 0x02, "RAM-RW"),
        (_b, _pfx + "BankVersion", 0x03, 0x03, "ROM"),
        (_b, _e, 0x04, 0x0A, "ROM+NVM-RO"),       # scale factor (ROM) followed by the counter (NVM-RO)
        (_b, _p, 0x0B, 0x0F, "ROM+RAM-RO"),       # scale factor (ROM) followed by the measurement (RAM-RO)
    ]

# ---- bank 205, DiiA Part 253: control gear diagnostics
LAYOUT += [
    ("205", "LastAddress", 0x00, 0x00, "ROM"),
    ("205", "LockByte", 0x02, 0x02, "RAM-RW"),
    ("205", "ControlGearDiagnosticBankVersion", 0x03, 0x03, "ROM"),
    ("205", "ControlGearOperatingTime", 0x04, 0x07, "NVM-RO"),
    ("205", "ControlGearStartCounter", 0x08, 0x0A, "NVM-RO"),
    ("205", "ControlGearExternalSupplyVoltage", 0x0B, 0x0C, "RAM-RO"),
    ("205", "ControlGearExternalSupplyVoltageFrequency", 0x0D, 0x0D, "RAM-RO"),
    ("205", "ControlGearPowerFactor", 0x0E, 0x0E, "RAM-RO"),
    ("205", "ControlGearOverallFailureCondition", 0x0F, 0x0F, "RAM-RO"),
    ("205", "ControlGearOverallFailureConditionCounter", 0x10, 0x10, "NVM-RO"),
    ("205", "ControlGearExternalSupplyUndervoltage", 0x11, 0x11, "RAM-RO"),
    ("205", "ControlGearExternalSupplyUndervoltageCounter", 0x12, 0x12, "NVM-RO"),
    ("205", "ControlGearExternalSupplyOvervoltage", 0x13, 0x13, "RAM-RO"),
    ("205", "ControlGearExternalSupplyOvervoltageCounter", 0x14, 0x14, "NVM-RO"),
    ("205", "ControlGearOutputPowerLimitation", 0x15, 0x15, "RAM-RO"),
    ("205", "ControlGearOutputPowerLimitationCounter", 0x16, 0x16, "NVM-RO"),
    ("205", "ControlGearThermalDerating", 0x17, 0x17, "RAM-RO"),
    ("205", "ControlGearThermalDeratingCounter", 0x18, 0x18, "NVM-RO"),
    ("205", "ControlGearThermalShutdown", 0x19, 0x19, "RAM-RO"),
    ("205", "ControlGearThermalShutdownCounter", 0x1A, 0x1A, "NVM-RO"),
    ("205", "ControlGearTemperature", 0x1B, 0x1B, "RAM-RO"),
    ("205", "ControlGearOutputCurrentPercent", 0x1C, 0x1C, "RAM-RO"),
    # ---- bank 206: light source diagnostics
    ("206", "LastAddress", 0x00, 0x00, "ROM"),
    ("206", "LockByte", 0x02, 0x02, "RAM-RW"),
    ("206", "LightSourceDiagnosticBankVersion", 0x03, 0x03, "ROM"),
    ("206", "LightSourceStartCounterResettable", 0x04, 0x06, "NVM-RW"),
    ("206", "LightSourceStartCounter", 0x07, 0x09, "NVM-RO"),
    ("206", "LightSourceOnTimeResettable", 0x0A, 0x0D, "NVM-RW"),
    ("206", "LightSourceOnTime", 0x0E, 0x11, "NVM-RO"),
    ("206", "LightSourceVoltage", 0x12, 0x13, "RAM-RO"),
    ("206", "LightSourceCurrent", 0x14, 0x15, "RAM-RO"),
    ("206", "LightSourceOverallFailureCondition", 0x16, 0x16, "RAM-RO"),
    ("206", "LightSourceOverallFailureConditionCounter", 0x17, 0x17, "NVM-RO"),
    ("206", "LightSourceShortCircuit", 0x18, 0x18, "RAM-RO"),
    ("206", "LightSourceShortCircuitCounter", 0x19, 0x19, "NVM-RO"),
    ("206", "LightSourceOpenCircuit", 0x1A, 0x1A, "RAM-RO"),
    ("206", "LightSourceOpenCircuitCounter", 0x1B, 0x1B, "NVM-RO"),
    ("206", "LightSourceThermalDerating", 0x1C, 0x1C, "RAM-RO"),
    ("206", "LightSourceThermalDeratingCounter", 0x1D, 0x1D, "NVM-RO"),
    ("206", "LightSourceThermalShutdown", 0x1E, 0x1E, "RAM-RO"),
    ("206", "LightSourceThermalShutdownCounter", 0x1F, 0x1F, "NVM-RO"),
    ("206", "LightSourceTemperature", 0x20, 0x20, "RAM-RO"),
    # ---- bank 207: luminaire maintenance
    ("207", "LastAddress", 0x00, 0x00, "ROM"),
    ("207", "LockByte", 0x02, 0x02, "RAM-RW"),
    ("207", "LuminaireMaintenanceBankVersion", 0x03, 0x03, "ROM"),
    ("207", "RatedMedianUsefulLifeOfLuminaire", 0x04, 0x04, "NVM-RW-L"),
    ("207", "InternalControlGearReferenceTemperature", 0x05, 0x05, "NVM-RW-L"),
    ("207", "RatedMedianUsefulLightSourceStarts", 0x06, 0x07, "NVM-RW-L"),
]
