"""Wire formats of the supported gateways, transcribed from the vendor protocol descriptions cited in the source
(Tridonic DALI-USB as documented by daliserver; hasseb DALI Master firmware notes; Lunatone LUBA protocol EN and
SCI RS232 manual; daliserver protocol; UniPi Modbus DALI registers; ATX LED DALI hat command list).
Trusted oracle of C18/C19 (and of the report -> response mapping of C16).  Polymorphic (symbolic / native)."""
from pyvc.spec import And, Or, Not, ite


def be_bytes(value, n):
    return [(value >> (8 * (n - 1 - i))) & 0xFF for i in range(n)]


def xor_all(items):
    c = 0
    for x in items:
        c = c ^ x
    return c


# ---- Tridonic DALI-USB (64-byte HID reports)
def tridonic_send_report(seq, bits, data, twice):
    """host -> device SEND: [0x12, seq, ctrl, mode, f3 f2 f1 f0, dtr, prio, devtype, 0 x 53]"""
    mode = {8: 2, 16: 3, 24: 6}[bits]
    return [0x12, seq, 0x20 if twice else 0x00, mode] + be_bytes(data, 4) + [0, 0, 0] + [0] * 53


def tridonic_init_report(what):
    return [0x01, what, 0, 0, 0, 0, 0, 0, 0, 0, 0] + [0] * 53


TRIDONIC_MODE_INFO, TRIDONIC_MODE_OBSERVE, TRIDONIC_MODE_RESPONSE = 0x01, 0x11, 0x12
TRIDONIC_NO_FRAME, TRIDONIC_DALI8, TRIDONIC_DALI16, TRIDONIC_DALI24, TRIDONIC_INFO = 0x71, 0x72, 0x73, 0x76, 0x77
TRIDONIC_STATUS_FRAMING_ERROR = 3


# ---- hasseb (HID firmware used by dali.driver.hid): the 16-bit frame as two bytes, once per transmission
def hasseb_hid_writes(data16, twice):
    return [be_bytes(data16, 2)] * (2 if twice else 1)


HASSEB_NO_DATA, HASSEB_NO_ANSWER, HASSEB_OK, HASSEB_INVALID_ANSWER = 0, 1, 2, 3


# ---- Lunatone LUBA: 'Y', command, length, payload, xor(command, length, payload)
def luba_frame(cmd, payload):
    body = [cmd, len(payload)] + list(payload)
    return [0x59] + body + [xor_all(body)]


def luba_add_dali_frame(bits, data, twice, priority):
    """ADD DALI FRAME TO TX (0x32): line 0, bit count, mode = priority | 0x80 if send twice, 3 data bytes
    (frame left-aligned, i.e. first transmitted byte first), pad"""
    n = bits // 8
    fb = be_bytes(data, n) + [0] * (3 - n)
    return luba_frame(0x32, [0, bits, priority | (0x80 if twice else 0)] + fb + [0])


# ---- Lunatone SCI RS232: control byte, three data bytes (frame right-aligned), xor of the four
SCI_MODE = {8: 2, 16: 3, 24: 8}


def sci_frame(control, data24):
    b = [control] + be_bytes(data24, 3)
    return b + [xor_all(b)]


# ---- daliserver: [version 2, type 0 = send] + the two frame bytes; reply [ver, status, value, 0]
def daliserver_request(data16):
    return [2, 0] + be_bytes(data16, 2)


# ---- legacy Tridonic USB driver (dali.driver.tridonic): 64 bytes
def legacy_tridonic_packet(sn, data16):
    return [0x12, sn, 0x00, 0x03, 0x00, 0x00] + be_bytes(data16, 2) + [0] * 56


# ---- legacy hasseb driver (dali.driver.hasseb): 10 bytes
def legacy_hasseb_packet(sn, data16, expect_reply, twice):
    return [0xAA, 0x07, sn, 16, 1 if expect_reply else 0, 0, 10 if twice else 0] + be_bytes(data16, 2) + [0]


# ---- UniPi Modbus: two 16-bit registers
def unipi_registers(bits, data, twice):
    opt = (2 if bits == 16 else 3) | (8 if twice else 0)
    if bits == 16:
        return ((opt << 8), data)
    return ((opt << 8) | ((data >> 16) & 0xFF), data & 0xFFFF)


# ---- ATX LED DALI hat: ASCII line
ATX_PREFIX = {8: "j", 16: "h", 24: "l", 25: "m"}


def atx_line(bits, data, twice):
    prefix = "t" if (twice and bits == 16) else ATX_PREFIX[bits]
    nbytes = (bits + 7) // 8
    return (prefix + "".join("%02X" % b for b in be_bytes(data, nbytes)) + "\n").encode("ascii")
