"""Reference deframers of the two serial gateway protocols (trusted oracle of C19, and of the serial half of C20).

LUBA frame:  0x59, command, length L, payload[L], checksum = xor(command, L, payload...).  A frame must fit the
receiver's 24-byte buffer, i.e. 1 <= L <= 20; a length byte outside that range is dropped and reception resumes
with the next byte.  Frames with a bad checksum or an unknown command code are dropped.
SCI frame:   status, data hi, data mid, data lo, checksum = xor of the first four.

`luba_items(frame)` / `sci_items(frame)` give the items a complete, checksum-valid frame denotes:
  ("raw", value)                      an 8-bit backward frame
  ("txconf", tx_id, nbytes, data)     the gateway confirms that it transmitted a frame
  ("observed", nbytes, data)          a forward frame seen on the bus (data = big-endian number)
  ("devinfo", gtin, id, pcb, assembly, article), ("settings", mode, event_filter), ("reply", id, code)
or the marker MALFORMED when the payload is malformed for its type (the driver reports those by raising)."""
from pyvc.spec import And, Or, Not, ite

MALFORMED = "malformed-for-its-type"
LUBA_MAX_PAYLOAD = 20
LUBA_KNOWN = {0x2A, 0x2B, 0x2C, 0x2D, 0x20, 0x21, 0x31, 0x32, 0x33, 0x34, 0x35, 0x36, 0x37}


def number(bs):
    v = 0
    for b in bs:
        v = (v << 8) | b
    return v


def xor_all(bs):
    c = 0
    for b in bs:
        c = c ^ b
    return c


def luba_items(frame):
    """frame: list [0x59, cmd, L, payload..., checksum] with a valid checksum and a known command (concrete)"""
    cmd, L = frame[1], frame[2]
    payload = frame[3:-1]
    if cmd == 0x31:                 # event
        if len(payload) < 4:
            return MALFORMED
        status = payload[3]
        etype, info = (status >> 6) & 3, status & 0x3F
        if etype == 0:
            if len(payload) < 5:
                return MALFORMED
            data = payload[5:]
            if len(data) > 4:
                return MALFORMED        # a DALI frame has at most 32 bits
            return [("txconf", payload[4], len(data), number(data))]
        if etype == 2:
            if Not(And(info >= 1, info <= 32)):
                return []
            data = payload[4:]
            if len(data) > 4:
                return MALFORMED        # the event says 1..32 bits
            if len(data) == 0:
                return []
            if len(data) == 1:
                return [("raw", data[0])]
            return [("observed", len(data), number(data))]
        return []
    if cmd == 0x33:                 # ADD DALI FRAME TO TX response: accepted (2 bytes) or error code (1 byte)
        if L in (1, 2):
            return []
        return MALFORMED
    if cmd == 0x21:                 # device info, request set 0
        if L != 20:
            return MALFORMED
        return [("devinfo", number(frame[3:9]), number(frame[9:17]), frame[17], frame[18], number(frame[19:23]))]
    if cmd == 0x2B:                 # settings
        if L < 2:
            return MALFORMED
        return [("settings", frame[3], frame[4])]
    return []                       # other known message types carry nothing the driver delivers


SCI_OK, SCI_NO, SCI_DALI8, SCI_DALI16, SCI_EDALI, SCI_DSI, SCI_DALI17, SCI_ERROR, SCI_DALI24 = 0, 1, 2, 3, 4, 5, 6, 7, 8
SCI_KNOWN_ERRORS = {1, 2, 3, 4, 5}


def sci_items(frame):
    """frame: [status, hi, mid, lo, checksum], checksum valid, status code known (code concrete)"""
    status, hi, mid, lo = frame[0], frame[1], frame[2], frame[3]
    code = status & 0x0F
    ident = (status >> 4) & 0x0F
    if code in (SCI_OK, SCI_NO):
        return [("reply", ident, code)]
    if code == SCI_ERROR:
        return [("reply", ident, code)]
    if code == SCI_DALI8:
        return [("raw", lo)]
    if code == SCI_DALI16:
        return [("observed", 2, (mid << 8) | lo)]
    if code == SCI_DALI24:
        return [("observed", 3, (hi << 16) | (mid << 8) | lo)]
    return []
