"""Event message layout, transcribed from IEC 62386-103:2014 Table 3 (event source / addressing schemes)
and the event-information tables of parts 301 (push buttons), 303 (occupancy), 304 (light).
Independent of the library: plain data + a polymorphic decoder used as the oracle of C12 (and C03).

24-bit event frame: bit 16 = 0.
  scheme            bit23 bit22 bit15   bits 22:17 / 21:17        bits 14:10
  device              0     -     0     short address (6 bits)    instance type
  device/instance     0     -     1     short address (6 bits)    instance number
  device group        1     0     0     device group (5 bits)     instance type
  instance            1     0     1     instance type (5 bits)    instance number
  instance group      1     1     0     instance group (5 bits)   instance type
  (reserved)          1     1     1
  bits 9:0: event information
"""
from pyvc.spec import And, Or, Not, ite

PUSHBUTTON_TYPE = 1
OCCUPANCY_TYPE = 3
LIGHT_TYPE = 4

# IEC 62386-301 Table 2 - event information of a push-button instance
PUSHBUTTON_EVENTS = {
    0b0000000000: "ButtonReleased",
    0b0000000001: "ButtonPressed",
    0b0000000010: "ShortPress",
    0b0000000101: "DoublePress",
    0b0000001001: "LongPressStart",
    0b0000001011: "LongPressRepeat",
    0b0000001100: "LongPressStop",
    0b0000001110: "ButtonFree",
    0b0000001111: "ButtonStuck",
}


def scheme_fields(data, map_type=None, have_map_type=False):
    """source fields of an event frame (ints; None where the scheme does not carry the field).
    returns None for the reserved combination. `instance_type` of the device/instance scheme comes from
    the map (map_type) or is None when unknown."""
    b23 = (data >> 23) & 1
    b22 = (data >> 22) & 1
    b15 = (data >> 15) & 1
    hi6 = (data >> 17) & 0x3F
    hi5 = (data >> 17) & 0x1F
    lo5 = (data >> 10) & 0x1F
    info = data & 0x3FF
    out = {"short_address": None, "instance_number": None, "instance_group": None, "device_group": None,
           "instance_type": None, "event_info": info, "scheme": None}
    if b23 == 0:
        out["short_address"] = hi6
        if b15 == 0:
            out["scheme"] = "device"
            out["instance_type"] = lo5
        else:
            out["scheme"] = "device/instance"
            out["instance_number"] = lo5
            out["instance_type"] = map_type
    elif b22 == 0:
        if b15 == 0:
            out["scheme"] = "device group"
            out["device_group"] = hi5
            out["instance_type"] = lo5
        else:
            out["scheme"] = "instance"
            out["instance_type"] = hi5
            out["instance_number"] = lo5
    else:
        if b15 == 0:
            out["scheme"] = "instance group"
            out["instance_group"] = hi5
            out["instance_type"] = lo5
        else:
            return None
    return out


def event_class_name(instance_type, info):
    """name of the event the information denotes for an instance type"""
    if instance_type is None:
        return "AmbiguousInstanceType"
    if instance_type == PUSHBUTTON_TYPE:
        for code, name in PUSHBUTTON_EVENTS.items():
            if info == code:
                return name
        return "UnknownEvent"
    if instance_type == OCCUPANCY_TYPE:
        if (info >> 4) == 0:
            return "OccupancyEvent"
        return "UnknownEvent"
    if instance_type == LIGHT_TYPE:
        return "LightEvent"
    return "UnknownEvent"


def occupancy_flags(info):
    """Part 303 Table: bit0 movement, bit1 occupied, bit2 repeat, bit3 sensor type (1 = movement sensor)"""
    return {"movement": (info & 1) != 0, "occupied": (info & 2) != 0, "repeat": (info & 4) != 0,
            "sensor_is_movement": (info & 8) != 0}


# ----------------------------------------------------------------------------- independent encoder (oracle of C03)
# instance types by part number of the standard (IEC 62386-301 / -303 / -304)
INSTANCE_TYPE_OF_MODULE = {"dali.device.pushbutton": PUSHBUTTON_TYPE, "dali.device.occupancy": OCCUPANCY_TYPE,
                           "dali.device.light": LIGHT_TYPE}
PUSHBUTTON_CODE = {name: code for code, name in PUSHBUTTON_EVENTS.items()}


def encode_event(scheme, info, short_address=0, instance_number=0, device_group=0, instance_group=0, instance_type=0):
    """the 24-bit event frame Table 3 assigns to a source given in `scheme` (bit 16 = 0)"""
    if scheme == "device":
        return (short_address << 17) | (instance_type << 10) | info
    if scheme == "device/instance":
        return (short_address << 17) | (1 << 15) | (instance_number << 10) | info
    if scheme == "device group":
        return (1 << 23) | (device_group << 17) | (instance_type << 10) | info
    if scheme == "instance":
        return (1 << 23) | (instance_type << 17) | (1 << 15) | (instance_number << 10) | info
    if scheme == "instance group":
        return (1 << 23) | (1 << 22) | (instance_group << 17) | (instance_type << 10) | info
    raise ValueError(scheme)


def occupancy_info(movement, occupied, repeat, sensor_is_movement):
    return ite(movement, 1, 0) | ite(occupied, 2, 0) | ite(repeat, 4, 0) | ite(sensor_is_movement, 8, 0)
