"""Command tables of IEC 62386, transcribed from the standard (not derived from the library):
  part 102:2014 Table 15 (standard commands) and Table 16 (special commands),
  part 103:2014 Table 21/22 (device, instance and special commands),
  parts 202, 205, 206, 207, 209 (application extended commands 224..255 of device types 1, 4, 5, 6, 8),
  parts 301, 303, 304 (instance commands of push buttons, occupancy and light sensors).
This is the trusted oracle of property C03.  Rows or flags that could not be transcribed with confidence in this
offline sandbox are marked unverified (`u` set) and are excluded from the obligations, but still listed.

Frame layouts
  16 bit: [address byte Y][opcode byte].  Y = 0AAAAAAS short | 100AAAAS group | 1111111S broadcast |
          1111110S broadcast unaddressed; S = 1 selects a command (S = 0: direct arc power, second byte = level).
          Special commands use the address bytes 101CCCC1 / 110CCCC1 with the data in the second byte.
  24 bit: [address byte][instance byte][opcode].  address byte = 0AAAAAA1 short | 10GGGGG1 device group |
          11111111 broadcast | 11111101 broadcast unaddressed (bit 16 = 1: command frame);
          device commands carry the instance byte 0xFE; special commands are [0xC1][cmd][data] and
          [0xC5|0xC7|0xC9][data][data].
answer: "-" none, "yn" yes/no, "8" 8-bit value.   twice: the command shall be sent twice.
"""

Y, N = True, False


def _g(name, op, twice=N, ans="-", param=N, dt=0, u=""):
    return dict(kind="gear-std", name=name, opcode=op, twice=twice, answer=ans, param=param, devicetype=dt, u=u)


GEAR_GENERAL = [
    dict(kind="dapc", name="DAPC", twice=N, answer="-", devicetype=0, u=""),
    _g("Off", 0), _g("Up", 1), _g("Down", 2), _g("StepUp", 3), _g("StepDown", 4), _g("RecallMaxLevel", 5),
    _g("RecallMinLevel", 6), _g("StepDownAndOff", 7), _g("OnAndStepUp", 8), _g("EnableDAPCSequence", 9),
    _g("GoToLastActiveLevel", 10), _g("ContinuousUp", 11), _g("ContinuousDown", 12),
    _g("GoToScene", 16, param=Y),
    _g("Reset", 32, Y), _g("StoreActualLevelInDTR0", 33, Y), _g("SavePersistentVariables", 34, Y),
    _g("SetOperatingMode", 35, Y), _g("ResetMemoryBank", 36, Y), _g("IdentifyDevice", 37, Y),
    _g("SetMaxLevel", 42, Y), _g("SetMinLevel", 43, Y), _g("SetSystemFailureLevel", 44, Y),
    _g("SetPowerOnLevel", 45, Y), _g("SetFadeTime", 46, Y), _g("SetFadeRate", 47, Y), _g("SetExtendedFadeTime", 48, Y),
    _g("SetScene", 64, Y, param=Y), _g("RemoveFromScene", 80, Y, param=Y), _g("AddToGroup", 96, Y, param=Y),
    _g("RemoveFromGroup", 112, Y, param=Y), _g("SetShortAddress", 128, Y), _g("EnableWriteMemory", 129, Y),
    _g("QueryStatus", 144, ans="8"), _g("QueryControlGearPresent", 145, ans="yn"), _g("QueryLampFailure", 146, ans="yn"),
    _g("QueryLampPowerOn", 147, ans="yn"), _g("QueryLimitError", 148, ans="yn"), _g("QueryResetState", 149, ans="yn"),
    _g("QueryMissingShortAddress", 150, ans="yn"), _g("QueryVersionNumber", 151, ans="8"),
    _g("QueryContentDTR0", 152, ans="8"), _g("QueryDeviceType", 153, ans="8"), _g("QueryPhysicalMinimum", 154, ans="8"),
    _g("QueryPowerFailure", 155, ans="yn"), _g("QueryContentDTR1", 156, ans="8"), _g("QueryContentDTR2", 157, ans="8"),
    _g("QueryOperatingMode", 158, ans="8"), _g("QueryLightSourceType", 159, ans="8"),
    _g("QueryActualLevel", 160, ans="8"), _g("QueryMaxLevel", 161, ans="8"), _g("QueryMinLevel", 162, ans="8"),
    _g("QueryPowerOnLevel", 163, ans="8"), _g("QuerySystemFailureLevel", 164, ans="8"),
    _g("QueryFadeTimeFadeRate", 165, ans="8"), _g("QueryManufacturerSpecificMode", 166, ans="yn"),
    _g("QueryNextDeviceType", 167, ans="8"), _g("QueryExtendedFadeTime", 168, ans="8"),
    _g("QueryControlGearFailure", 170, ans="yn"), _g("QuerySceneLevel", 176, ans="8", param=Y),
    _g("QueryGroupsZeroToSeven", 192, ans="8"), _g("QueryGroupsEightToFifteen", 193, ans="8"),
    _g("QueryRandomAddressH", 194, ans="8"), _g("QueryRandomAddressM", 195, ans="8"),
    _g("QueryRandomAddressL", 196, ans="8"), _g("ReadMemoryLocation", 197, ans="8"),
    _g("QueryExtendedVersionNumber", 255, ans="8"),
]


def _s(name, addr, data="none", twice=N, ans="-", u=""):
    return dict(kind="gear-special", name=name, addr=addr, data=data, twice=twice, answer=ans, devicetype=0, u=u)


GEAR_SPECIAL = [
    _s("Terminate", 0xA1), _s("DTR0", 0xA3, "byte"), _s("Initialise", 0xA5, "initialise", Y), _s("Randomise", 0xA7, twice=Y),
    _s("Compare", 0xA9, ans="yn"), _s("Withdraw", 0xAB), _s("Ping", 0xAD), _s("SearchaddrH", 0xB1, "byte"),
    _s("SearchaddrM", 0xB3, "byte"), _s("SearchaddrL", 0xB5, "byte"), _s("ProgramShortAddress", 0xB7, "shortaddr"),
    _s("VerifyShortAddress", 0xB9, "shortaddr", ans="yn"), _s("QueryShortAddress", 0xBB, ans="8"),
    _s("EnableDeviceType", 0xC1, "byte"), _s("DTR1", 0xC3, "byte"), _s("DTR2", 0xC5, "byte"),
    _s("WriteMemoryLocation", 0xC7, "byte", ans="8"), _s("WriteMemoryLocationNoReply", 0xC9, "byte"),
]

# ---- part 207, device type 6 (LED modules)
LED = [_g(n, op, tw, a, dt=6, u=("twice" if n == "ReferenceSystemPower" else "")) for n, op, tw, a in [
    ("ReferenceSystemPower", 224, Y, "-"), ("EnableCurrentProtector", 225, Y, "-"), ("DisableCurrentProtector", 226, Y, "-"),
    ("SelectDimmingCurve", 227, Y, "-"), ("StoreDTRAsFastFadeTime", 228, Y, "-"), ("QueryGearType", 237, N, "8"),
    ("QueryDimmingCurve", 238, N, "8"), ("QueryPossibleOperatingModes", 239, N, "8"), ("QueryFeatures", 240, N, "8"),
    ("QueryFailureStatus", 241, N, "8"), ("QueryShortCircuit", 242, N, "yn"), ("QueryOpenCircuit", 243, N, "yn"),
    ("QueryLoadDecrease", 244, N, "yn"), ("QueryLoadIncrease", 245, N, "yn"), ("QueryCurrentProtectorActive", 246, N, "yn"),
    ("QueryThermalShutDown", 247, N, "yn"), ("QueryThermalOverload", 248, N, "yn"), ("QueryReferenceRunning", 249, N, "yn"),
    ("QueryReferenceMeasurementFailed", 250, N, "yn"), ("QueryCurrentProtectorEnabled", 251, N, "yn"),
    ("QueryOperatingMode", 252, N, "8"), ("QueryFastFadeTime", 253, N, "8"), ("QueryMinFastFadeTime", 254, N, "8"),
    ("QueryExtendedVersionNumber", 255, N, "8")]]

# ---- part 209, device type 8 (colour control)
COLOUR = [_g(n, op, tw, a, dt=8, u=u) for n, op, tw, a, u in [
    ("SetTemporaryXCoordinate", 224, N, "-", ""), ("SetTemporaryYCoordinate", 225, N, "-", ""), ("Activate", 226, N, "-", ""),
    ("XCoordinateStepUp", 227, N, "-", ""), ("XCoordinateStepDown", 228, N, "-", ""), ("YCoordinateStepUp", 229, N, "-", ""),
    ("YCoordinateStepDown", 230, N, "-", ""), ("SetTemporaryColourTemperature", 231, N, "-", ""),
    ("ColourTemperatureTcStepCooler", 232, N, "-", ""), ("ColourTemperatureTcStepWarmer", 233, N, "-", ""),
    ("SetTemporaryPrimaryNDimLevel", 234, N, "-", ""), ("SetTemporaryRGBDimLevel", 235, N, "-", ""),
    ("SetTemporaryWAFDimLevel", 236, N, "-", ""), ("SetTemporaryRGBWAFControl", 237, N, "-", ""),
    ("CopyReportToTemporary", 238, N, "-", ""), ("StoreTYPrimaryN", 240, Y, "-", ""),
    ("StoreXYCoordinatePrimaryN", 241, Y, "-", ""), ("StoreColourTemperatureTcLimit", 242, Y, "-", ""),
    ("StoreGearFeaturesStatus", 243, Y, "-", ""), ("AssignColourToLinkedChannel", 245, Y, "-", ""),
    ("StartAutoCalibration", 246, Y, "-", "twice"), ("QueryGearFeaturesStatus", 247, N, "8", ""),
    ("QueryColourStatus", 248, N, "8", ""), ("QueryColourTypeFeatures", 249, N, "8", ""), ("QueryColourValue", 250, N, "8", ""),
    ("QueryRBGWAFControl", 251, N, "8", ""), ("QueryAssignedColour", 252, N, "8", ""),
    ("QueryExtendedVersionNumber", 255, N, "8", "")]]

# ---- part 202, device type 1 (self-contained emergency lighting); the send-twice column could not be confirmed offline
EMERGENCY = [_g(n, op, tw, a, dt=1, u="twice") for n, op, tw, a in [
    ("Rest", 224, N, "-"), ("Inhibit", 225, N, "-"), ("ReLightResetInhibit", 226, N, "-"), ("StartFunctionTest", 227, Y, "-"),
    ("StartDurationTest", 228, Y, "-"), ("StopTest", 229, Y, "-"), ("ResetFunctionTestDoneFlag", 230, Y, "-"),
    ("ResetDurationTestDoneFlag", 231, Y, "-"), ("ResetLampTime", 232, Y, "-"), ("StoreDTRAsEmergencyLevel", 233, Y, "-"),
    ("StoreTestDelayTimeHighByte", 234, Y, "-"), ("StoreTestDelayTimeLowByte", 235, Y, "-"),
    ("StoreFunctionTestInterval", 236, Y, "-"), ("StoreDurationTestInterval", 237, Y, "-"),
    ("StoreTestExecutionTimeout", 238, Y, "-"), ("StoreProlongTime", 239, Y, "-"), ("StartIdentification", 240, Y, "-"),
    ("QueryBatteryCharge", 241, N, "8"), ("QueryTestTiming", 242, N, "8"), ("QueryDurationTestResult", 243, N, "8"),
    ("QueryLampEmergencyTime", 244, N, "8"), ("QueryLampTotalOperationTime", 245, N, "8"),
    ("QueryEmergencyLevel", 246, N, "8"), ("QueryEmergencyMinLevel", 247, N, "8"), ("QueryEmergencyMaxLevel", 248, N, "8"),
    ("QueryRatedDuration", 249, N, "8"), ("QueryEmergencyMode", 250, N, "8"), ("QueryEmergencyFeatures", 251, N, "8"),
    ("QueryEmergencyFailureStatus", 252, N, "8"), ("QueryEmergencyStatus", 253, N, "8"),
    ("PerformDTRSelectedFunction", 254, Y, "-"), ("QueryExtendedVersionNumber", 255, N, "8")]]

# ---- part 205, device type 4 (supply-voltage controller for incandescent lamps)
INCANDESCENT = [_g(n, op, tw, a, dt=4, u=u) for n, op, tw, a, u in [
    ("ReferenceSystemPower", 224, Y, "-", "twice"), ("SelectDimmingCurve", 225, Y, "-", ""), ("QueryDimmingCurve", 238, N, "8", ""),
    ("QueryDimmerStatus", 239, N, "8", ""), ("QueryFeatures", 240, N, "8", ""), ("QueryFailureStatus", 241, N, "8", ""),
    ("QueryDimmerTemperature", 242, N, "8", ""), ("QueryRMSSupplyVoltage", 243, N, "8", ""),
    ("QuerySupplyFrequency", 244, N, "8", ""), ("QueryRMSLoadVoltage", 245, N, "8", ""), ("QueryRMSLoadCurrent", 246, N, "8", ""),
    ("QueryRealLoadPower", 247, N, "8", ""), ("QueryLoadRating", 248, N, "8", ""), ("QueryReferenceRunning", 249, N, "yn", ""),
    ("QueryReferenceMeasurementFailed", 250, N, "yn", ""), ("QueryExtendedVersionNumber", 255, N, "8", "")]]

# ---- part 206, device type 5 (conversion from digital signal into d.c. voltage)
CONVERTER = [_g(n, op, tw, a, dt=5) for n, op, tw, a in [
    ("SetOutputRange1To10V", 224, Y, "-"), ("SetOutputRange0To10V", 225, Y, "-"), ("SwitchOnInternalPullUp", 226, Y, "-"),
    ("SwitchOffInternalPullUp", 227, Y, "-"), ("StoreDtrAsPhysicalMinimum", 228, Y, "-"), ("SelectDimmingCurve", 229, Y, "-"),
    ("ResetConverterSettings", 230, Y, "-"), ("QueryDimmingCurve", 238, N, "8"), ("QueryOutputLevel", 239, N, "8"),
    ("QueryConverterFeatures", 240, N, "8"), ("QueryFailureStatus", 241, N, "8"), ("QueryConverterStatus", 242, N, "8"),
    ("QueryExtendedVersionNumber", 255, N, "8")]]


def _d(name, op, twice=N, ans="-", u=""):
    return dict(kind="dev-std", name=name, opcode=op, twice=twice, answer=ans, devicetype=0, u=u)


def _i(name, op, twice=N, ans="-", u=""):
    return dict(kind="dev-inst", name=name, opcode=op, twice=twice, answer=ans, devicetype=0, u=u)


DEVICE_GENERAL = [
    _d("IdentifyDevice", 0x00, Y), _d("ResetPowerCycleSeen", 0x01, Y), _d("Reset", 0x10, Y), _d("ResetMemoryBank", 0x11, Y),
    _d("SetShortAddress", 0x14, Y), _d("EnableWriteMemory", 0x15, Y), _d("EnableApplicationController", 0x16, Y),
    _d("DisableApplicationController", 0x17, Y), _d("SetOperatingMode", 0x18, Y),
    _d("AddToDeviceGroupsZeroToFifteen", 0x19, Y), _d("AddToDeviceGroupsSixteenToThirtyOne", 0x1A, Y),
    _d("RemoveFromDeviceGroupsZeroToFifteen", 0x1B, Y), _d("RemoveFromDeviceGroupsSixteenToThirtyOne", 0x1C, Y),
    _d("StartQuiescentMode", 0x1D, Y), _d("StopQuiescentMode", 0x1E, Y), _d("EnablePowerCycleNotification", 0x1F, Y),
    _d("DisablePowerCycleNotification", 0x20, Y), _d("SavePersistentVariables", 0x21, Y),
    _d("QueryDeviceStatus", 0x30, ans="8"), _d("QueryApplicationControllerError", 0x31, ans="8"),
    _d("QueryInputDeviceError", 0x32, ans="8"), _d("QueryMissingShortAddress", 0x33, ans="yn"),
    _d("QueryVersionNumber", 0x34, ans="8"), _d("QueryNumberOfInstances", 0x35, ans="8"),
    _d("QueryContentDTR0", 0x36, ans="8"), _d("QueryContentDTR1", 0x37, ans="8"), _d("QueryContentDTR2", 0x38, ans="8"),
    _d("QueryRandomAddressH", 0x39, ans="8"), _d("QueryRandomAddressM", 0x3A, ans="8"), _d("QueryRandomAddressL", 0x3B, ans="8"),
    _d("ReadMemoryLocation", 0x3C, ans="8"), _d("QueryApplicationControlEnabled", 0x3D, ans="yn"),
    _d("QueryOperatingMode", 0x3E, ans="8"), _d("QueryManufacturerSpecificMode", 0x3F, ans="yn"),
    _d("QueryQuiescentMode", 0x40, ans="yn"), _d("QueryDeviceGroupsZeroToSeven", 0x41, ans="8"),
    _d("QueryDeviceGroupsEightToFifteen", 0x42, ans="8"), _d("QueryDeviceGroupsSixteenToTwentyThree", 0x43, ans="8"),
    _d("QueryDeviceGroupsTwentyFourToThirtyOne", 0x44, ans="8"), _d("QueryPowerCycleNotification", 0x45, ans="yn"),
    _d("QueryDeviceCapabilities", 0x46, ans="8"), _d("QueryExtendedVersionNumber", 0x47, ans="8"),
    _d("QueryResetState", 0x48, ans="yn"),
    _i("SetEventPriority", 0x61, Y), _i("EnableInstance", 0x62, Y), _i("DisableInstance", 0x63, Y),
    _i("SetPrimaryInstanceGroup", 0x64, Y), _i("SetInstanceGroup1", 0x65, Y), _i("SetInstanceGroup2", 0x66, Y),
    _i("SetEventScheme", 0x67, Y), _i("SetEventFilter", 0x68, Y),
    _i("QueryInstanceType", 0x80, ans="8"), _i("QueryResolution", 0x81, ans="8"), _i("QueryInstanceError", 0x82, ans="8"),
    _i("QueryInstanceStatus", 0x83, ans="8"), _i("QueryEventPriority", 0x84, ans="8"),
    _i("QueryInstanceEnabled", 0x86, ans="yn"), _i("QueryPrimaryInstanceGroup", 0x88, ans="8"),
    _i("QueryInstanceGroup1", 0x89, ans="8"), _i("QueryInstanceGroup2", 0x8A, ans="8"), _i("QueryEventScheme", 0x8B, ans="8"),
    _i("QueryInputValue", 0x8C, ans="8"), _i("QueryInputValueLatch", 0x8D, ans="8"), _i("QueryFeatureType", 0x8E, ans="8"),
    _i("QueryNextFeatureType", 0x8F, ans="8"), _i("QueryEventFilterZeroToSeven", 0x90, ans="8"),
    _i("QueryEventFilterEightToFifteen", 0x91, ans="8"), _i("QueryEventFilterSixteenToTwentyThree", 0x92, ans="8"),
]


def _ds(name, b2, data="none", twice=N, ans="-", b1=0xC1, u=""):
    return dict(kind="dev-special", name=name, byte1=b1, byte2=b2, data=data, twice=twice, answer=ans, devicetype=0, u=u)


DEVICE_SPECIAL = [
    _ds("Terminate", 0x00), _ds("Initialise", 0x01, "byte", Y), _ds("Randomise", 0x02, twice=Y), _ds("Compare", 0x03, ans="yn"),
    _ds("Withdraw", 0x04), _ds("SearchAddrH", 0x05, "byte"), _ds("SearchAddrM", 0x06, "byte"), _ds("SearchAddrL", 0x07, "byte"),
    _ds("ProgramShortAddress", 0x08, "byte"), _ds("VerifyShortAddress", 0x09, "byte", ans="yn"),
    _ds("QueryShortAddress", 0x0A, ans="8"), _ds("WriteMemoryLocation", 0x20, "byte", ans="8"),
    _ds("WriteMemoryLocationNoReply", 0x21, "byte"), _ds("DTR0", 0x30, "byte"), _ds("DTR1", 0x31, "byte"),
    _ds("DTR2", 0x32, "byte"), _ds("SendTestframe", 0x33, "byte"),
    _ds("DirectWriteMemory", None, "two", ans="8", b1=0xC5), _ds("DTR1DTR0", None, "two", b1=0xC7),
    _ds("DTR2DTR1", None, "two", b1=0xC9),
]

# ---- parts 301 / 303 / 304: instance commands (opcodes transcribed from memory; not confirmed offline)
PUSHBUTTON = [_i(n, op, tw, a, u="row") for n, op, tw, a in [
    ("SetShortTimer", 0x00, Y, "-"), ("SetDoubleTimer", 0x01, Y, "-"), ("SetRepeatTimer", 0x02, Y, "-"),
    ("SetStuckTimer", 0x03, Y, "-"), ("QueryShortTimer", 0x0A, N, "8"), ("QueryShortTimerMin", 0x0B, N, "8"),
    ("QueryDoubleTimer", 0x0C, N, "8"), ("QueryDoubleTimerMin", 0x0D, N, "8"), ("QueryRepeatTimer", 0x0E, N, "8"),
    ("QueryStuckTimer", 0x0F, N, "8")]]
OCCUPANCY = [_i(n, op, tw, a, u="row") for n, op, tw, a in [
    ("CatchMovement", 0x20, N, "-"), ("SetHoldTimer", 0x21, Y, "-"), ("SetReportTimer", 0x22, Y, "-"),
    ("SetDeadtimeTimer", 0x23, Y, "-"), ("CancelHoldTimer", 0x24, N, "-"), ("QueryDeadtimeTimer", 0x2C, N, "8"),
    ("QueryHoldTimer", 0x2D, N, "8"), ("QueryReportTimer", 0x2E, N, "8"), ("QueryCatching", 0x2F, N, "yn")]]
LIGHT = [_i(n, op, tw, a, u="row") for n, op, tw, a in [
    ("SetReportTimer", 0x30, Y, "-"), ("SetHysteresis", 0x31, Y, "-"), ("SetDeadtimeTimer", 0x32, Y, "-"),
    ("SetHysteresisMin", 0x33, Y, "-"), ("QueryHysteresisMin", 0x3C, N, "8"), ("QueryDeadtimeTimer", 0x3D, N, "8"),
    ("QueryReportTimer", 0x3E, N, "8"), ("QueryHysteresis", 0x3F, N, "8")]]

TABLES = {
    "dali.gear.general": GEAR_GENERAL + GEAR_SPECIAL,
    "dali.gear.led": LED,
    "dali.gear.colour": COLOUR,
    "dali.gear.emergency": EMERGENCY,
    "dali.gear.incandescent": INCANDESCENT,
    "dali.gear.converter": CONVERTER,
    "dali.device.general": DEVICE_GENERAL + DEVICE_SPECIAL,
    "dali.device.pushbutton": PUSHBUTTON,
    "dali.device.occupancy": OCCUPANCY,
    "dali.device.light": LIGHT,
}
# classes that are not rows of a command table
NOT_COMMANDS = {"UnknownGearCommand", "UnknownDeviceCommand", "UnknownEvent", "AmbiguousInstanceType",
                "ButtonReleased", "ButtonPressed", "ShortPress", "DoublePress", "LongPressStart", "LongPressRepeat",
                "LongPressStop", "ButtonFree", "ButtonStuck", "OccupancyEvent", "LightEvent"}


# ----------------------------------------------------------------------------- independent encoder
def gear_address_byte(kind, n, selector):
    """first byte of a 16-bit frame"""
    if kind == "short":
        return (n << 1) | selector
    if kind == "group":
        return 0x80 | (n << 1) | selector
    if kind == "broadcast":
        return 0xFE | selector
    if kind == "unaddressed":
        return 0xFC | selector
    raise KeyError(kind)


def device_address_byte(kind, n):
    """first byte of a 24-bit command frame (bit 16 set)"""
    if kind == "short":
        return (n << 1) | 1
    if kind == "group":
        return 0x80 | (n << 1) | 1
    if kind == "broadcast":
        return 0xFF
    if kind == "unaddressed":
        return 0xFD
    raise KeyError(kind)


INSTANCE_FLAGS = {"InstanceNumber": 0x00, "InstanceGroup": 0x80, "InstanceType": 0xC0, "FeatureInstanceNumber": 0x20,
                  "FeatureInstanceGroup": 0xA0, "FeatureInstanceType": 0x60}
INSTANCE_VALUES = {"FeatureInstanceBroadcast": 0xFD, "InstanceBroadcast": 0xFF, "FeatureDevice": 0xFC, "Device": 0xFE}


def instance_byte(kind, n):
    if kind in INSTANCE_FLAGS:
        return INSTANCE_FLAGS[kind] | n
    return INSTANCE_VALUES[kind]
