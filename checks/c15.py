"""C15 - Async drivers keep transactions atomic and device-type prefixes adjacent (sequential part).

What is proved, function by function, on every exit path (normal return, CommunicationError, an exception raised by the
sequence, TimeoutError, CancelledError injected at every await): the transaction-lock token is balanced, the gateway is
written to (through _send_raw / send) only while this task holds the token, every command with a device type is
immediately preceded - inside the same critical section - by EnableDeviceType of that type, and a started sequence is
closed.  That the global wire trace is a concatenation of such critical sections is the mutual-exclusion contract of
asyncio.Lock (assumed).  'Every caller eventually completes' is liveness and is not decided."""
import asyncio
import logging
from pyvc.engine import Unit, contract, CONTRACTS
from pyvc.spec import And, Or, Not, ite, Implies, is_instance, type_of, require, throw, new_object
from pyvc.path import RaiseEx, PathEnd
from pyvc.values import SObj
from pyvc.aio import World, install
from pyvc.loops import LoopSpec
from pyvc import sym
from dali import frame as F, command as C, sequences as S
from dali.exceptions import CommunicationError
from dali.driver import hid as HID, serial as SER
from dali.gear import general as G
import contracts.frame as CF
from checks.c01 import USE as USE0
from checks.drv_common import abstract_command

cur = {}
RAW_KEYS = ["dali.driver.hid:tridonic._send_raw", "dali.driver.hid:tridonic._power_supply"]
SER_SEND = "dali.driver.serial:DriverLubaRs232.send"


def _wire(self, command, kind):
    """assumed contract of the gateway-level send: must be called with the transaction token held; records the
    command; may fail with CommunicationError, may be cancelled, otherwise returns an arbitrary response object"""
    w = cur["world"]
    lock = self.transaction_lock
    cur["calls"].append((kind, command, lock.held))
    w.cancel_point("send_raw")
    if w.choice("gateway_fails"):
        cur["failures"] = cur.get("failures", 0) + 1
        if cur["failures"] > 2:
            raise PathEnd()         # a gateway that fails for ever: the retry loop never ends (liveness)
        if w.native:
            raise CommunicationError()
        throw(CommunicationError)
    rc = command.response if kind == "cmd" else None
    if rc is None:
        return None
    return new_object(rc, _value=None)


@contract(RAW_KEYS[0])
def send_raw_contract(self, command):
    return _wire(self, command, "cmd")


@contract(RAW_KEYS[1])
def power_supply_contract(self, supply_on):
    return _wire(self, supply_on, "power")


@contract(SER_SEND)
def serial_send_contract(self, msg, in_transaction=False):
    require(in_transaction, "a sequence sends with in_transaction=True")
    return _wire(self, msg, "cmd")


SEQ_BOUND = {"n": 3}
_building_for_c17 = False


class SeqModel:
    """a command sequence as the driver sees it: up to three yields (commands with or without a device type, sleeps,
    progress reports), then StopIteration or an exception of its own"""

    def __init__(self, ctx, unlimited=False):
        self.ctx = ctx
        self.bound = SEQ_BOUND["n"]
        self.unlimited = unlimited      # loop-rule units: one arbitrary step per (arbitrary) iteration
        self.n = 0
        self.closed = False
        self.started = False
        self.yielded = []
        self.raised = None

    def send(self, response):
        ctx = self.ctx
        self.started = True
        self.n += 1
        k = ctx.choose_int(ctx.fresh_int("seq_step", 0, 5 if (self.n <= self.bound or self.unlimited) else 1), "sequence step")
        if k == 0:
            v = ctx.fresh_int("seq_result", 0, 255)
            if getattr(ctx, "native", False):
                raise StopIteration(v)
            raise RaiseEx(StopIteration(v))
        if k == 1:
            self.raised = "sequence-error"
            ecls = S.DALISequenceError if hasattr(S, "DALISequenceError") else Exception
            if getattr(ctx, "native", False):
                raise ecls()
            raise RaiseEx(SObj(ecls, {"args": ()}))
        if k == 2:
            x = new_object(S.sleep, delay=ctx.fresh_int("delay", 0, 5))
        elif k == 3:
            x = new_object(S.progress, message="m", completed=None, size=None)
        elif k == 4:
            x, _ = abstract_command(ctx, 16, False, C.NumericResponse, devicetype=0, p="c%d" % self.n)
        else:
            x, _ = abstract_command(ctx, 16, False, None, devicetype=ctx.fresh_int("dt", 1, 255), p="c%d" % self.n)
        self.yielded.append(x)
        return x

    def close(self):
        self.closed = True


def check_discipline(ctx, lock, held_before, label=""):
    """obligations common to every entry point"""
    calls = cur["calls"]
    ctx.prove(label + "lock-token-balanced", lock.held == held_before,
              detail="transaction lock %s on exit" % ("held" if lock.held else "free"))
    ctx.prove(label + "gateway-used-only-under-the-lock", all(h for _, _, h in calls))
    ctx.prove(label + "never-releases-a-lock-held-by-another-task", lock.stolen == 0,
              detail="the task released the transaction lock without holding it while another task was inside its "
                     "critical section (asyncio.Lock.release does not check ownership)")
    # device-type prefix adjacency
    ok = True
    for i, (kind, cmd, _) in enumerate(calls):
        if kind != "cmd" or type_of(cmd) is G.EnableDeviceType:
            continue
        dt = cmd.devicetype
        if isinstance(dt, int) and dt == 0:
            continue
        prev = calls[i - 1] if i else None
        good = prev is not None and prev[0] == "cmd" and type_of(prev[1]) is G.EnableDeviceType
        ok = And(ok, Or(dt == 0, And(good, prev[1].param == dt) if good else False))
    ctx.prove(label + "device-type-prefix-immediately-precedes-its-command", ok)
    stray = [i for i, (kind, cmd, _) in enumerate(calls) if kind == "cmd" and type_of(cmd) is G.EnableDeviceType
             and not (i + 1 < len(calls) and calls[i + 1][0] == "cmd" and type_of(calls[i + 1][1]) is not G.EnableDeviceType)]
    # an EnableDeviceType whose command was never sent is only acceptable when the send failed / was cancelled
    cur["stray"] = stray


def new_world(ctx, interp):
    world = World(ctx, interp, cancel=True)
    install(interp, world)
    cur.clear()
    cur.update(world=world, calls=[])
    # native replay: the gateway-level sends are replaced by the same assumed contracts
    world.native_contracts = {RAW_KEYS[0]: send_raw_contract, RAW_KEYS[1]: power_supply_contract, SER_SEND: serial_send_contract}
    return world


def units(tier):
    CF.WMAX = 64
    SEQ_BOUND["n"] = 4 if tier == "thorough" else 3
    U = []
    USE = USE0 + RAW_KEYS

    def unit(name, runner, use=USE, **kw):
        U.append(Unit("C15/" + name, "C15", None, None, use=use, width=72, kind="custom", runner=runner,
                      max_paths=200000, **kw))

    def mk_hid(ctx, world, held=False):
        lock = world.lock("transaction")
        lock.held = held
        drv = ctx.new(HID.tridonic, _log=logging.getLogger("x"), transaction_lock=lock, exceptions_on_send=True)
        return drv, lock

    for in_tx in (False, True):
        for exc in (True, False):
            def r_send(ctx, interp, fn, in_tx=in_tx, exc=exc):
                world = new_world(ctx, interp)
                drv, lock = mk_hid(ctx, world, held=in_tx)
                dt = ctx.int("devicetype", 0, 255)
                cmd, _ = abstract_command(ctx, 16, False, C.NumericResponse, devicetype=dt)
                out = world.run(HID.hid.send, drv, cmd, in_transaction=in_tx, exceptions=exc)
                if out[0] == "blocked":
                    return
                ctx.cover()
                check_discipline(ctx, lock, in_tx)
                if out[0] == "raise":
                    ctx.prove("only-communication-errors-or-cancellation-escape",
                              issubclass(out[1], (CommunicationError, asyncio.CancelledError)), detail="raised %s" % out[1].__name__)
                    if not exc:
                        ctx.prove("communication-errors-are-retried-when-exceptions-are-off", not issubclass(out[1], CommunicationError))
                else:
                    last = cur["calls"][-1] if cur["calls"] else None
                    ctx.prove("the-command-itself-was-sent-last", last is not None and last[1] is cmd)
            unit("hid.send/in_transaction=%s/exceptions=%s" % (in_tx, exc), r_send)

    def r_power(ctx, interp, fn):
        world = new_world(ctx, interp)
        drv, lock = mk_hid(ctx, world)
        out = world.run(HID.hid.power_supply, drv, ctx.bool("on"))
        if out[0] == "blocked":
            return
        ctx.cover()
        check_discipline(ctx, lock, False)
    unit("hid.power_supply", r_power)

    def r_seq(ctx, interp, fn):
        world = new_world(ctx, interp)
        drv, lock = mk_hid(ctx, world)
        seq = SeqModel(ctx)
        out = world.run(HID.hid.run_sequence, drv, seq)
        if out[0] == "blocked":
            return
        ctx.cover()
        check_discipline(ctx, lock, False)
        ctx.prove("a-started-sequence-is-closed-on-every-exit", seq.closed or not seq.started,
                  detail="outcome %r" % (out[:2],))
        ctx.prove("whole-sequence-inside-one-critical-section", lock.acquisitions <= 1)
        if out[0] == "return":
            sent = [c for k, c, _ in cur["calls"] if type_of(c) is not G.EnableDeviceType]
            want = [x for x in seq.yielded if is_instance(x, C.Command)]
            ctx.prove("every-yielded-command-sent-once-in-order", len(sent) == len(want) and all(a is b for a, b in zip(sent, want)))
    unit("hid.run_sequence", r_seq)

    # serial base class: run_sequence over send(in_transaction=True)
    def r_sseq(ctx, interp, fn):
        world = new_world(ctx, interp)
        lock = world.lock("transaction")
        drv = ctx.new(SER.DriverLubaRs232, transaction_lock=lock, _connected=world.event(True, "connected"))
        seq = SeqModel(ctx)
        out = world.run(SER.DriverSerialBase.run_sequence, drv, seq)
        if out[0] == "blocked":
            return
        ctx.cover()
        check_discipline(ctx, lock, False)
        ctx.prove("a-started-sequence-is-closed-on-every-exit", seq.closed or not seq.started)
        ctx.prove("whole-sequence-inside-one-critical-section", lock.acquisitions <= 1)
    unit("serial.run_sequence", r_sseq, use=USE0 + [SER_SEND])

    # ------------------------------------------------------------ sequences of ANY length: the loop rule on `while True`
    def any_length(name, fn_key, runfn, mk, use):
        st = {}

        def iteration_ok():
            """what one iteration may send: nothing (sleep / progress), the command, or EnableDeviceType(dt) directly
            followed by the command that needs it - all of it under the lock"""
            calls = cur["calls"]
            if not all(h for _, _, h in calls):
                return False
            cmds = [c for k, c, _ in calls]
            last = st["seq"].yielded[-1] if st["seq"].yielded else None
            if not cmds:
                return last is None or not is_instance(last, C.Command)
            if cmds[-1] is not last:
                return False
            if len(cmds) == 1:
                return cmds[0].devicetype == 0
            if len(cmds) == 2 and type_of(cmds[0]) is G.EnableDeviceType:
                return And(cmds[1].devicetype != 0, cmds[0].param == cmds[1].devicetype)
            return False

        def inv(lc):
            lock, seq = st["lock"], st["seq"]
            conds = {"lock-held-throughout": lock.held is True, "one-critical-section": lock.acquisitions == 1,
                     "never-releases-a-lock-held-by-another-task": lock.stolen == 0,
                     "sequence-still-open": not seq.closed}
            if lc.phase == "keep":
                conds["sends-exactly-what-was-yielded-with-its-device-type-prefix"] = iteration_ok()
            return conds

        def havoc(lc):
            cur["calls"] = []
            cur["failures"] = 0
            st["seq"].yielded = []
            st["seq"].started = True
            lc.set("response", None if lc.ctx.fork(lc.ctx.fresh_bool("no_previous_response").e)
                   else new_object(C.NumericResponse, _value=None))

        def runner(ctx, interp, fn):
            if getattr(ctx, "native", False):
                return      # loop-rule states are not executions; the bounded-length units replay natively
            world = new_world(ctx, interp)
            drv, lock = mk(ctx, world)
            seq = SeqModel(ctx, unlimited=True)
            st.update(lock=lock, seq=seq)
            out = world.run(runfn, drv, seq)
            if out[0] == "blocked":
                return
            ctx.cover()
            ctx.prove("lock-token-balanced", lock.held is False, detail="outcome %r" % (out[:2],))
            ctx.prove("never-releases-a-lock-held-by-another-task", lock.stolen == 0)
            ctx.prove("a-started-sequence-is-closed-on-every-exit", seq.closed or not seq.started)
            ctx.prove("gateway-used-only-under-the-lock", all(h for _, _, h in cur["calls"]))
            if out[0] == "raise":
                ctx.prove("only-the-sequences-own-errors-gateway-errors-or-cancellation-escape",
                          issubclass(out[1], (CommunicationError, asyncio.CancelledError, S.DALISequenceError)),
                          detail="raised %s" % out[1].__name__)
        U.append(Unit("C15/" + name, "C15", None, None, use=use, width=72, kind="custom", runner=runner, max_paths=200000,
                      loops={(fn_key, 0): LoopSpec("commands", inv, havoc,
                                                   roles={"response": ("response", lambda v: v is None)})}))

    def mk_ser(ctx, world):
        lock = world.lock("transaction")
        return ctx.new(SER.DriverLubaRs232, transaction_lock=lock, _connected=world.event(True, "connected")), lock
    any_length("hid.run_sequence/any-length", "dali.driver.hid:hid.run_sequence", HID.hid.run_sequence,
               lambda ctx, world: mk_hid(ctx, world), USE)
    any_length("serial.run_sequence/any-length", "dali.driver.serial:DriverSerialBase.run_sequence",
               SER.DriverSerialBase.run_sequence, mk_ser, USE0 + [SER_SEND])
    # the sender must never go to sleep while a report for it is already queued (lost wake-up: it would hang holding the
    # transaction lock, and with it every other caller) - the safety core of "every caller eventually completes";
    # units shared with C16
    import checks.c16 as C16
    if not getattr(C16, "_building_for_c15", False):
        C16._building_for_c15 = True
        C16._building_for_c18 = True          # C16's own sharing with C18 is not needed here
        try:
            for u16 in C16.units(tier):
                if u16.name.startswith("C16/tridonic/_send_raw/"):
                    U.append(Unit("C15/no-lost-wakeup/" + u16.name[len("C16/"):], "C15", None, None, use=u16.use, width=72,
                                  kind="custom", runner=u16.runner, max_paths=200000))
        finally:
            C16._building_for_c15 = False
            C16._building_for_c18 = False
    # the serial drivers' own send(): lock discipline under cancellation at every await (units shared with C17)
    if not _building_for_c17:
        import checks.c17 as C17
        for u17 in C17.units(tier):
            if "/send-cancelled-at-any-await" in u17.name:
                U.append(Unit("C15/" + u17.name[len("C17/"):], "C15", None, None, use=u17.use, width=72, kind="custom",
                              runner=u17.runner, max_paths=200000))
    return U


# checks whose proof units establish the callee contracts applied here (re-verified by this check, see main.dependency_units)
DEPENDENCIES = ['C04', 'C05']

META = {
    "level": "proof",
    "bounds": {"sequences": "sequences of ANY length by the loop rule on run_sequence's `while True` (one arbitrary step per arbitrary "
               "iteration: command without / with a device type 1..255, sleep, progress, StopIteration, an exception of its "
               "own); additionally every sequence of up to three yields from the start (these replay natively)", "faults": "CommunicationError from the gateway at any "
               "send (up to two consecutive failures when exceptions are off), CancelledError injected at every await"},
    "assumptions": [
        "the gateway-level send (_send_raw / _power_supply / serial send) is used through an assumed contract: requires the "
        "transaction token, records the command, may raise CommunicationError or be cancelled",
        "MUTUAL EXCLUSION of asyncio.Lock and cooperative scheduling are assumed: they turn the per-task facts proved here "
        "(token balance, writes only under the token, adjacency inside the critical section) into the global claim that the "
        "wire trace is a concatenation of whole caller units",
    ],
    "undecided_clauses": ["'every caller eventually completes' (liveness)", "the all-schedules quantifier as such (reduced to "
                          "sequential obligations + assumed lock semantics, reduction not mechanised)"],
    "trusted_base": ["pyvc/aio.py"],
}
