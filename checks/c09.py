"""C09 - Memory-bank reads return the declared bytes and leave the unit untouched."""
from pyvc.engine import Unit
from pyvc.spec import And, Or, Not, ite, Implies, is_instance, type_of
from pyvc.seq import Harness
from pyvc.values import values_equal, SBytes, Deferred
from pyvc import sym
from dali import address as A
from dali.gear import general as G
from dali.device import general as D
from dali.memory import location as L
from dali.exceptions import MemoryLocationNotImplemented, ResponseError
import contracts.frame as CF
import contracts.memory as CM
from contracts.units.memory import MemoryUnit
from checks.c01 import USE
from checks.c04 import sym_addr
from checks.c11 import all_values, banks

READ_RAW = L.MemoryValue.read_raw.__func__
READ = L.MemoryValue.read.__func__


def addr_kinds():
    return [("GearShort", lambda ctx: sym_addr(ctx, A.GearShort, "d"), False),
            ("int", lambda ctx: ctx.int("dnum", 0, 63), False),
            ("DeviceShort", lambda ctx: sym_addr(ctx, A.DeviceShort, "d"), True)]


def addressed_ok(interp, h, addr, device):
    """every addressed command goes to the unit the caller named, in the right (16/24-bit) command set"""
    ok = True
    mod = D if device else G
    for c in h.trace:
        t = type_of(c)
        if t.__module__ != mod.__name__:
            return False
        if hasattr(t, "_cmdval") and issubclass(t, G._StandardCommand) or issubclass(t, D._StandardDeviceCommand):
            d = c.destination
            if is_instance(addr, A.Address):
                ok = And(ok, interp.truth(interp.eq(d, addr)))
            else:
                ok = And(ok, is_instance(d, A.GearShort) and interp.truth(interp.eq(d.address, addr)))
    return ok


def units(tier):
    CF.WMAX = 64
    U = []

    def unit(name, runner, **kw):
        U.append(Unit("C09/" + name, "C09", None, None, use=USE, width=72, kind="custom", runner=runner,
                      max_paths=200000, **kw))

    for key, cls in all_values():
        n = len(cls.locations)
        locs = [l.address for l in cls.locations]
        for aname, amk, device in addr_kinds():
            if n > 8 and aname != "GearShort":
                continue

            def r_read_raw(ctx, interp, fn, cls=cls, amk=amk, device=device, locs=locs, n=n):
                addr = amk(ctx)
                u = MemoryUnit(ctx, cls.bank, device=device)
                M0 = list(u.M)
                h = Harness(ctx, interp, u, fault_budget=1 if n <= 8 else 0)
                out = h.run(READ_RAW, cls, addr)
                ctx.cover()
                all_ok = And([u.accessible(l) for l in locs])
                garbled = [k for k, kind in h.faults if kind == "garbled"]
                silenced = [k for k, kind in h.faults if kind == "silence"]
                if garbled:
                    ctx.prove("garbled-answer-gives-ResponseError", out[0] == "raise" and issubclass(out[1], ResponseError),
                              detail="outcome %r" % (out[:2],))
                elif silenced:
                    ctx.prove("silence-gives-MemoryLocationNotImplemented",
                              out[0] == "raise" and issubclass(out[1], MemoryLocationNotImplemented), detail="outcome %r" % (out[:2],))
                elif interp.test(all_ok):
                    ctx.prove("returns-bytes", out[0] == "return", detail="outcome %r" % (out[:2],))
                    if out[0] == "return":
                        ctx.prove("exactly-the-bytes-at-the-declared-locations",
                                  values_equal(out[1], CM.bytes_of([M0[l] for l in locs])))
                else:
                    ctx.prove("not-implemented-location-gives-MemoryLocationNotImplemented",
                              out[0] == "raise" and issubclass(out[1], MemoryLocationNotImplemented),
                              detail="outcome %r" % (out[:2],))
                ctx.prove("memory-unchanged", And([u.M[a] == M0[a] for a in range(u.size)]))
                ctx.prove("only-read-commands", len(u.unexpected) == 0 and len(u.writes) == 0)
                ctx.prove("addressed-to-the-named-unit", addressed_ok(interp, h, addr, device))
                ctx.prove("bounded-number-of-commands", len(h.trace) <= 1 + 2 * n)
            unit("%s/%s/read_raw/%s" % (key, cls.__name__, aname), r_read_raw)

        def r_read(ctx, interp, fn, cls=cls, locs=locs):
            addr = sym_addr(ctx, A.GearShort, "d")
            u = MemoryUnit(ctx, cls.bank)
            M0 = list(u.M)
            h = Harness(ctx, interp, u)
            out = h.run(READ, cls, addr)
            ctx.cover()
            all_ok = And([u.accessible(l) for l in locs])
            if interp.test(all_ok):
                ctx.prove("returns-a-value", out[0] == "return", detail="outcome %r" % (out[:2],))
                if out[0] == "return":
                    ctx.prove("bytes-interpreted-by-the-values-rules",
                              values_equal(out[1], CM.spec_interpret(cls, [M0[l] for l in locs])))
            else:
                ctx.prove("not-implemented-location-gives-MemoryLocationNotImplemented",
                          out[0] == "raise" and issubclass(out[1], MemoryLocationNotImplemented))
            ctx.prove("memory-unchanged", And([u.M[a] == M0[a] for a in range(u.size)]))
        unit("%s/%s/read" % (key, cls.__name__), r_read)

    U.extend(read_all_units(tier))

    def r_bad_addr(ctx, interp, fn):
        u = MemoryUnit(ctx, banks()["1"])
        h = Harness(ctx, interp, u)
        out = h.run(READ_RAW, banks()["1"].values[2], sym_addr(ctx, A.GearBroadcast, "d"))
        ctx.cover()
        ctx.prove("non-short-address-rejected", out[0] == "raise" and issubclass(out[1], TypeError))
        ctx.prove("nothing-sent", len(h.trace) == 0)
    unit("bad-address", r_bad_addr)
    return U


# ----------------------------------------------------------------------------- whole-bank read (loop rule)
from pyvc.loops import LoopSpec            # noqa: E402
from pyvc.models import SymList            # noqa: E402

READ_ALL = L.MemoryBank.read_all
READ_ALL_KEY = "dali.memory.location:MemoryBank.read_all"


def read_all_units(tier):
    out = []
    for key, bank in banks().items():
        for use_latch in (True, False):
            for aname, amk, device in addr_kinds():
                if aname == "int" and key not in ("0", "205"):
                    continue
                out.append(read_all_unit(key, bank, use_latch, aname, amk, device))
    # bounded stand-in next to the loop rule (labelled bounded, never counted as proved): the same obligations with the
    # loop unrolled for a concrete last accessible location.  It does not depend on the loop specification, so it still
    # decides - with an input that replays - when the loop has been restructured beyond what the specification follows
    for key, bank in banks().items():
        for use_latch in (True, False):
            aname, amk, device = addr_kinds()[0]
            for last in BOUNDED_LASTS:
                if last < 2 and bank.address != 0:
                    continue        # the assumed unit contract: a bank >= 1 has its lock byte (location 2)
                out.append(read_all_unit(key, bank, use_latch, aname, amk, device, bounded_last=last))
    return out


BOUNDED_LASTS = (0, 1, 2, 3, 4, 6, 9)


def read_all_unit(key, bank, use_latch, aname, amk, device, bounded_last=None):
    cur = {}
    start = 2 if bank.address == 0 else 3

    def expected(j):
        """what the list holds at index j >= start: the unit's byte, or None where it does not answer"""
        u = cur["u"]
        src = cur["snapshot"]
        from contracts.units.memory import select
        return Or(j < start, Not(u.accessible(j))), select(src, j)

    def inv(lc):
        u = cur["u"]
        env = lc.env
        rd = lc.get("acc")
        k = lc.k
        conds = []
        if isinstance(rd, SymList):
            conds.append(rd.total() == k)
            for i, x in enumerate(rd.appended):
                isn, v = expected(rd.length + i)
                conds.append(ite(isn, x is None, (x is not None) and (x == v) if x is not None else False))
        else:
            conds.append(len(rd) == k)
            conds.append(all(x is None for x in rd))
        conds.append(lc.lo == start)         # the loop starts at the first data location (header bytes aside)
        conds.append(u.dtr0 == k)
        conds.append(u.dtr1 == bank.address)
        taking = bool(use_latch and bank.has_latch)
        conds.append(u.we == (And(taking, k == start) if True else False))
        conds.append(And([u.M[a] == cur["M_entry"][a] for a in range(u.size)]))
        conds.append(And([u.S[a] == cur["S_entry"][a] for a in range(u.size)]))
        conds.append(u.latched == cur["latched_entry"])
        return And(conds)

    def ghost_init(lc):
        u = cur["u"]
        cur["M_entry"] = list(u.M)
        cur["S_entry"] = list(u.S)
        cur["latched_entry"] = u.latched
        # what READ MEMORY LOCATION reports during the loop
        cur["snapshot"] = [ite(u.latched, u.S[a], u.M[a]) for a in range(u.size)] if u.latching else list(u.M)

    def havoc(lc):
        u = cur["u"]
        k = lc.k
        sl = SymList(k, expected)
        lc.set("acc", sl)
        u.dtr0 = k
        taking = bool(use_latch and bank.has_latch)
        u.we = And(taking, k == start)
        cur["h"].trace = []

    loops = {(READ_ALL_KEY, 0): LoopSpec("read-locations", inv, havoc, ghost_init=ghost_init,
                                            roles={"acc": ("raw_data", lambda v: isinstance(v, list))},
                                            anchor=("_ReadMemoryLocation",), avoid=("MemoryLocationNotImplemented",))}

    def runner(ctx, interp, fn):
        addr = amk(ctx)
        u = MemoryUnit(ctx, bank, device=device)
        if bounded_last is not None:
            ctx.assume(u.M[0] == bounded_last)
        M0 = list(u.M)
        h = Harness(ctx, interp, u)
        cur.clear()
        cur.update(u=u, h=h)
        out = h.run(READ_ALL, bank, addr, use_latch)
        ctx.cover()
        ctx.prove("returns-a-dict", out[0] == "return" and isinstance(out[1], dict), detail="outcome %r" % (out[:3],))
        if not (out[0] == "return" and isinstance(out[1], dict)):
            return
        res = out[1]
        snap = cur.get("snapshot", M0)
        for v in bank.values:
            locs = [l.address for l in v.locations]
            header = any(a < start for a in locs)
            ok = False if header else And([u.accessible(a) for a in locs])
            if interp.test(ok):
                ctx.prove("reports-every-fully-implemented-value", v in res, detail=v.__name__)
                if v in res:
                    want = Deferred("interpret", v, [snap[a] for a in locs]) if not ctx.native \
                        else CM.spec_interpret(v, [snap[a] for a in locs], text_exact=True)
                    ctx.prove("value-as-read-alone-from-the-snapshot", values_equal(res[v], want), detail=v.__name__)
            else:
                ctx.prove("reports-only-fully-implemented-values", v not in res, detail=v.__name__)
        ctx.prove("memory-contents-unchanged", And([u.M[a] == M0[a] for a in range(u.size) if a != 2 or bank.address == 0]))
        if bank.address != 0:
            ctx.prove("bank-not-left-latched", And(u.M[2] != 0xAA if bank.has_latch and use_latch else True,
                                                   Not(u.latched) if bank.has_latch and use_latch else True),
                      detail="lock byte after read_all is 0xAA (latched)")
            if not (bank.has_latch and use_latch):
                ctx.prove("lock-byte-untouched-without-latch", u.M[2] == M0[2])
        ctx.prove("only-memory-commands", len(u.unexpected) == 0)
    if bounded_last is not None:
        return Unit("C09/%s/read_all-bounded/latch=%s/last=%d" % (key, use_latch, bounded_last), "C09", None, None,
                    use=USE + ["dali.memory.location:MemoryValue.from_list"], width=72,
                    kind="custom", runner=runner, loops={}, max_paths=200000)
    return Unit("C09/%s/read_all/latch=%s/%s" % (key, use_latch, aname), "C09", None, None,
                use=USE + ["dali.memory.location:MemoryValue.from_list"], width=72,
                kind="custom", runner=runner, loops=loops, max_paths=200000)


# checks whose proof units establish the callee contracts applied here (re-verified by this check, see main.dependency_units)
DEPENDENCIES = ['C04', 'C05', 'C11']

META = {
    "level": "proof",
    "bounds": {"values": "every declared value of banks 0, 0-legacy, 1, 202-207",
               "memory image": "all 256 bytes symbolic; last accessible location = M[0] symbolic; at most one "
                               "unimplemented location (symbolic position) below it",
               "addressing": "GearShort object, int, DeviceShort object (values wider than 8 bytes: GearShort only)",
               "faults": "one silence or framing error at any step (values up to 8 bytes)",
               "read_all, BOUNDED stand-in next to the loop rule": "every bank, latch on/off, GearShort, the loop unrolled for a "
               "concrete last accessible location in {0,1,2,3,4,6,9} (banks >= 1: from 2); not counted as proved"},
    "assumptions": [
        "ASSUMED unit contract contracts/units/memory.py (IEC 62386-102 9.10 memory access; one bank, single hole)",
        "interpretation of the bytes is the specification of C11 (contracts/memory.py)",
    ],
    "undecided_clauses": ["images with more than one unimplemented location below the last accessible one"],
    "trusted_base": ["contracts/units/memory.py", "contracts/memory.py", "pyvc/seq.py"],
}
