"""C17 - Gateway loss or silence fails sends promptly and recovery is clean (sequential part).

Proved per function: exceptional postconditions (no in-flight slot, semaphore or lock left taken on any exit,
including cancellation at each await), the bookkeeping of disconnect / _shutdown_device / _reconnect / connect
(status callbacks, configured interval passed to sleep, limit, handshake re-issued), and the serial time-outs.
'Nobody hangs' and the fault x schedule quantifier are liveness / interleaving claims and are not decided."""
import asyncio
import logging
from pyvc.engine import Unit
from pyvc.spec import And, Or, Not, ite, Implies, is_instance, type_of, new_object
from pyvc.path import RaiseEx, PathEnd
from pyvc.values import SBytes, SObj
from pyvc.models import AssocDict
from pyvc.aio import World, install, MTask
from pyvc import sym
from dali import frame as F, command as C
from dali.exceptions import CommunicationError
from dali.driver import hid as HID, serial as SER
import contracts.frame as CF
from specs import gateways as GW
from checks.c01 import USE as USE0
from checks.drv_common import abstract_command, bytes_equal, Attrs, mk_report, entries, has_key
from checks.c19 import luba_proto, sci_proto, LUBA, SCI, LS, SS

USE = USE0


def status_reports(world):
    """arguments of connection_status_callback invocations, in order"""
    return [e[2][1] for e in world.log if e[0] == "call_soon" and len(e[2]) == 2 and isinstance(e[2][1], str)]


def mk_tridonic(ctx, world, **over):
    interp = world.interp
    sub = (lambda *a: None)
    drv = ctx.new(HID.tridonic, _log=logging.getLogger("x"), _path="/dev/x", _glob=False, _f=7,
                  _reconnect_interval=ctx.int("interval", 0, 3600), _reconnect_limit=None, _reconnect_count=0,
                  _reconnect_task=None, connected=world.event(True, "connected"),
                  _command_semaphore=world.semaphore(2), _cmd_seq=world.seq_source(ctx.int("seq", 1, 255)),
                  _outstanding=world.mapping(), _bus_watch_task=MTask(world, None), _bus_watch_data=ctx.track([]),
                  _bus_watch_data_available=world.event(False, "watch"), firmware_version="1.0", serial="0001",
                  transaction_lock=world.lock("transaction"), exceptions_on_send=True)
    A = Attrs(interp, drv)
    A["connection_status_callback"] = ctx.new(HID._callback, _parent=drv, _callbacks={1: sub})
    A["bus_traffic"] = ctx.new(HID._callback, _parent=drv, _callbacks={})
    for k, v in over.items():
        A[k] = v
    return drv


def units(tier):
    CF.WMAX = 64
    U = []

    def unit(name, runner, **kw):
        U.append(Unit("C17/" + name, "C17", None, None, use=USE, width=72, kind="custom", runner=runner,
                      max_paths=200000, **kw))

    # ------------------------------------------------------------ Tridonic _send_raw: every exit leaves nothing taken
    for mode in ("write-fails", "device-lost-while-waiting", "cancelled"):
        def r_send(ctx, interp, fn, mode=mode):
            world = World(ctx, interp, cancel=(mode == "cancelled"), io_faults=(mode == "write-fails"))
            install(interp, world)
            drv = mk_tridonic(ctx, world)
            A = Attrs(interp, drv)
            seq = ctx.int("seq", 1, 255)
            cmd, fr = abstract_command(ctx, 16, ctx.bool("twice"), C.NumericResponse)
            sem = A["_command_semaphore"]
            outstanding = A["_outstanding"]

            def env(event):
                targets = [msgs for key, (ev, msgs) in entries(outstanding) if ev is event]
                if not targets:
                    return
                if mode == "device-lost-while-waiting":
                    # the reader sees EOF: disconnect -> _shutdown_device wakes every waiter with "fail"
                    interp.call(interp.get_attr(drv, "disconnect"), (), {"reconnect": True})
                # otherwise nothing arrives (the caller is cancelled by its own timeout, or waits)
            world.hooks["event"] = env
            out = world.run(HID.tridonic._send_raw, drv, cmd)
            if out[0] == "blocked":
                return
            ctx.cover()
            slot_taken = has_key(interp, A["_outstanding"], seq)
            if mode == "cancelled":
                if not (out[0] == "raise" and issubclass(out[1], asyncio.CancelledError)):
                    return
                ctx.prove("semaphore-released-after-cancellation", sem.held == 0)
                ctx.prove("in-flight-slot-released-after-cancellation", not slot_taken,
                          detail="a cancelled send leaves _outstanding[seq]; after 255 further sends the sequence number "
                                 "wraps and 'assert seq not in self._outstanding' fails in an unrelated send")
                return
            ctx.prove("fails-with-CommunicationError", out[0] == "raise" and issubclass(out[1], CommunicationError),
                      detail="outcome %r" % (out[:2],))
            ctx.prove("semaphore-released", sem.held == 0)
            ctx.prove("in-flight-slot-released", not slot_taken)
            ctx.prove("reported-disconnected", "disconnected" in status_reports(world))
            ctx.prove("reconnection-scheduled", any(e[0] == "create_task" and "_reconnect" in str(e[1]) for e in world.log))
            ctx.prove("marked-not-connected", Not(drv.connected.flag))
        unit("tridonic/_send_raw/%s" % mode, r_send)

    # ------------------------------------------------------------ _shutdown_device wakes every waiter
    def r_shutdown(ctx, interp, fn):
        world = World(ctx, interp)
        install(interp, world)
        e1, e2 = world.event(False, "w1"), world.event(False, "w2")
        m1, m2 = ctx.track([]), ctx.track([])
        task = MTask(world, None)
        drv = mk_tridonic(ctx, world, _outstanding=ctx.track({3: (e1, m1), 200: (e2, m2)}), _bus_watch_task=task)
        Attrs(interp, drv)["_bus_watch_data"].append(b"x")
        out = world.run(HID.tridonic._shutdown_device, drv)
        ctx.cover()
        ctx.prove("never-raises", out[0] == "return", detail="outcome %r" % (out[:2],))
        ctx.prove("every-waiter-is-told-it-failed", m1 == ["fail"] and m2 == ["fail"] and e1.flag is True and e2.flag is True)
        ctx.prove("no-in-flight-slot-remains", len(drv._outstanding) == 0)
        ctx.prove("watcher-cancelled-and-forgotten", task.cancelled and drv._bus_watch_task is None and len(drv._bus_watch_data) == 0)
        ctx.prove("handshake-results-forgotten", drv.firmware_version is None and drv.serial is None)
    unit("tridonic/_shutdown_device", r_shutdown)

    # ------------------------------------------------------------ disconnect
    for reconnect in (False, True):
        def r_disc(ctx, interp, fn, reconnect=reconnect):
            world = World(ctx, interp)
            install(interp, world)
            old = MTask(world, None)
            drv = mk_tridonic(ctx, world, _reconnect_task=old)
            out = world.run(HID.hid.disconnect, drv, reconnect=reconnect)
            ctx.cover()
            ctx.prove("never-raises", out[0] == "return", detail="outcome %r" % (out[:2],))
            ctx.prove("pending-reconnect-cancelled", old.cancelled)
            ctx.prove("reader-removed-and-device-closed", ("remove_reader", 7) in world.log and ("os.close", 7) in world.log)
            ctx.prove("marked-not-connected", drv._f is None and Not(drv.connected.flag))
            ctx.prove("reported-disconnected", status_reports(world) == ["disconnected"])
            scheduled = [e for e in world.log if e[0] == "create_task"]
            ctx.prove("reconnect-scheduled-exactly-when-asked", (len(scheduled) == 1) == reconnect and
                      ((drv._reconnect_task is not None) == reconnect))
        unit("hid/disconnect/reconnect=%s" % reconnect, r_disc)

    # ------------------------------------------------------------ _reconnect: interval, limit, 'failed'
    def r_reconnect(ctx, interp, fn):
        world = World(ctx, interp)
        install(interp, world)
        limit_kind = ctx.choose_int(ctx.int("limit_kind", 0, 1), "limit kind")
        limit = None if limit_kind == 0 else ctx.int("limit", 0, 10)
        count = ctx.int("count", 0, 12)
        opened = ctx.bool("device_is_back")
        drv = mk_tridonic(ctx, world, _f=None, _reconnect_limit=limit, _reconnect_count=count,
                          connected=world.event(False, "connected"))
        interval = drv._reconnect_interval
        world.local_open = opened

        def m_os_open(interp_, path, flags):
            if interp.test(opened):
                return 9
            world.throw(OSError, "no such device")
        import os
        world.patch(os.open, m_os_open)
        out = world.run(HID.hid._reconnect, drv)
        if out[0] == "blocked":
            return
        ctx.cover()
        ctx.prove("never-raises", out[0] == "return")
        exceeded = False if limit is None else interp.test(count + 1 > limit)
        sleeps = [e[1] for e in world.log if e[0] == "sleep"]
        if exceeded:
            ctx.prove("gives-up-at-the-limit-without-waiting", len(sleeps) == 0 and drv._f is None)
            ctx.prove("reports-failed-when-the-limit-is-reached", "failed" in status_reports(world),
                      detail="status reports %r" % (status_reports(world),))
            ctx.prove("no-further-attempt-scheduled", drv._reconnect_task is None)
            return
        ctx.prove("waits-exactly-the-configured-interval", len(sleeps) == 1 and interp.truth(interp.eq(sleeps[0], interval)))
        if interp.test(opened):
            ctx.prove("device-opened-and-count-reset", drv._f == 9 and drv._reconnect_count == 0)
            ctx.prove("handshake-repeated", len(world.writes) == 1 and bytes_equal(world.writes[0][1], GW.tridonic_init_report(0)))
            ctx.prove("reader-installed-and-connected-reported", any(e[0] == "add_reader" and e[1] == 9 for e in world.log)
                      and status_reports(world) == ["connected"])
        else:
            ctx.prove("another-attempt-is-scheduled", any(e[0] == "create_task" for e in world.log))
            ctx.prove("attempt-counted", drv._reconnect_count == count + 1)
    unit("hid/_reconnect", r_reconnect)

    # ------------------------------------------------------------ reader: EOF or read error -> disconnect with reconnect
    for how in ("eof", "oserror", "data"):
        def r_reader(ctx, interp, fn, how=how):
            world = World(ctx, interp)
            install(interp, world)
            drv = mk_tridonic(ctx, world)
            import os

            def m_os_read(interp_, fd, n):
                if how == "oserror":
                    world.throw(OSError, "gone")
                if how == "eof":
                    return b""
                return mk_report(ctx, [0x11] + [ctx.fresh_int("r", 0, 255) for _ in range(63)])
            world.patch(os.read, m_os_read)
            out = world.run(HID.hid._reader, drv)
            ctx.cover()
            ctx.prove("never-raises", out[0] == "return", detail="outcome %r" % (out[:2],))
            if how == "data":
                ctx.prove("data-keeps-the-connection", drv._f == 7 and len(drv._bus_watch_data) == 1)
            else:
                ctx.prove("loss-detected", drv._f is None and status_reports(world) == ["disconnected"])
                ctx.prove("reconnection-scheduled", any(e[0] == "create_task" for e in world.log))
        unit("hid/_reader/%s" % how, r_reader)

    # ------------------------------------------------------------ handshake: version, then serial, then connected
    def r_handshake(ctx, interp, fn):
        world = World(ctx, interp)
        install(interp, world)
        drv = mk_tridonic(ctx, world, firmware_version=None, serial=None, connected=world.event(False, "connected"))
        rep = mk_report(ctx, [0x01] + [ctx.int("v%d" % i, 0, 255) for i in range(63)])
        world.run(HID.tridonic._handle_read, drv, rep)
        ctx.prove("version-read-then-serial-requested", drv.firmware_version is not None and len(world.writes) == 1
                  and bytes_equal(world.writes[0][1], GW.tridonic_init_report(2)) and Not(drv.connected.flag))
        world.run(HID.tridonic._handle_read, drv, rep)
        ctx.cover()
        ctx.prove("serial-read-then-connected", drv.serial is not None and drv.connected.flag is True)
        ctx.prove("watcher-started", any(e[0] == "create_task" and "_bus_watch" in str(e[1]) for e in world.log))
    unit("tridonic/handshake", r_handshake)


    # ------------------------------------------------------------ loss of the gateway in the middle of the handshake
    for stage in ("before-version", "after-version"):
        def r_midshake(ctx, interp, fn, stage=stage):
            """the driver is connecting: no watcher task yet, nothing in flight, `connected` clear; the version reply has
            / has not been processed.  Losing the gateway now must leave NO handshake state behind, otherwise the next
            handshake takes the version reply for the serial reply"""
            world = World(ctx, interp)
            install(interp, world)
            drv = mk_tridonic(ctx, world, connected=world.event(False, "connected"), _bus_watch_task=None,
                              firmware_version=("3.7" if stage == "after-version" else None), serial=None)
            out = world.run(HID.hid.disconnect, drv, reconnect=True)
            ctx.cover()
            ctx.prove("never-raises", out[0] == "return", detail="outcome %r" % (out[:2],))
            ctx.prove("handshake-state-forgotten", drv.firmware_version is None and drv.serial is None,
                      detail="firmware_version=%r serial=%r survive the loss" % (drv.firmware_version, drv.serial))
            ctx.prove("reported-and-reconnection-scheduled", status_reports(world) == ["disconnected"]
                      and any(e[0] == "create_task" for e in world.log))
            # and the repeated handshake then starts from the beginning
            A_ = Attrs(interp, drv)
            A_["_f"] = 9
            rep = mk_report(ctx, [0x01] + [ctx.int("v%d" % i, 0, 255) for i in range(63)])
            nw = len(world.writes)
            world.run(HID.tridonic._handle_read, drv, rep)
            ctx.prove("repeated-handshake-reads-the-version-then-asks-for-the-serial",
                      drv.firmware_version is not None and drv.serial is None and len(world.writes) == nw + 1
                      and bytes_equal(world.writes[-1][1], GW.tridonic_init_report(2)) and Not(drv.connected.flag))
        unit("tridonic/loss-during-handshake/%s" % stage, r_midshake)

    # ------------------------------------------------------------ serial gateways: silence
    for gw, cancel in (("luba", False), ("sci", False), ("luba", True), ("sci", True)):
        def r_ser(ctx, interp, fn, gw=gw, cancel=cancel):
            world = World(ctx, interp, cancel=cancel)
            install(interp, world)
            cmd, fr = abstract_command(ctx, 16, ctx.bool("twice"), C.NumericResponse)
            if gw == "luba":
                proto, kids = luba_proto(ctx, world, LS.WAIT_START, [None] * 24, None, 0)
                P = Attrs(interp, proto)
                P["_queue_tx_conf"] = world.queue(
                    "txconf", provider=lambda q: q.items.append(LUBA.LubaMsgTxConf(tx_id=1, message=None)))
                drvcls, tmo_conf, tmo_rx = SER.DriverLubaRs232, SER.DriverLubaRs232.timeout_tx_confirm, SER.DriverLubaRs232.timeout_rx
            else:
                proto, kids = sci_proto(ctx, world, SS.WAIT_STATUS, [None] * 5)
                P = Attrs(interp, proto)
                P["_device_settings"] = SER.DriverSCIRS232.SCIRS232DeviceSettings(True, False, True)
                P["_queue_rx_info"] = world.queue(
                    "info", provider=lambda q: q.items.append(SER.DriverSCIRS232.SCIRS232DeviceReply(id=0, code=0)))
                drvcls, tmo_conf, tmo_rx = SER.DriverSCIRS232, SER.DriverSCIRS232.timeout_tx_confirm, SER.DriverSCIRS232.timeout_rx
            P["_tx_lock"] = world.lock("tx")
            P["transport"] = world.transport()
            tlock = world.lock("transaction")
            drv = ctx.new(drvcls, _connected=world.event(True, "connected"), transaction_lock=tlock, _protocol=proto)
            out = world.run(drvcls.send, drv, cmd)
            if out[0] == "blocked":
                ctx.fail("send-never-blocks-for-ever-on-a-silent-gateway", detail="send waits without a timeout")
                return
            ctx.cover()
            ctx.prove("transaction-lock-released", Not(tlock.held))
            ctx.prove("transmit-lock-released", Not(proto._tx_lock.held))
            ctx.prove("never-releases-a-lock-held-by-another-caller", And(tlock.stolen == 0, proto._tx_lock.stolen == 0),
                      detail="cancelled at %r: released a lock it did not hold (asyncio.Lock.release does not check ownership)"
                             % (world.cancelled_at,))
            if cancel:
                if out[0] == "raise" and issubclass(out[1], asyncio.CancelledError):
                    ctx.prove("cancellation-leaves-nothing-taken", And(Not(tlock.held), Not(proto._tx_lock.held)))
                return
            waits = [e for e in world.log if e[0] == "wait_for"]
            ctx.prove("every-wait-carries-the-documented-timeout", all(w[1] in (tmo_conf, tmo_rx) for w in waits) and len(waits) >= 1)
            if out[0] == "raise":
                ctx.prove("silent-gateway-fails-with-a-timeout", issubclass(out[1], asyncio.TimeoutError),
                          detail="send raised %r at %s" % (out[1:3], out[3] if len(out) > 3 else "?"))
            else:
                ctx.prove("answer-or-no-answer", out[1] is not None and type_of(out[1]) is C.NumericResponse)
        unit("serial/%s/%s" % (gw, "send-cancelled-at-any-await" if cancel else "send-under-silence"), r_ser)

    # ------------------------------------------------------------ transparent retry after a loss (send with exceptions off)
    # the retry loop of hid.send is the subject of C15's units; what C17 needs from them is that a command that is sent
    # again after the gateway was lost goes out as a whole caller unit again (device-type prefix included)
    import checks.c15 as C15
    if getattr(C15, "_building_for_c17", False):
        return U
    C15._building_for_c17 = True
    try:
        c15_units = C15.units(tier)
    finally:
        C15._building_for_c17 = False
    for u15 in c15_units:
        if u15.name.startswith("C15/hid.send/") and u15.name.endswith("exceptions=False"):
            U.append(Unit("C17/retry-after-loss/" + u15.name[len("C15/"):], "C17", None, None, use=u15.use, width=72,
                          kind="custom", runner=u15.runner, max_paths=200000))
    return U


# checks whose proof units establish the callee contracts applied here (re-verified by this check, see main.dependency_units)
DEPENDENCIES = ['C04', 'C05']

META = {
    "level": "proof",
    "bounds": {"faults": "write error, loss of the device while a send waits, cancellation at every await of _send_raw; EOF / "
               "read error in the reader; reconnect with limit None or 0..10 and any attempt count; serial gateway silent at "
               "confirmation or answer time (time-out outcome of every wait_for is an input)"},
    "assumptions": [
        "asyncio / os primitives through the assumed contracts of pyvc/aio.py; a time-out is an input of wait_for, elapsed "
        "time is not modelled: what is proved is that the configured interval / documented timeout is the value handed to "
        "sleep / wait_for",
    ],
    "undecided_clauses": ["'nobody hangs' (liveness)", "the fault x schedule quantifier", "wall-clock bounds",
                          "transparent retry after reconnection end-to-end (only the retry loop's lock discipline is in C15)"],
    "trusted_base": ["pyvc/aio.py", "specs/gateways.py"],
}
