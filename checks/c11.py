"""C11 - Memory values decode any raw bytes totally and per the DiiA/IEC layout."""
import gc
import time
from pyvc.engine import Unit
from pyvc.spec import And, Or, Not, ite, Implies, is_instance, type_of
from pyvc.values import SBytes, values_equal
from pyvc.path import RaiseEx
from pyvc.models import SText
import dali.memory.info, dali.memory.oem, dali.memory.energy, dali.memory.diagnostics, dali.memory.maintenance  # noqa
from dali.memory import location as L
import contracts.memory as CM
from specs import memory_layout as ML

K = "dali.memory.location:"


def banks():
    import dali.memory.info as I, dali.memory.oem as O, dali.memory.energy as E, dali.memory.diagnostics as D, \
        dali.memory.maintenance as M
    return {"0": I.BANK_0, "0-legacy": I.BANK_0_legacy, "1": O.BANK_1, "202": E.BANK_202, "203": E.BANK_203,
            "204": E.BANK_204, "205": D.BANK_205, "206": D.BANK_206, "207": M.BANK_207}


def all_values():
    out = []
    for key, b in banks().items():
        for v in b.values:
            out.append((key, v))
    return out


def sym_raw(ctx, n, p="r"):
    items = [ctx.int("%s%d" % (p, i), 0, 255) for i in range(n)]
    if ctx.native:
        return bytes(items)
    return SBytes(items)


def width_for(n):
    return max(72, 8 * n + 16)


def units(tier):
    U = []
    for key, cls in all_values():
        n = len(cls.locations)
        nm = "%s/%s" % (key, cls.__name__)
        w = width_for(n) if n <= 10 else 72

        def b_list(ctx, cls=cls, n=n):
            # the whole-bank list as read_all builds it: complete, or cut off at any location of the value (the unit's
            # last accessible location falls inside / before it), or with one of the value's locations not implemented
            shape = ctx.choose_int(ctx.int("shape", 0, 2 * n), "list shape")
            lst = [None] * 256
            for i, loc in enumerate(cls.locations):
                lst[loc.address] = ctx.int("r%d" % i, 0, 255)
            if 1 <= shape <= n:
                lst = lst[:cls.locations[shape - 1].address]
            elif shape > n:
                lst[cls.locations[shape - n - 1].address] = None
            return (cls, lst)
        U.append(Unit("C11/%s/from_list" % nm, "C11", K + "MemoryValue.from_list", b_list, width=w,
                      spec=CM.spec_from_list, max_paths=200000))

        def r_direct(ctx, interp, fn, cls=cls, n=n):
            """the read path: check_raw(raw) or raw_to_value(raw), as MemoryValue.read does"""
            raw = sym_raw(ctx, n)
            try:
                flag = interp.call(interp.get_attr(cls, "check_raw"), (raw,), {})
                if interp.test(flag):
                    got = flag
                else:
                    got = interp.call(interp.get_attr(cls, "raw_to_value"), (raw,), {})
            except RaiseEx as e:
                ctx.fail("interpretation-never-raises:%s" % e.cls.__name__, detail="raised at %s" % e.where)
                return
            want = CM.spec_check_then_value(cls, raw)
            ctx.cover()
            ctx.prove("meaning-of-raw-bytes", values_equal(got, want), detail="interpretation differs from the specification")
            isflag = is_instance(got, L.FlagValue)
            ctx.prove("value-or-flag", got is not None)
        U.append(Unit("C11/%s/check_raw+raw_to_value" % nm, "C11", None, None, width=w, kind="custom",
                      runner=r_direct, max_paths=200000))

        kind = CM.value_kind(cls)
        # ---- inverse direction: plain numbers and strings
        if kind == "numeric" and type(cls).__name__ == "_RegisterMemoryValue":
            def r_inv(ctx, interp, fn, cls=cls, n=n):
                lo, hi = (-(1 << (8 * n - 1)), (1 << (8 * n - 1)) - 1) if cls.signed else (0, (1 << (8 * n)) - 1)
                v = ctx.int("v", lo, hi)
                try:
                    raw = interp.call(interp.get_attr(cls, "value_to_raw"), (v,), {})
                    back = interp.call(interp.get_attr(cls, "raw_to_value"), (raw,), {})
                except RaiseEx as e:
                    ctx.fail("number-to-raw-and-back:%s" % e.cls.__name__, detail="raised at %s" % e.where)
                    return
                ctx.cover()
                ctx.prove("raw-has-declared-width", len(raw) == n)
                ctx.prove("number-to-raw-and-back-is-identity", values_equal(back, v))
                ctx.prove("raw-is-big-endian", values_equal(raw, CM.spec_numeric_to_raw(cls, v)))
            U.append(Unit("C11/%s/value_to_raw-inverse" % nm, "C11", None, None, width=w, kind="custom", runner=r_inv))

            def b_bad(ctx, cls=cls, n=n):
                return (cls, ctx.int("v"))
            U.append(Unit("C11/%s/value_to_raw-any-int" % nm, "C11", K + "NumericValue.value_to_raw", b_bad, width=w,
                          spec=CM.spec_numeric_to_raw))
        if kind == "string":
            lens = range(0, n + 1) if (tier == "thorough" or n <= 24) else list(range(0, 6)) + [n - 1, n]
            for k in lens:
                def r_sinv(ctx, interp, fn, cls=cls, n=n, k=k):
                    codes = [ctx.int("c%d" % i, 1, 127) for i in range(k)]
                    text = "".join(chr(c) for c in codes) if ctx.native else SText(codes)
                    try:
                        raw = interp.call(interp.get_attr(cls, "value_to_raw"), (text,), {})
                        back = interp.call(interp.get_attr(cls, "raw_to_value"), (raw,), {})
                    except RaiseEx as e:
                        ctx.fail("string-to-raw-and-back:%s" % e.cls.__name__, detail="raised at %s" % e.where)
                        return
                    ctx.cover()
                    ctx.prove("string-to-raw-and-back-is-identity", values_equal(back, text))
                    ctx.prove("raw-fits", len(raw) <= n)
                U.append(Unit("C11/%s/string-inverse/len=%d" % (nm, k), "C11", None, None, width=72, kind="custom",
                              runner=r_sinv, max_paths=200000))
    return U


TYPE_NAMES = {"ROM": "ROM", "RAM_RO": "RAM-RO", "RAM_RW": "RAM-RW", "NVM_RO": "NVM-RO", "NVM_RW": "NVM-RW",
              "NVM_RW_L": "NVM-RW-L", "NVM_RW_P": "NVM-RW-P"}


def extra_checks(tier, seed):
    out = []
    t0 = time.time()
    # ---- E1: declared memory map == transcribed layout table
    bad = []
    live = {}
    for key, b in banks().items():
        num, last, has_lock, latch = ML.BANKS[key]
        if b.address != num or b.LastAddress.locations[0].default != last or b.has_lock != has_lock or b.has_latch != latch:
            bad.append("bank %s header: live (%r,%r,%r,%r)" % (key, b.address, b.LastAddress.locations[0].default,
                                                              b.has_lock, b.has_latch))
        for v in b.values:
            addrs = [l.address for l in v.locations]
            types = [TYPE_NAMES[l.type_.name] for l in v.locations]
            live[(key, v.__name__)] = (addrs, types)
    want = {}
    for key, name, first, lastloc, acc in ML.LAYOUT:
        want[(key, name)] = (list(range(first, lastloc + 1)), acc)
    for k in sorted(set(live) | set(want)):
        if k not in live:
            bad.append("%s/%s missing from the library" % k)
            continue
        if k not in want:
            bad.append("%s/%s not in the transcribed layout" % k)
            continue
        addrs, types = live[k]
        waddrs, acc = want[k]
        if addrs != waddrs:
            bad.append("%s/%s at %s, table says %s" % (k[0], k[1], addrs, waddrs))
        if "+" in acc:
            a0, a1 = acc.split("+")
            ok = types[0] == a0 and all(t == a1 for t in types[1:])
        else:
            ok = all(t == acc for t in types)
        if not ok:
            bad.append("%s/%s access types %s, table says %s" % (k[0], k[1], sorted(set(types)), acc))
    out.append({"name": "C11/layout/declared-map-equals-transcribed-table", "status": "failed" if bad else "discharged",
                "cases": len(want), "kind": "exhaustive", "seconds": time.time() - t0, "detail": "; ".join(bad[:6]),
                "witness": {"mismatches": bad}, "replay": {"mismatches": bad}})
    # ---- E2: no overlap; lockable only with a lock byte; bank.locations index consistent
    t0 = time.time()
    bad = []
    n = 0
    for key, b in banks().items():
        seen = {}
        for v in b.values:
            for l in v.locations:
                n += 1
                if l.address in seen:
                    bad.append("bank %s location %#x claimed by %s and %s" % (key, l.address, seen[l.address], v.__name__))
                seen[l.address] = v.__name__
                if l.type_ == L.MemoryType.NVM_RW_L and not b.has_lock:
                    bad.append("bank %s: lockable location %#x without a lock byte" % (key, l.address))
                e = b.locations.get(l.address)
                if e is None or e.memory_value is not v or e.memory_location is not l:
                    bad.append("bank %s: index entry for %#x inconsistent" % (key, l.address))
        for a, e in b.locations.items():
            if e is not None and a not in seen:
                bad.append("bank %s: index has stray entry %#x" % (key, a))
    out.append({"name": "C11/layout/no-overlap-and-lockable-only-with-lock-byte", "status": "failed" if bad else "discharged",
                "cases": n, "kind": "exhaustive", "seconds": time.time() - t0, "detail": "; ".join(bad[:6]),
                "witness": {"problems": bad}, "replay": {"problems": bad}})
    # ---- E3: MASK / TMASK class patterns are all-ones / all-ones-minus-one of the (scale-adjusted, sign-aware) width
    t0 = time.time()
    bad = []
    n = 0
    for key, v in all_values():
        w = len(v.locations) - (1 if CM.value_kind(v) == "scaled" else 0)
        ones = CM.all_ones(v, w)
        n += 1
        if v.mask_supported and v.mask != ones.to_bytes(w, "big"):
            bad.append("%s/%s mask %r" % (key, v.__name__, v.mask))
        if v.tmask_supported and v.tmask != (ones - 1).to_bytes(w, "big"):
            bad.append("%s/%s tmask %r" % (key, v.__name__, v.tmask))
    out.append({"name": "C11/layout/mask-patterns", "status": "failed" if bad else "discharged", "cases": n,
                "kind": "exhaustive", "seconds": time.time() - t0, "detail": "; ".join(bad[:6]),
                "witness": {"problems": bad}, "replay": {"problems": bad}})
    # ---- E4: text-valued decoders (version numbers) on their complete finite domain, natively
    t0 = time.time()
    bad = []
    n = 0
    for key, v in all_values():
        if CM.value_kind(v) != "version":
            continue
        w = len(v.locations)
        for x in range(1 << (8 * w)):
            raw = x.to_bytes(w, "big")
            n += 1
            try:
                got = v.check_raw(raw) or v.raw_to_value(raw)
            except Exception as e:      # noqa: BLE001
                got = "raised %s" % type(e).__name__
            want = CM.spec_interpret(v, list(raw), text_exact=True)
            if got != want:
                bad.append("%s/%s raw=%s: %r, specification %r" % (key, v.__name__, raw.hex(), got, want))
                break
    out.append({"name": "C11/version-values/all-raw-bytes-natively", "status": "failed" if bad else "discharged",
                "cases": n, "kind": "exhaustive", "seconds": time.time() - t0, "detail": "; ".join(bad[:4]),
                "witness": {"problems": bad[:4]}, "replay": {"problems": bad[:4]}})
    # ---- E5 (BOUNDED stand-in, not counted as proved): number -> raw -> number natively on boundary values.  The
    # deductive units above decide it for every in-range number as long as the code stays within integer arithmetic; an
    # implementation that goes through floats is outside the engine's reach (those units become undecided) and this
    # native enumeration is then what still decides, with an input that replays
    t0 = time.time()
    bad = []
    n = 0
    import random
    rnd = random.Random(62386)
    for key, v in all_values():
        if not (CM.value_kind(v) == "numeric" and type(v).__name__ == "_RegisterMemoryValue"):
            continue
        w = len(v.locations)
        lo, hi = (-(1 << (8 * w - 1)), (1 << (8 * w - 1)) - 1) if v.signed else (0, (1 << (8 * w)) - 1)
        cand = {lo, lo + 1, hi, hi - 1, hi - 2, 0, 1, -1, (1 << 53) - 1, 1 << 53, (1 << 53) + 1, (1 << 63) + 12345}
        for k in range(1, 8 * w + 1):
            cand.update({(1 << k) - 1, 1 << k, (1 << k) + 1, -(1 << k), -(1 << k) - 1})
        cand.update(rnd.randint(lo, hi) for _ in range(64))
        for x in sorted(c for c in cand if lo <= c <= hi):
            n += 1
            try:
                raw = v.value_to_raw(x)
                back = v.raw_to_value(raw)
                ok = bytes(raw) == x.to_bytes(w, "big", signed=v.signed) and back == x and type(back) is int
                why = "raw %s, back %r" % (bytes(raw).hex(), back)
            except Exception as e:      # noqa: BLE001
                ok, why = False, "raised %s: %s" % (type(e).__name__, e)
            if not ok:
                bad.append("%s/%s value_to_raw(%d): %s" % (key, v.__name__, x, why))
                break
    out.append({"name": "C11/bounded/number-to-raw-and-back-on-boundary-values", "status": "failed" if bad else "discharged",
                "cases": n, "kind": "bounded-native", "seconds": time.time() - t0, "detail": "; ".join(bad[:4]),
                "witness": {"problems": bad[:4]},
                "replay": {"how": "cls.raw_to_value(cls.value_to_raw(x)) on the real classes", "problems": bad[:4]}})
    out.append(declaration_probe())
    return out


def declaration_probe():
    """E: the declaration-time contract of the metaclass (_RegisterMemoryValue computes each class's MASK / TMASK pattern)
    for every kind of declaration, not only the shipped ones - no shipped value is signed, so the sign-aware half of
    'MASK and TMASK are recognised exactly at the all-ones and all-ones-minus-one patterns (sign- and scale-byte aware)'
    is reachable only through a declaration.  Probe values are declared in a scratch bank (the shipped banks are not
    touched): width 1..6 x signed / unsigned x mask_length_adjust 0 / -1, MASK and TMASK supported; the patterns are
    compared with the specification and check_raw / from_list with every 1-byte string and the boundary strings of the
    wider ones."""
    from dali.memory.location import FlagValue, MemoryBank, MemoryRange, MemoryType, NumericValue
    t0 = time.time()
    bad = []
    n = 0
    bank = MemoryBank(100, 0xfe, has_latch=True)
    addr = 0x03
    for signed in (False, True):
        for width in range(1, 7):
            for adjust in ((0, -1) if width > 1 else (0,)):
                ns = {"bank": bank, "locations": MemoryRange(start=addr, end=addr + width - 1, type_=MemoryType.RAM_RO),
                      "signed": signed, "mask_supported": True, "tmask_supported": True}
                if adjust:
                    ns["mask_length_adjust"] = adjust
                label = "%s %d-byte value%s" % ("signed" if signed else "unsigned", width, " (mask length %+d)" % adjust if adjust else "")
                try:
                    cls = type("Probe_%s%d_%d" % ("s" if signed else "u", width, -adjust), (NumericValue,), ns)
                except Exception as e:      # noqa: BLE001
                    bad.append("%s: declaration raised %s: %s" % (label, type(e).__name__, e))
                    continue
                addr += width
                mw = width + adjust
                top = (1 << (8 * mw - 1)) - 1 if signed else (1 << (8 * mw)) - 1
                mask, tmask = top.to_bytes(mw, "big"), (top - 1).to_bytes(mw, "big")
                n += 2
                if getattr(cls, "mask", None) != mask:
                    bad.append("%s: MASK pattern %r, specified %r" % (label, getattr(cls, "mask", None), mask))
                if getattr(cls, "tmask", None) != tmask:
                    bad.append("%s: TMASK pattern %r, specified %r" % (label, getattr(cls, "tmask", None), tmask))
                if adjust:
                    continue        # (how a shorter pattern is matched is the scale-byte value's own check_raw: proved per value)
                bits = 8 * width
                if width == 1:
                    cands = list(range(256))
                else:
                    cands = sorted({(c + d) % (1 << bits) for c in (0, 1 << (bits - 1), (1 << bits) - 1, top, 0xfe, 0x7e)
                                    for d in (-2, -1, 0, 1, 2)})
                for x in cands:
                    raw = x.to_bytes(width, "big")
                    want = FlagValue.MASK if raw == mask else FlagValue.TMASK if raw == tmask else \
                        int.from_bytes(raw, "big", signed=signed)
                    lst = [None] * 0x100
                    for loc, b in zip(cls.locations, raw):
                        lst[loc.address] = b
                    n += 1
                    try:
                        got = cls.from_list(lst)
                    except Exception as e:      # noqa: BLE001
                        got = "raised %s" % type(e).__name__
                    if got != want or type(got) is not type(want):
                        bad.append("%s: raw %s decodes to %r, specified %r" % (label, raw.hex(), got, want))
    return {"name": "C11/declaration/mask-and-tmask-patterns-sign-aware-for-every-kind-of-declaration",
            "status": "failed" if bad else "discharged", "cases": n, "kind": "exhaustive", "seconds": time.time() - t0,
            "detail": "; ".join(bad[:4]), "witness": {"problems": bad[:4]},
            "replay": {"how": "NumericValue subclasses declared in a scratch MemoryBank(100, 0xfe): cls.mask, cls.tmask, "
                              "cls.from_list on the listed raw strings", "problems": bad[:20], "total": len(bad)}}


# checks whose proof units establish the callee contracts applied here (re-verified by this check, see main.dependency_units)
DEPENDENCIES = []

META = {
    "level": "proof",
    "bounds": {"values": "all declared memory values of banks 0, 0-legacy, 1, 202-207 (taken from the live banks)",
               "raw bytes": "every byte string of the declared length, bytes symbolic (strings: the position of the first "
                            "NUL is a complete case split)", "numbers (inverse)": "the full unsigned/signed range of the width",
               "strings (inverse)": "ASCII 1..127, every length 0..24 (60-byte value: lengths 0..5, 59, 60 in quick, all in thorough)",
               "version texts": "all 2^8 / 2^16 raw values evaluated natively (complete finite domain)",
               "numbers (inverse), BOUNDED stand-in": "every plain numeric value natively on ~100-300 boundary and random numbers "
               "of its range (powers of two and neighbours, range ends, 2^53 +- 1); decides only when the deductive unit cannot"},
    "assumptions": [
        "oracle for the layout clause: specs/memory_layout.py (IEC 62386-102 Table 9, DiiA 251/252/253), trusted",
        "Decimal / float scaling is compared structurally (same factor, same integer), not by float arithmetic",
        "value_to_raw of FixedScale/Temperature/Scaled values is outside the property's inverse clause ('plain number or string')",
    ],
    "undecided_clauses": [],
    "trusted_base": ["contracts/memory.py", "specs/memory_layout.py"],
}
