"""C13 - Control-device sequences move multi-byte settings and scan results intact."""
import enum
from pyvc.engine import Unit
from pyvc.spec import And, Or, Not, ite, Implies, is_instance, type_of
from pyvc.seq import Harness
from pyvc import sym
from dali import address as A
from dali.device import general as D, sequences as DS, pushbutton as PB, occupancy as OCC, light as LIGHT
from dali.exceptions import DALISequenceError
import contracts.frame as CF
from contracts.units.device103 import InstanceUnit
from checks.c01 import USE
from checks.c04 import sym_addr, sym_inst


class Filter16(D.InstanceEventFilter):
    """user-defined 16-bit event filter (12 named bits)"""
    b0 = 1 << 0
    b1 = 1 << 1
    b2 = 1 << 2
    b3 = 1 << 3
    b4 = 1 << 4
    b5 = 1 << 5
    b6 = 1 << 6
    b7 = 1 << 7
    b8 = 1 << 8
    b9 = 1 << 9
    b10 = 1 << 10
    b11 = 1 << 11


Filter24 = D.InstanceEventFilter("Filter24", {"b%d" % i: 1 << i for i in range(20)})
Filter24.__doc__ = "user-defined 24-bit event filter (20 named bits)"

FILTERS = [("pushbutton8", PB.InstanceEventFilter, 8), ("occupancy8", OCC.InstanceEventFilter, 8),
           ("light8", LIGHT.InstanceEventFilter, 8), ("user16", Filter16, 16), ("user24", Filter24, 24)]


def flag_value(ctx, cls, width, name="fv"):
    v = ctx.int(name, 0, (1 << width) - 1)
    if ctx.native:
        return cls(v)
    return sym.SInt(v.e, pycls=cls)


def dev_inst(ctx, kind):
    if kind == "obj":
        return sym_addr(ctx, A.DeviceShort, "d"), sym_inst(ctx, A.InstanceNumber, "i")
    return ctx.int("dnum", 0, 63), ctx.int("inum", 0, 31)


def is_seq_error(out):
    return out[0] == "raise" and issubclass(out[1], DALISequenceError)


def int_of(x):
    if isinstance(x, sym.SInt):
        return sym.SInt(x.e)
    return int(x)


def units(tier):
    CF.WMAX = 64
    U = []

    def unit(name, runner, **kw):
        U.append(Unit("C13/" + name, "C13", None, None, use=USE, width=72, kind="custom", runner=runner,
                      max_paths=100000, **kw))

    # ------------------------------------------------------------ event filters
    for fname, fcls, width in FILTERS:
        for akind in ("obj", "int"):
            def r_setf(ctx, interp, fn, fcls=fcls, width=width, akind=akind):
                dev, inst = dev_inst(ctx, akind)
                fv = flag_value(ctx, fcls, width)
                u = InstanceUnit(ctx, filter_width=width)
                h = Harness(ctx, interp, u)
                out = h.run(DS.SetEventFilters, dev, inst, fv)
                ctx.cover()
                ctx.prove("returns-normally", out[0] == "return", detail="outcome %r" % (out[:2],))
                ctx.prove("instance-configured-with-exactly-the-filter", u.filter == int_of(fv),
                          detail="whatever the DTRs held before")
                if out[0] == "return":
                    ctx.prove("returns-what-the-unit-reports", out[1] is not None and interp.truth(interp.eq(out[1], int_of(fv))))
                    ctx.prove("result-has-the-filter-type", out[1] is not None and type_of(out[1]) is fcls)
                ctx.prove("only-expected-commands", len(u.unexpected) == 0)
            unit("set-filter/%s/%s" % (fname, akind), r_setf)

        def r_setf_fault(ctx, interp, fn, fcls=fcls, width=width):
            dev, inst = dev_inst(ctx, "obj")
            fv = flag_value(ctx, fcls, width)
            u = InstanceUnit(ctx, filter_width=width)
            h = Harness(ctx, interp, u, fault_budget=1)
            out = h.run(DS.SetEventFilters, dev, inst, fv)
            ctx.cover()
            if h.faults:
                ctx.prove("bad-answer-gives-none-or-DALISequenceError",
                          (out[0] == "return" and out[1] is None) or is_seq_error(out), detail="outcome %r" % (out[:2],))
        unit("set-filter-fault/%s" % fname, r_setf_fault)

        for how in ("class", "module"):
            if how == "module" and fname.startswith("user"):
                continue

            def r_qf(ctx, interp, fn, fcls=fcls, width=width, how=how, fname=fname):
                dev, inst = dev_inst(ctx, "obj")
                u = InstanceUnit(ctx, filter_width=width)
                stored = u.filter
                h = Harness(ctx, interp, u, fault_budget=1)
                arg = fcls if how == "class" else {"pushbutton8": PB, "occupancy8": OCC, "light8": LIGHT}[fname]
                out = h.run(DS.QueryEventFilters, dev, inst, arg)
                ctx.cover()
                if h.faults:
                    ctx.prove("bad-answer-gives-none-or-DALISequenceError",
                              (out[0] == "return" and out[1] is None) or is_seq_error(out))
                    return
                ctx.prove("returns-normally", out[0] == "return")
                if out[0] == "return":
                    ctx.prove("returns-exactly-the-units-filter", out[1] is not None and interp.truth(interp.eq(out[1], stored)))
                    ctx.prove("result-has-the-filter-type", out[1] is not None and type_of(out[1]) is fcls)
                ctx.prove("unit-unchanged", u.filter == stored)
            unit("query-filter/%s/%s" % (fname, how), r_qf)

    def r_setf_badtype(ctx, interp, fn):
        dev, inst = dev_inst(ctx, "obj")
        u = InstanceUnit(ctx)
        h = Harness(ctx, interp, u)
        out = h.run(DS.SetEventFilters, dev, inst, "short_press")
        ctx.cover()
        ctx.prove("non-int-filter-rejected", out[0] == "raise" and issubclass(out[1], TypeError))
        ctx.prove("nothing-sent", len(h.trace) == 0)
    unit("set-filter/bad-type", r_setf_badtype)

    def r_qf_badtype(ctx, interp, fn):
        dev, inst = dev_inst(ctx, "obj")
        u = InstanceUnit(ctx)
        h = Harness(ctx, interp, u)
        out = h.run(DS.QueryEventFilters, dev, inst, int)
        ctx.cover()
        ctx.prove("non-filter-type-rejected", out[0] == "raise" and issubclass(out[1], TypeError))
        ctx.prove("nothing-sent", len(h.trace) == 0)
    unit("query-filter/bad-type", r_qf_badtype)

    # ------------------------------------------------------------ event schemes
    for sch in list(D.EventScheme):
        for akind in ("obj", "int"):
            def r_sch(ctx, interp, fn, sch=sch, akind=akind):
                dev, inst = dev_inst(ctx, akind)
                u = InstanceUnit(ctx)
                h = Harness(ctx, interp, u, fault_budget=1)
                out = h.run(DS.SetEventSchemes, dev, inst, sch)
                ctx.cover()
                ctx.prove("instance-configured-with-exactly-the-scheme", u.scheme == int(sch))
                if h.faults:
                    ctx.prove("bad-answer-never-an-unrelated-exception", out[0] == "return" or is_seq_error(out))
                    return
                ctx.prove("returns-normally", out[0] == "return")
                if out[0] == "return":
                    r = out[1]
                    ok = r is not None and is_instance(r, D.QueryEventSchemeResponse)
                    ctx.prove("returns-the-units-report", ok)
                    if ok:
                        ctx.prove("report-carries-the-scheme", interp.truth(interp.eq(interp.get_attr(r, "value"), int(sch))))
            unit("set-scheme/%s/%s" % (sch.name, akind), r_sch)
    for bname, bmk in [("int-5", lambda ctx: 5), ("int-high", lambda ctx: ctx.int("s", 5)), ("negative", lambda ctx: ctx.int("s", None, -1)),
                       ("none", lambda ctx: None), ("str", lambda ctx: "device")]:
        def r_badsch(ctx, interp, fn, bmk=bmk):
            dev, inst = dev_inst(ctx, "obj")
            u = InstanceUnit(ctx)
            before = u.scheme
            h = Harness(ctx, interp, u)
            out = h.run(DS.SetEventSchemes, dev, inst, bmk(ctx))
            ctx.cover()
            ctx.prove("invalid-scheme-rejected", out[0] == "raise" and issubclass(out[1], (ValueError, TypeError)))
            ctx.prove("nothing-sent", len(h.trace) == 0)
            ctx.prove("unit-unchanged", u.scheme == before)
        unit("set-scheme/invalid/" + bname, r_badsch)
    for v in range(0, 5):
        def r_intsch(ctx, interp, fn, v=v):
            dev, inst = dev_inst(ctx, "obj")
            u = InstanceUnit(ctx)
            h = Harness(ctx, interp, u)
            out = h.run(DS.SetEventSchemes, dev, inst, v)
            ctx.cover()
            ctx.prove("instance-configured-with-exactly-the-scheme", u.scheme == v)
        unit("set-scheme/plain-int-%d" % v, r_intsch)

    # ------------------------------------------------------------ input value
    for res in range(1, 33):
        for how in ("given", "queried"):
            def r_val(ctx, interp, fn, res=res, how=how):
                dev, inst = dev_inst(ctx, "obj")
                u = InstanceUnit(ctx, resolution=res)
                h = Harness(ctx, interp, u, fault_budget=1)
                if how == "given":
                    out = h.run(DS.query_input_value, dev, inst, res)
                else:
                    out = h.run(DS.query_input_value, dev, inst)
                ctx.cover()
                if h.faults:
                    ctx.prove("bad-answer-gives-none-or-DALISequenceError",
                              (out[0] == "return" and out[1] is None) or is_seq_error(out), detail="outcome %r" % (out[:2],))
                    return
                ctx.prove("returns-normally", out[0] == "return", detail="outcome %r" % (out[:2],))
                if out[0] == "return":
                    ctx.prove("reassembles-exactly-the-value", out[1] is not None and interp.truth(interp.eq(out[1], u.value)))
                ctx.prove("reads-exactly-the-bytes-of-the-value", len(u.unexpected) == 0)
                ctx.prove("number-of-commands", len(h.trace) == u.nbytes + (1 if how == "queried" else 0))
            unit("input-value/res=%d/%s" % (res, how), r_val)
    U.extend(autodiscover_units())
    return U


# ----------------------------------------------------------------------------- discovery scan
from pyvc.loops import LoopSpec                     # noqa: E402
from pyvc.models import AssocDict                    # noqa: E402
from dali.device import helpers as H                 # noqa: E402

AUTO = "dali.device.helpers:DeviceInstanceTypeMapper.autodiscover"
MASK_BIT, RESET_BIT = 2, 6          # IEC 62386-103 Table 15: bit 2 shortAddress is MASK, bit 6 resetState


class ScanBus:
    """A bus of control devices seen through one arbitrary device A and instance I of it: the answers
    concerning (A, I) are fixed symbolic facts, every other answer is arbitrary (fresh per query).
    Any answer may be missing (kind 1) or garbled (kind 2)."""

    def __init__(self, ctx, interp):
        self.ctx, self.interp = ctx, interp
        self.A = ctx.int("A", 0, 63)
        self.I = ctx.int("I", 0, 31)
        self.status_kind = ctx.int("statusA_kind", 0, 2)
        self.status = ctx.int("statusA", 0, 255)
        self.n_kind = ctx.int("nA_kind", 0, 2)
        self.n = ctx.int("nA", 0, 32)
        self.en_kind = ctx.int("enAI_kind", 0, 2)        # 0 answers YES, 1 silent (= NO), 2 garbled
        self.type_kind = ctx.int("typeAI_kind", 0, 2)
        self.type = ctx.int("typeAI", 0, 255)
        self.unexpected = []

    def recorded(self):
        """(A, I) is to be recorded: device answers cleanly, is healthy, has instance I, I is enabled, type read"""
        healthy = And(((self.status >> MASK_BIT) & 1) == 0, ((self.status >> RESET_BIT) & 1) == 0)
        return And(self.status_kind == 0, healthy, self.n_kind == 0, self.I < self.n, self.en_kind == 0,
                   self.type_kind == 0)

    def _ans(self, kind, value):
        k = self.ctx.choose_int(kind, "answer kind") if sym.is_sym(kind) else kind
        if k == 1:
            return None
        if k == 2:
            return ("garbled", value)
        return value

    def _arbitrary(self, hi=255):
        return self._ans(self.ctx.fresh_int("other_kind", 0, 2), self.ctx.fresh_int("other_val", 0, hi))

    def step(self, cmd):
        t = type_of(cmd)
        if t in (D.StartQuiescentMode, D.StopQuiescentMode):
            return None
        dest = cmd.destination
        if not is_instance(dest, A.DeviceShort):
            self.unexpected.append("%s to %s" % (t.__name__, type_of(dest).__name__))
            return None
        a = dest.address
        is_a = self.interp.test(a == self.A)
        if t is D.QueryDeviceStatus:
            return self._ans(self.status_kind, self.status) if is_a else self._arbitrary()
        if t is D.QueryNumberOfInstances:
            return self._ans(self.n_kind, self.n) if is_a else self._arbitrary(32)
        if t in (D.QueryInstanceEnabled, D.QueryInstanceType):
            inst = cmd.instance
            if not is_instance(inst, A.InstanceNumber):
                self.unexpected.append("%s with %s" % (t.__name__, type_of(inst).__name__))
                return None
            is_ai = is_a and self.interp.test(inst._value == self.I)
            if t is D.QueryInstanceEnabled:
                return self._ans(self.en_kind, 255) if is_ai else self._arbitrary()
            return self._ans(self.type_kind, self.type) if is_ai else self._arbitrary()
        self.unexpected.append(t.__name__)
        return None


def autodiscover_units():
    out = []
    cur = {}

    def lookup(lc_or_none):
        m = cur["mapper"]
        store = m._mapping if not isinstance(m, dict) else m
        return store.lookup(cur["interp"], (cur["bus"].A, cur["bus"].I))

    def expected(done):
        b = cur["bus"]
        rec = And(done, b.recorded())
        return ite(rec, True, cur["present0"]), ite(rec, b.type, cur["m0"])

    def inv_holds(done):
        found, v = lookup(None)
        ep, ev = expected(done)
        if found:
            return And(ep, v == ev)
        return Not(ep)

    def havoc_mapping(lc):
        ctx = lc.ctx
        present = ctx.fresh_bool("map_present")
        val = ctx.fresh_int("map_val", 0, 255)
        b = cur["bus"]
        store = cur["mapper"]._mapping
        store.entries[:] = [((b.A, b.I), val)] if present else []
        cur["h"].trace = []
        cur["h"].ctrace = []

    def scan_cmds_ok(a):
        h = cur["h"]
        ok = True
        for c in h.trace:
            if type_of(c) not in (D.QueryDeviceStatus, D.QueryNumberOfInstances, D.QueryInstanceEnabled, D.QueryInstanceType):
                return False
            d = c.destination
            if not is_instance(d, A.DeviceShort):
                return False
            ok = And(ok, d.address == a)
        return ok

    def outer_inv(lc):
        b = cur["bus"]
        conds = [inv_holds(b.A < lc.k)]
        if lc.phase == "init":
            h = cur["h"]
            conds.append(len(h.trace) == 1 and type_of(h.trace[0]) is D.StartQuiescentMode
                         and is_instance(h.trace[0].destination, A.DeviceBroadcast))
        if lc.phase == "keep":
            conds.append(scan_cmds_ok(lc.k - 1))
        return And(conds)

    def inner_inv(lc):
        b = cur["bus"]
        a = lc.env.locals[lc.loop_target(0)]        # the device being scanned: target of the outer for-loop
        done = Or(b.A < a, And(b.A == a, b.I < lc.k))
        return inv_holds(done)

    def inner_havoc(lc):
        keep = list(cur["h"].trace)
        havoc_mapping(lc)
        cur["h"].trace = keep       # the commands of the current device stay on record

    loops = {(AUTO, 0): LoopSpec("scan-addresses", outer_inv, havoc_mapping, anchor=("QueryNumberOfInstances",)),
             (AUTO, 1): LoopSpec("scan-instances", inner_inv, inner_havoc, anchor=("QueryInstanceType",))}

    def r_auto(ctx, interp, fn):
        bus = ScanBus(ctx, interp)
        present0 = ctx.bool("present0")
        m0 = ctx.int("m0", 0, 255)
        if ctx.native:
            return r_auto_native(ctx, interp, bus, present0, m0)
        store = AssocDict([((bus.A, bus.I), m0)] if present0 else [])
        mapper = ctx.new(H.DeviceInstanceTypeMapper, _mapping=store)
        h = Harness(ctx, interp, bus)
        cur.update(bus=bus, mapper=mapper, h=h, interp=interp, present0=present0, m0=m0)
        out = h.run(H.DeviceInstanceTypeMapper.autodiscover, mapper)
        ctx.cover()
        ctx.prove("never-an-unrelated-exception", out[0] == "return", detail="outcome %r" % (out[:3],))
        ctx.prove("ends-by-leaving-quiescent-mode", len(h.trace) == 1 and type_of(h.trace[0]) is D.StopQuiescentMode
                  and is_instance(h.trace[0].destination, A.DeviceBroadcast))
        ctx.prove("records-exactly-the-enabled-instances-of-healthy-devices", inv_holds(True))
        ctx.prove("only-scan-commands", len(bus.unexpected) == 0, detail=repr(bus.unexpected))

    def r_auto_native(ctx, interp, bus, present0, m0):
        """replay: the whole scan is run by CPython against a concrete bus built from the counter-model
        (devices other than A answer with the model's defaults); the end-to-end property is evaluated"""
        real = {(bus.A, bus.I): m0} if present0 else {}
        mapper = ctx.new(H.DeviceInstanceTypeMapper, _mapping=real)
        h = Harness(ctx, interp, bus)
        out = h.run(H.DeviceInstanceTypeMapper.autodiscover, mapper)
        ctx.prove("never-an-unrelated-exception", out[0] == "return", detail="outcome %r" % (out[:3],))
        ok_first = bool(h.trace) and type_of(h.trace[0]) is D.StartQuiescentMode and isinstance(h.trace[0].destination, A.DeviceBroadcast)
        ok_last = bool(h.trace) and type_of(h.trace[-1]) is D.StopQuiescentMode and isinstance(h.trace[-1].destination, A.DeviceBroadcast)
        ctx.prove("starts-in-quiescent-mode", ok_first)
        ctx.prove("ends-by-leaving-quiescent-mode", ok_last)
        want = bus.type if bus.recorded() else (m0 if present0 else None)
        ctx.prove("records-exactly-the-enabled-instances-of-healthy-devices", real.get((bus.A, bus.I)) == want,
                  detail="map entry %r, expected %r" % (real.get((bus.A, bus.I)), want))
        ctx.prove("only-scan-commands", len(bus.unexpected) == 0, detail=repr(bus.unexpected))

    out.append(Unit("C13/autodiscover/default-range", "C13", None, None, use=[u for u in USE if "get_type" not in u],
                    width=72, kind="custom", runner=r_auto, loops=loops, max_paths=100000))

    # bounded stand-in next to the loop rule (labelled bounded, never counted as proved): the scan of a small address
    # range with few instances per device, both loops unrolled - no loop specification involved, so it still decides,
    # with an input that replays, when the scan has been restructured beyond what the specifications follow
    class SmallBus(ScanBus):
        def __init__(self, ctx, interp, lo, hi, max_inst):
            ScanBus.__init__(self, ctx, interp)
            self.max_inst = max_inst
            ctx.assume(And(self.A >= lo, self.A <= hi, self.n <= max_inst, self.I < max_inst))

        def _arbitrary(self, hi=255):
            return ScanBus._arbitrary(self, min(hi, self.max_inst) if hi == 32 else hi)

    for name, arg, lo, hi, max_inst in (("one-device", 1, 0, 0, 3), ("two-devices", (62, 63), 62, 63, 1)):
        def r_small(ctx, interp, fn, arg=arg, lo=lo, hi=hi, max_inst=max_inst):
            bus = SmallBus(ctx, interp, lo, hi, max_inst)
            present0 = ctx.bool("present0")
            m0 = ctx.int("m0", 0, 255)
            if ctx.native:
                real = {(bus.A, bus.I): m0} if present0 else {}
                mapper = ctx.new(H.DeviceInstanceTypeMapper, _mapping=real)
            else:
                mapper = ctx.new(H.DeviceInstanceTypeMapper, _mapping=AssocDict([((bus.A, bus.I), m0)] if present0 else []))
            h = Harness(ctx, interp, bus)
            cur.update(bus=bus, mapper=mapper, h=h, interp=interp, present0=present0, m0=m0)
            out = h.run(H.DeviceInstanceTypeMapper.autodiscover, mapper, arg)
            ctx.cover()
            ctx.prove("never-an-unrelated-exception", out[0] == "return", detail="outcome %r" % (out[:3],))
            tr = h.trace
            ctx.prove("starts-in-quiescent-mode", bool(tr) and type_of(tr[0]) is D.StartQuiescentMode
                      and is_instance(tr[0].destination, A.DeviceBroadcast))
            ctx.prove("ends-by-leaving-quiescent-mode", bool(tr) and type_of(tr[-1]) is D.StopQuiescentMode
                      and is_instance(tr[-1].destination, A.DeviceBroadcast))
            if ctx.native:
                want = bus.type if bus.recorded() else (m0 if present0 else None)
                ctx.prove("records-exactly-the-enabled-instances-of-healthy-devices", real.get((bus.A, bus.I)) == want,
                          detail="map entry %r, expected %r" % (real.get((bus.A, bus.I)), want))
            else:
                ctx.prove("records-exactly-the-enabled-instances-of-healthy-devices", inv_holds(True))
            ctx.prove("only-scan-commands", len(bus.unexpected) == 0, detail=repr(bus.unexpected))
        out.append(Unit("C13/autodiscover-bounded/" + name, "C13", None, None, use=[u for u in USE if "get_type" not in u],
                        width=72, kind="custom", runner=r_small, loops={}, max_paths=100000))
    return out


# checks whose proof units establish the callee contracts applied here (re-verified by this check, see main.dependency_units)
DEPENDENCIES = ['C04', 'C05', 'C12']

META = {
    "level": "proof",
    "bounds": {"resolution": "1..32 enumerated, value and padding bits symbolic",
               "filters": "library enums (8 bit) and user-defined 16- and 24-bit enums; every flag combination (symbolic); "
                          "DTR0/1/2 contents before the sequence symbolic",
               "schemes": "the five members, plain ints 0..4, invalid ints / None / str",
               "faults": "one silence or framing error at any step",
               "discovery scan, BOUNDED stand-in next to the loop rule": "one device (address 0) with <= 3 instances and two "
               "devices (62, 63) with <= 1, both loops unrolled, every answer kind; not counted as proved"},
    "assumptions": [
        "ASSUMED unit contract contracts/units/device103.py (event filter = DTR2:DTR1:DTR0 truncated to the instance type's "
        "width; MSB-aligned input value with unspecified padding bits)",
        "discovery scan: the two loops are verified with the loop rule (invariant: the map entry of one arbitrary "
        "(device A, instance I) equals its type iff A has been scanned, answered cleanly, is healthy (short address not "
        "MASK, not in reset state), has instance I, I is enabled and its type was read; otherwise it is unchanged); "
        "numberOfInstances <= 32; native replay of these units is not available (loop rule states are not executions)",
    ],
    "undecided_clauses": [],
    "trusted_base": ["contracts/units/device103.py", "pyvc/seq.py"],
}
