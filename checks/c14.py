"""C14 - Colour (DT8) sequences carry 16-bit values byte-exactly and in order."""
from pyvc.engine import Unit
from pyvc.spec import And, Or, Not, ite, Implies, is_instance, type_of
from pyvc.seq import Harness
from pyvc.path import RaiseEx
from dali import address as A
from dali.gear import general as G, colour as COL, sequences as GS
import contracts.frame as CF
from contracts.units.gear209 import TcUnit
from checks.c01 import USE
from checks.c04 import sym_addr

K = "dali.gear.sequences:"
SELECTORS = list(COL.QueryColourValueDTR)
LIMITS = list(COL.StoreColourTemperatureTcLimitDTR2)


def dest_kinds():
    return [("GearShort", lambda ctx: sym_addr(ctx, A.GearShort, "d")),
            ("GearGroup", lambda ctx: sym_addr(ctx, A.GearGroup, "d")),
            ("GearBroadcast", lambda ctx: sym_addr(ctx, A.GearBroadcast, "d")),
            ("int", lambda ctx: ctx.int("dnum", 0, 63))]


def same_dest(interp, d, want):
    """destination object of a yielded command == the address the caller gave (ints denote short addresses)"""
    if is_instance(want, A.Address):
        return interp.truth(interp.eq(d, want))
    return And(is_instance(d, A.GearShort), interp.truth(interp.eq(interp.get_attr(d, "address"), want))) \
        if is_instance(d, A.GearShort) else False


def classes(trace):
    return [type_of(c) for c in trace]


def units(tier):
    CF.WMAX = 64
    U = []

    def unit(name, runner):
        U.append(Unit("C14/" + name, "C14", None, None, use=USE, width=72, kind="custom", runner=runner,
                      max_paths=50000))

    for dname, dmk in dest_kinds():
        def r_set(ctx, interp, fn, dmk=dmk):
            addr = dmk(ctx)
            tc = ctx.int("tc", 0, 65535)
            u = TcUnit(ctx, lambda d: True)
            h = Harness(ctx, interp, u)
            out = h.run(GS.SetDT8ColourValueTc, addr, tc)
            ctx.cover()
            ctx.prove("returns-normally", out[0] == "return", detail="outcome %r" % (out[:2],))
            ctx.prove("unit-ends-with-requested-tc", u.actual_tc == tc)
            ctx.prove("trace-shape", classes(h.trace) == [G.DTR0, G.DTR1, COL.SetTemporaryColourTemperature, COL.Activate])
            if len(h.trace) == 4:
                ctx.prove("dtr0-gets-low-byte", h.trace[0].param == (tc & 0xFF))
                ctx.prove("dtr1-gets-high-byte", h.trace[1].param == (tc >> 8))
                ctx.prove("command-addressed-as-requested", same_dest(interp, h.trace[2].destination, addr))
                ctx.prove("activate-addressed-as-requested", same_dest(interp, h.trace[3].destination, addr))
            ctx.prove("only-expected-commands", len(u.unexpected) == 0)
        unit("set-tc/" + dname, r_set)

        for lim in LIMITS:
            def r_lim(ctx, interp, fn, dmk=dmk, lim=lim):
                addr = dmk(ctx)
                tc = ctx.int("tc", 0, 65535)
                u = TcUnit(ctx, lambda d: True)
                before = list(u.limits)
                h = Harness(ctx, interp, u)
                out = h.run(GS.SetDT8TcLimit, addr, lim, tc)
                ctx.cover()
                ctx.prove("returns-normally", out[0] == "return")
                ctx.prove("selected-limit-stored", u.limits[int(lim)] == tc)
                ctx.prove("other-limits-unchanged", And([u.limits[i] == before[i] for i in range(4) if i != int(lim)]))
                ctx.prove("trace-shape", classes(h.trace) == [G.DTR0, G.DTR1, G.DTR2, COL.StoreColourTemperatureTcLimit])
                if len(h.trace) == 4:
                    ctx.prove("dtr0-gets-low-byte", h.trace[0].param == (tc & 0xFF))
                    ctx.prove("dtr1-gets-high-byte", h.trace[1].param == (tc >> 8))
                    ctx.prove("dtr2-gets-selector", h.trace[2].param == int(lim))
                    ctx.prove("command-addressed-as-requested", same_dest(interp, h.trace[3].destination, addr))
            unit("tc-limit/%s/%s" % (dname, lim.name), r_lim)

    # ---- rejected before anything is sent
    for seqname, seq in (("set-tc", GS.SetDT8ColourValueTc), ("tc-limit", GS.SetDT8TcLimit)):
        for bname, bmk in [("too-big", lambda ctx: ctx.int("tc", 65536)), ("negative", lambda ctx: ctx.int("tc", None, -1)),
                           ("none", lambda ctx: None), ("str", lambda ctx: "300")]:
            def r_bad(ctx, interp, fn, seq=seq, bmk=bmk, seqname=seqname):
                addr = sym_addr(ctx, A.GearShort, "d")
                u = TcUnit(ctx, lambda d: True)
                h = Harness(ctx, interp, u)
                args = (addr, bmk(ctx)) if seqname == "set-tc" else (addr, LIMITS[0], bmk(ctx))
                out = h.run(seq, *args)
                ctx.cover()
                ctx.prove("rejected", out[0] == "raise")
                ctx.prove("nothing-sent", len(h.trace) == 0)
            unit("%s/bad-tc/%s" % (seqname, bname), r_bad)

    # ---- query
    for dname, dmk in (dest_kinds()[0], dest_kinds()[3]):
        def r_query(ctx, interp, fn, dmk=dmk):
            addr = dmk(ctx)
            i = ctx.choose_int(ctx.int("selector_index", 0, len(SELECTORS) - 1), "selector")
            sel = SELECTORS[i]
            u = TcUnit(ctx, lambda d: True)
            reported = u.reported
            h = Harness(ctx, interp, u, fault_budget=3)
            out = h.run(GS.QueryDT8ColourValue, addr, sel)
            ctx.cover()
            ctx.prove("returns-normally", out[0] == "return", detail="outcome %r" % (out[:2],))
            ctx.prove("trace-shape", classes(h.trace) == [G.QueryActualLevel, G.DTR0, COL.QueryColourValue, G.QueryContentDTR0])
            if out[0] != "return" or len(h.trace) != 4:
                return
            ctx.prove("selector-loaded-before-the-query", u.selector_used == sel.value)
            broken = [k for k, kind in h.faults if k >= 2]
            msb = (reported >> 8) & 0xFF
            if broken:
                ctx.prove("unclean-answer-gives-none", out[1] is None)
            elif ctx_test(ctx, interp, msb == 255):
                ctx.prove("mask-gives-none", out[1] is None)
            else:
                ctx.prove("returns-the-16-bit-value", out[1] is not None and interp.truth(interp.eq(out[1], reported)))
        unit("query/" + dname, r_query)

    for bname, bmk in [("int", lambda ctx: ctx.int("q", 0, 255)), ("none", lambda ctx: None), ("str", lambda ctx: "XCoordinate"),
                       ("other-enum", lambda ctx: LIMITS[1])]:
        def r_badq(ctx, interp, fn, bmk=bmk):
            addr = sym_addr(ctx, A.GearShort, "d")
            u = TcUnit(ctx, lambda d: True)
            h = Harness(ctx, interp, u)
            out = h.run(GS.QueryDT8ColourValue, addr, bmk(ctx))
            ctx.cover()
            ctx.prove("rejected-with-TypeError", out[0] == "raise" and issubclass(out[1], TypeError))
            ctx.prove("nothing-sent", len(h.trace) == 0)
        unit("query/bad-selector/" + bname, r_badq)
    return U


def ctx_test(ctx, interp, cond):
    return interp.test(cond)


# checks whose proof units establish the callee contracts applied here (re-verified by this check, see main.dependency_units)
DEPENDENCIES = ['C04', 'C05']

META = {
    "level": "proof",
    "bounds": {"tc": "0..65535 symbolic; rejected values: any int outside, None, str", "destinations": "short / group / "
               "broadcast objects and plain ints, numbers symbolic", "selectors": "all 83 query selectors, all 4 limit selectors",
               "unit state before the sequence": "DTR0/1/2, temporary and actual Tc, limits, reported value all symbolic",
               "faults": "silence or framing error on any of the answers of the query sequence"},
    "assumptions": [
        "ASSUMED unit contract contracts/units/gear209.py (IEC 62386-209 Tc unit + 102 DTRs); the observed unit reacts to "
        "the destination the caller passes",
        "the driver layer (EnableDeviceType 8 before DT8 commands, send-twice) is outside this property",
        "command constructors and response classes are executed through their real bodies / the Frame and Address contracts",
    ],
    "undecided_clauses": [],
    "trusted_base": ["contracts/units/gear209.py", "pyvc/seq.py (yield = call of the unit model)"],
}
