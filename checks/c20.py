"""C20 - Observed bus traffic is reported once, decoded in context, paired up."""
import logging
from pyvc.engine import Unit
from pyvc.spec import And, Or, Not, ite, Implies, is_instance, type_of, new_object
from pyvc.path import RaiseEx, PathEnd
from pyvc.values import SBytes, values_equal, SObj, Closure
import checks.drv_common  # noqa: F401  (registers the driver classes as init-built)
from pyvc.aio import World, install, MQueue
from pyvc.loops import LoopSpec
from pyvc import sym
from dali import frame as F, command as C
from dali.driver import serial as SER, hid as HID
from dali.gear import general as G
from dali.device import helpers as H
import contracts.frame as CF
import contracts.command as CC
from checks.c01 import USE as USE0
from checks.c19 import luba_proto, sci_proto, q_items, dist_queue, LUBA, SCI, LS, SS, decoded_under, check_observed

USE = USE0 + [CC.KEY]


def units(tier):
    CF.WMAX = 64
    U = []

    def unit(name, runner, loops=None, **kw):
        U.append(Unit("C20/" + name, "C20", None, None, use=USE, width=72, kind="custom", runner=runner,
                      loops=loops or {}, max_paths=100000, **kw))

    # ------------------------------------------------------------ serial receive path: decode in context, distribute once
    for nbytes in (2, 3):
        def r_luba(ctx, interp, fn, nbytes=nbytes):
            world = World(ctx, interp)
            install(interp, world)
            prev = ctx.int("prev_rx_devicetype", 0, 255)
            prev_tx = ctx.int("prev_tx_devicetype", 0, 255)
            dmap = ctx.new(H.DeviceInstanceTypeMapper, _mapping={})
            data = [ctx.int("d%d" % i, 0, 255) for i in range(nbytes)]
            info = ctx.int("bits_info", 1, 32)
            payload = [ctx.int("tick_hi", 0, 255), ctx.int("tick_lo", 0, 255), 0, 0x80 | info] + data
            L = len(payload)
            buf = [0x59, 0x31, L] + payload + [None] * (21 - L)
            p, kids = luba_proto(ctx, world, LS.WAIT_CHECKSUM, buf, L, L, prev_rx=prev, prev_tx=prev_tx, dmap=dmap)
            frame = tuple(buf[:L + 3] + [0])
            try:
                interp.call(interp.get_attr(p, "_process_luba_event"), (frame,), {})
            except RaiseEx as e:
                ctx.fail("never-raises:%s" % e.cls.__name__, detail="at %s" % e.where)
                return
            ctx.cover()
            value = 0
            for b in data:
                value = (value << 8) | b
            for i, k in enumerate(kids):
                items = q_items(k)
                ctx.prove("every-subscriber-receives-exactly-one-report", len(items) == 1, detail="subscriber %d got %d" % (i, len(items)))
                if len(items) == 1:
                    check_observed(ctx, interp, items[0], 8 * nbytes, value, prev, dmap)
            is_edt = And(nbytes == 2, data[0] == 0xC1)
            ctx.prove("device-type-memory", p._prev_rx_enable_dt == ite(is_edt, data[1], 0),
                      detail="an enable-device-type frame is remembered for the next frame only")
            ctx.prove("device-type-of-the-transmitted-stream-untouched", p._prev_tx_enable_dt == prev_tx,
                      detail="a frame seen on the bus changed the device type remembered for the gateway's own transmissions")
            ctx.prove("not-mistaken-for-an-answer", len(q_items(p._queue_rx_raw_dali)) == 0)
        unit("serial/luba/observed-%d-bit" % (8 * nbytes), r_luba)

        def r_sci(ctx, interp, fn, nbytes=nbytes):
            world = World(ctx, interp)
            install(interp, world)
            prev = ctx.int("prev_rx_devicetype", 0, 255)
            dmap = ctx.new(H.DeviceInstanceTypeMapper, _mapping={})
            data = [ctx.int("d%d" % i, 0, 255) for i in range(nbytes)]
            p, kids = sci_proto(ctx, world, SS.WAIT_CHECKSUM, [0] * 5, prev_rx=prev, dmap=dmap)
            try:
                interp.call(interp.get_attr(p, "_process_dali_frame"), (list(data) if ctx.native else interp.fresh(list(data)),), {})
            except RaiseEx as e:
                ctx.fail("never-raises:%s" % e.cls.__name__, detail="at %s" % e.where)
                return
            ctx.cover()
            value = 0
            for b in data:
                value = (value << 8) | b
            for i, k in enumerate(kids):
                items = q_items(k)
                ctx.prove("every-subscriber-receives-exactly-one-report", len(items) == 1)
                if len(items) == 1:
                    check_observed(ctx, interp, items[0], 8 * nbytes, value, prev, dmap)
            is_edt = And(nbytes == 2, data[0] == 0xC1)
            ctx.prove("device-type-memory", p._prev_rx_enable_dt == ite(is_edt, data[1], 0))
        unit("serial/sci/observed-%d-bit" % (8 * nbytes), r_sci)

    # ------------------------------------------------------------ DistributorQueue: subscribe / unsubscribe
    def r_dist(ctx, interp, fn):
        world = World(ctx, interp)
        install(interp, world)
        parent, kids = dist_queue(ctx, 3)
        item = ctx.int("item", 0, 255)
        interp.call(interp.get_attr(parent, "distribute"), (item,), {})
        interp.call(interp.get_attr(parent, "del_handler"), (kids[1],), {})
        item2 = ctx.int("item2", 0, 255)
        interp.call(interp.get_attr(parent, "distribute"), (item2,), {})
        ctx.cover()
        got = [q_items(k) for k in kids]
        ctx.prove("subscribed-queues-receive-every-report-in-order", values_equal(got[0], [item, item2]) and values_equal(got[2], [item, item2]))
        ctx.prove("unsubscribing-stops-delivery-to-that-subscriber-only", values_equal(got[1], [item]))
        try:
            interp.call(interp.get_attr(kids[0], "add_handler"), (kids[2],), {})
            nested = False
        except RaiseEx as e:
            nested = issubclass(e.cls, RuntimeError)
        ctx.prove("no-second-level-of-subscribers", nested)
    unit("serial/distributor-queue", r_dist)


    # subscription histories: every order of leaving and (re)joining among three subscribers
    import itertools
    for leaver, hist in itertools.product((0, 1, 2), ("leave-join", "leave-join-leave", "leave-rejoin")):
        def r_hist(ctx, interp, fn, leaver=leaver, hist=hist):
            """whoever is subscribed when a report is distributed gets it exactly once, whatever happened before"""
            world = World(ctx, interp)
            install(interp, world)
            parent, kids = dist_queue(ctx, 3)
            call = lambda name, *a: interp.call(interp.get_attr(parent, name), a, {})      # noqa: E731
            if ctx.native:
                newcomer = SER.DistributorQueue(parent)
                call("del_handler", newcomer)       # created subscribed; it joins later
            else:
                newcomer = ctx.new(SER.DistributorQueue, _handlers={}, _parent=parent)
            x1, x2, x3 = ctx.int("item1", 0, 255), ctx.int("item2", 0, 255), ctx.int("item3", 0, 255)
            subscribed = {0: True, 1: True, 2: True, "new": False}
            want = {0: [], 1: [], 2: [], "new": []}

            def distribute(x):
                call("distribute", x)
                for k, on in subscribed.items():
                    if on:
                        want[k].append(x)
            distribute(x1)
            call("del_handler", kids[leaver])
            subscribed[leaver] = False
            if hist == "leave-rejoin":
                call("add_handler", kids[leaver])
                subscribed[leaver] = True
            else:
                call("add_handler", newcomer)
                subscribed["new"] = True
            distribute(x2)
            if hist == "leave-join-leave":
                other = (leaver + 1) % 3
                call("del_handler", kids[other])
                subscribed[other] = False
            distribute(x3)
            ctx.cover()
            for k in (0, 1, 2):
                ctx.prove("subscriber-%d-gets-exactly-the-reports-made-while-it-was-subscribed" % k,
                          values_equal(q_items(kids[k]), want[k]), detail="got %r, expected %r" % (q_items(kids[k]), want[k]))
            ctx.prove("newcomer-gets-exactly-the-reports-made-after-it-joined", values_equal(q_items(newcomer), want["new"]),
                      detail="got %r, expected %r" % (q_items(newcomer), want["new"]))
        unit("serial/distributor-queue-history/%s/leaver=%d" % (hist, leaver), r_hist)

    def r_dist_hash(ctx, interp, fn):
        """children are registered under hash(child): the real add_handler / del_handler pair"""
        world = World(ctx, interp)
        install(interp, world)
        if ctx.native:
            parent = SER.DistributorQueue()
            a, b = SER.DistributorQueue(parent), SER.DistributorQueue(parent)
        else:
            parent = ctx.new(SER.DistributorQueue, _handlers=ctx.track({}), _parent=None)
            a = ctx.new(SER.DistributorQueue, _handlers={}, _parent=parent)
            b = ctx.new(SER.DistributorQueue, _handlers={}, _parent=parent)
            interp.call(interp.get_attr(parent, "add_handler"), (a,), {})
            interp.call(interp.get_attr(parent, "add_handler"), (b,), {})
        x = ctx.int("item", 0, 255)
        interp.call(interp.get_attr(parent, "distribute"), (x,), {})
        ctx.cover()
        ctx.prove("both-subscribers-served", values_equal(q_items(a), [x]) and values_equal(q_items(b), [x]))
        ctx.prove("parent-keeps-nothing", len(q_items(parent)) == 0)
    unit("serial/distributor-queue-registration", r_dist_hash)


    # ------------------------------------------------------------ every report about bus traffic reaches the watcher
    def r_feed(ctx, interp, fn):
        """_handle_read: a report in observe mode or in response mode - whatever its sequence number, outstanding or
        long retired (the gateway reports foreign frames equal to its last transmission in response mode) - is handed
        to the bus watcher exactly once and the watcher is woken; handshake (info mode) reports are not traffic"""
        from specs import gateways as GW
        from pyvc.models import AssocDict
        world = World(ctx, interp)
        install(interp, world)
        s1, s = ctx.int("seq1", 1, 255), ctx.int("report_seq", 0, 255)
        e1 = world.event(False, "e1")
        m1 = ctx.track([])
        outstanding = {s1: (e1, m1)} if ctx.native else AssocDict([(s1, (e1, m1))])
        mode = ctx.int("mode", 0, 255)
        body = [mode] + [ctx.int("r%d" % i, 0, 255) for i in range(1, 8)] + [s] + [0] * 55
        data = bytes(body) if ctx.native else SBytes(body)
        watch = world.event(False, "watch")
        feed = ctx.track([])
        drv = ctx.new(HID.tridonic, _log=logging.getLogger("x"), _outstanding=outstanding, _bus_watch_data=feed,
                      _bus_watch_data_available=watch, firmware_version="1.0", serial="00", _f=7)
        out = world.run(HID.tridonic._handle_read, drv, data)
        ctx.cover()
        ctx.prove("never-raises", out[0] == "return", detail="outcome %r" % (out[:2],))
        traffic = Or(mode == GW.TRIDONIC_MODE_OBSERVE, mode == GW.TRIDONIC_MODE_RESPONSE)
        got = interp.get_attr(drv, "_bus_watch_data")
        ctx.prove("traffic-report-handed-to-the-watcher-exactly-once", (len(got) == 1) == traffic if not isinstance(traffic, bool)
                  else (len(got) == 1) == traffic, detail="mode %r, sequence number %r" % (mode, s))
        ctx.prove("watcher-woken-exactly-for-traffic", watch.flag == traffic)
    unit("hid/_handle_read/traffic-reaches-the-watcher", r_feed)

    # ------------------------------------------------------------ hid callback registry
    def r_callbacks(ctx, interp, fn):
        world = World(ctx, interp)
        install(interp, world)
        if ctx.native:
            return          # needs a running loop; the registry is exercised natively through the watcher replay
        parent = ctx.new(HID.hid, _path="x")
        reg = ctx.new(HID._callback, _parent=parent, _callbacks=ctx.track({}))
        f1, f2, f3 = (lambda *a: 1), (lambda *a: 2), (lambda *a: 3)
        h1 = interp.call(interp.get_attr(reg, "register"), (f1,), {})
        h2 = interp.call(interp.get_attr(reg, "register"), (f2,), {})
        a, b = ctx.int("arg0", 0, 255), ctx.int("arg1", 0, 255)
        interp.call(interp.get_attr(reg, "_invoke"), (a, b), {})
        interp.call(interp.get_attr(h1, "unregister"), (), {})
        h3 = interp.call(interp.get_attr(reg, "register"), (f3,), {})
        interp.call(interp.get_attr(reg, "_invoke"), (b,), {})
        ctx.cover()
        calls = [e for e in world.log if e[0] == "call_soon"]
        ctx.prove("every-subscriber-at-the-time-is-called", [c[1] for c in calls] == [f1, f2, f2, f3])
        if len(calls) == 4:
            ctx.prove("called-with-the-driver-and-the-report", And(
                calls[0][2][0] is parent, values_equal(list(calls[0][2][1:]), [a, b]),
                values_equal(list(calls[1][2][1:]), [a, b]), values_equal(list(calls[2][2][1:]), [b]),
                values_equal(list(calls[3][2][1:]), [b])))
        ctx.prove("unregistering-stops-delivery-to-that-subscriber-only", f1 not in [c[1] for c in calls[2:]])
    unit("hid/callback-registry", r_callbacks)
    watcher_units(unit)
    return U


# ----------------------------------------------------------------------------- Tridonic bus watcher: one step
from specs import gateways as GW        # noqa: E402

WATCH = "dali.driver.hid:tridonic._bus_watch"


def classify(report):
    """what a 64-byte report denotes for the watcher (from the gateway's report grammar)"""
    origin, rtype = report[0], report[1]
    if Not(Or(origin == GW.TRIDONIC_MODE_OBSERVE, origin == GW.TRIDONIC_MODE_RESPONSE)):
        return ("ignored",)
    if rtype == GW.TRIDONIC_DALI16:
        return ("forward", 16, (report[4] << 8) | report[5])
    if rtype == GW.TRIDONIC_DALI24:
        return ("forward", 24, (report[3] << 16) | (report[4] << 8) | report[5])
    if rtype == GW.TRIDONIC_DALI8:
        return ("backward", report[5], False)
    if rtype == GW.TRIDONIC_NO_FRAME:
        return ("noframe",)
    if And(rtype == GW.TRIDONIC_INFO, report[5] == GW.TRIDONIC_STATUS_FRAMING_ERROR):
        return ("backward", 255, True)
    return ("ignored",)


class Labelled:
    """conditions of the watcher step, each proved under its own name"""

    def __init__(self):
        self.items = []
        self.label = "state"

    def append(self, cond):
        self.items.append((self.label, cond))


def watcher_units(unit):
    st = {}

    def mk_report(ctx):
        """a well-formed report: frame right-aligned in 4 bytes, unused upper bytes zero"""
        b = [ctx.fresh_int("rep", 0, 255) for _ in range(9)]
        rtype = b[1]
        ctx.assume(Implies(rtype == GW.TRIDONIC_DALI16, And(b[2] == 0, b[3] == 0)))
        ctx.assume(Implies(rtype == GW.TRIDONIC_DALI24, b[2] == 0))
        ctx.assume(Implies(rtype == GW.TRIDONIC_DALI8, And(b[2] == 0, b[3] == 0, b[4] == 0)))
        return b + [0] * 55

    def havoc(lc):
        ctx, interp = lc.ctx, lc.interp
        drv = st["drv"]
        kind = ctx.choose_int(ctx.fresh_int("pending_kind", 0, 2), "pending")
        pending = None
        if kind:
            bits = 16 if ctx.fresh_bool("pending16") else 24
            fr = new_object(F.ForwardFrame, _bits=bits, _data=ctx.fresh_int("pdata", 0, (1 << bits) - 1), _error=False)
            pending = new_object(C.Command, _data=fr, sendtwice=(kind == 1), response=(C.NumericResponse if kind == 2 else None))
        dt = ctx.fresh_int("devicetype", 0, 255)
        lc.set("pending", pending)
        lc.set("devicetype", dt)
        drv.fields["_bus_watch_data"] = ctx.track([])
        drv.fields["_bus_watch_data_available"].flag = False
        st.update(pending=pending, dt=dt, input=None, nlog=len(st["world"].log))

    def env_delivers(event):
        """the reader callback hands one report to the watcher while it waits"""
        ctx = st["ctx"]
        rep = mk_report(ctx)
        st["input"] = rep
        st["drv"].fields["_bus_watch_data"].append(SBytes(rep))
        event.flag = True

    def reports_since(world):
        out = []
        for e in world.log[st["nlog"]:]:
            if e[0] == "call_soon":
                out.append(e[2][1:])        # (command, response, error flag) after the driver argument
        return out

    def inv(lc):
        if lc.phase != "keep":
            return True
        ctx, interp, world = lc.ctx, lc.interp, st["world"]
        pending, dt, rep = st["pending"], st["dt"], st["input"]
        new_pending = lc.get("pending")
        new_dt = lc.get("devicetype")
        got = reports_since(world)
        inp = ("timeout",) if rep is None else classify(rep)
        conds = Labelled()
        want = []           # expected reports: (kind, command-or-"decoded", response kind, flag)
        exp_pending, exp_dt = pending, dt
        process = None
        if inp[0] == "ignored":
            pass
        elif pending is not None and pending.sendtwice:
            if inp[0] == "timeout" or inp[0] == "noframe":
                want.append((pending, None, True))
                exp_pending = None
            elif inp[0] == "backward":
                want.append((pending, None, True))
                exp_pending = None
            else:
                same = And(pending._data._bits == inp[1], pending._data._data == inp[2])
                if interp.test(same):
                    want.append((pending, None, False))
                    exp_pending = None
                else:
                    want.append((pending, None, True))
                    exp_pending = None
                    process = inp
        elif pending is not None:
            if inp[0] in ("timeout", "noframe"):
                want.append((pending, "no-answer", False))
                exp_pending = None
            elif inp[0] == "backward":
                want.append((pending, ("answer", inp[1], inp[2]), False))
                exp_pending = None
            else:
                want.append((pending, "no-answer", False))
                exp_pending = None
                process = inp
        elif inp[0] == "forward":
            process = inp
        decoded = None
        if process is not None:
            decoded = "decoded"
        # ---- compare
        conds.label = "decoded-in-context-and-pending-state"
        n_expected = len(want) + (1 if decoded else 0)
        # the decoded command is reported at once unless it is a config command or a query
        if decoded:
            if isinstance(new_pending, SObj) and new_pending is not pending and new_pending is not None:
                cmd = new_pending
                n_expected -= 1
            else:
                cmd = got[-1][0] if got else None
            ok = cmd is not None and isinstance(cmd, SObj)
            conds.append(ok)
            if ok:
                fr = cmd._data
                conds.append(And(fr._bits == process[1], fr._data == process[2]))
                if type_of(cmd) is G.EnableDeviceType:
                    conds.append(new_dt == cmd.param)
                    conds.append(new_pending is None)
                else:
                    du = cmd.fields.get("_decoded_under")
                    conds.append(du is not None and interp.truth(interp.eq(du[0], dt)) and du[1] is st["drv"].fields["dev_inst_map"])
                    conds.append(interp.truth(interp.eq(new_dt, 0)))
                    needs_more = bool(cmd.sendtwice) or cmd.response is not None
                    conds.append((new_pending is cmd) == needs_more)
                    if not needs_more:
                        conds.append(len(got) >= 1 and got[-1][0] is cmd and got[-1][1] is None and got[-1][2] is False)
        else:
            conds.append(new_pending is exp_pending)
            conds.append(interp.truth(interp.eq(new_dt, exp_dt)))
        conds.label = "each-frame-reported-exactly-once"
        conds.append(len(got) == n_expected)
        conds.label = "pending-command-resolved-as-specified"
        for g, w in zip(got, want):
            conds.append(g[0] is w[0])
            conds.append(g[2] is w[2])
            if w[1] is None:
                conds.append(g[1] is None)
            elif w[1] == "no-answer":
                conds.append(g[1] is not None and type_of(g[1]) is w[0].response and g[1]._value is None)
            else:
                ok = g[1] is not None and type_of(g[1]) is w[0].response and g[1]._value is not None
                conds.append(ok)
                if ok:
                    raw = g[1]._value
                    conds.append(And(raw._data == w[1][1], raw._error == w[1][2]))
        for label, c in conds.items:
            ctx.prove("step/" + label, c)
        return True

    def r_watch(ctx, interp, fn):
        world = World(ctx, interp)
        install(interp, world)
        world.hooks["event"] = env_delivers
        dmap = ctx.new(H.DeviceInstanceTypeMapper, _mapping={})
        sub = (lambda *a: None)
        reg = ctx.new(HID._callback, _parent=None, _callbacks={1: sub})
        drv = ctx.new(HID.tridonic, _log=logging.getLogger("x"), _bus_watch_data=ctx.track([]),
                      _bus_watch_data_available=world.event(False, "watch"), bus_traffic=reg, dev_inst_map=dmap)
        interp.set_attr(reg, "_parent", drv)
        st.update(ctx=ctx, world=world, drv=drv, input=None, pending=None, dt=0, nlog=0)
        if ctx.native:
            return
        out = world.run(HID.tridonic._bus_watch, drv)
        ctx.fail("watcher-never-returns", detail="outcome %r" % (out[:2],)) if out[0] != "blocked" else None
    unit("hid/tridonic-watcher-step", r_watch,
         loops={(WATCH, 0): LoopSpec("watch", inv, havoc, roles={
             "pending": ("current_command", lambda v: v is None),
             "devicetype": ("devicetype", lambda v: isinstance(v, int) and not isinstance(v, bool) and v == 0)},
             anchor=("_bus_watch_data_available",))})


# checks whose proof units establish the callee contracts applied here (re-verified by this check, see main.dependency_units)
DEPENDENCIES = ['C04', 'C05', 'C01']
INCLUDES = ['C19']      # what the serial receivers deliver (deframing) is established there

META = {
    "level": "proof",
    "bounds": {"serial": "every observed 16- and 24-bit frame (symbolic) under every remembered device type 0..255",
               "subscribers": "two / three subscriber queues and callbacks, one leaving"},
    "assumptions": [
        "Command.from_frame is used through its call-site contract (contracts/command.py): the result carries the frame and "
        "records the (device type, map) it was decoded under; the decoder itself is verified in C01/C02/C12",
        "asyncio primitives through pyvc/aio.py",
    ],
    "undecided_clauses": ["real-time content of the watcher's 200 ms timeout ('in time') - only the step function with the "
                          "timer outcome as an input is verified"],
    "trusted_base": ["contracts/command.py", "pyvc/aio.py"],
}
