"""C02 - Every constructible command or event decodes back to itself; illegal arguments are rejected."""
import collections
from pyvc.engine import Unit
from pyvc.spec import And, Or, Not, ite, pow2, Implies, is_instance, type_of
from pyvc.path import RaiseEx
from pyvc.values import values_equal
from dali import frame as F, address as A, command as C
from dali.device import helpers as H
import dali.gear.general as GG
import dali.gear.led, dali.gear.emergency, dali.gear.incandescent, dali.gear.converter, dali.gear.colour  # noqa
import dali.device.general as DG
import dali.device.pushbutton, dali.device.occupancy as OCC, dali.device.light as LIGHT  # noqa
import contracts.frame as CF
import contracts.address as CA
import contracts.helpers  # noqa: F401
from checks.c01 import USE, mk_map
from checks.c04 import sym_addr, sym_inst, GEAR, DEVICE, INST

K = "dali.command:"


KNOWN_FAMILIES = ("_StandardCommand.__init__", "DAPC.__init__", "_SpecialCommand.__init__", "_ShortAddrSpecialCommand.__init__",
                  "Initialise.__init__", "_StandardDeviceCommand.__init__", "_StandardInstanceCommand.__init__",
                  "_SpecialDeviceCommand.__init__", "_SpecialDeviceCommandOneParam.__init__",
                  "_SpecialDeviceCommandTwoParam.__init__", "_Event.__init__", "UnknownEvent.__init__",
                  "AmbiguousInstanceType.__init__", "Command.__init__", "UnknownGearCommand.__init__",
                  "UnknownDeviceCommand.__init__")


def family_of(cls):
    """the constructor family (whose argument space the cases below enumerate).  A subclass that gains an __init__ of its
    own (a refactor) is still exercised with the argument space of the nearest known family it inherits from: if the new
    constructor accepts something else, the cases fail, which is the point"""
    first = None
    for k in cls.__mro__:
        if "__init__" in k.__dict__:
            q = k.__dict__["__init__"].__qualname__
            first = first or q
            if q in KNOWN_FAMILIES:
                return q
    return first


def all_classes():
    return list(C.Command._commands)


# ----------------------------------------------------------------------------- argument spaces
def gear_dests(ctx):
    out = [(c.__name__, (lambda c=c: sym_addr(ctx, c, "d"))) for c in GEAR]
    out.append(("int", lambda: ctx.int("dnum", 0, 63)))
    return out


def device_dests(ctx):
    return [(c.__name__, (lambda c=c: sym_addr(ctx, c, "d"))) for c in DEVICE]


BAD_DEST_COMMON = [("none", lambda ctx: None), ("str", lambda ctx: "x"), ("float", lambda ctx: 1.5)]


def bad_gear_dests():
    out = [(c.__name__, (lambda ctx, c=c: sym_addr(ctx, c, "d"))) for c in DEVICE]
    out += [("int-high", lambda ctx: ctx.int("dnum", 64)), ("int-neg", lambda ctx: ctx.int("dnum", None, -1))]
    return out + BAD_DEST_COMMON


def bad_device_dests():
    out = [(c.__name__, (lambda ctx, c=c: sym_addr(ctx, c, "d"))) for c in GEAR]
    # an int destination is wrapped as a *gear* short address, which a 24-bit frame refuses
    out += [("int", lambda ctx: ctx.int("dnum"))]
    return out + BAD_DEST_COMMON


def bad_ints(name, lo, hi):
    return [("high", lambda ctx: ctx.int(name, hi + 1)), ("neg", lambda ctx: ctx.int(name, None, lo - 1)),
            ("none", lambda ctx: None), ("str", lambda ctx: "7"), ("float", lambda ctx: 1.0),
            ("list", lambda ctx: [1])]


# ----------------------------------------------------------------------------- runner pieces
def construct(ctx, interp, cls, args, kwargs):
    return interp.call(cls, args, kwargs)


def roundtrip(ctx, interp, cls, args, kwargs, dmap=None, label=""):
    """legal arguments: construction succeeds, decoding the frame gives a structurally identical object"""
    try:
        obj = construct(ctx, interp, cls, args, kwargs)
    except RaiseEx as e:
        ctx.fail(label + "legal-arguments-accepted:%s" % e.cls.__name__,
                 detail="%s%r %r raised %s at %s" % (cls.__name__, args, kwargs, e.cls.__name__, e.where))
        return
    try:
        f = interp.get_attr(obj, "frame")
        r = interp.call(C.from_frame, (f,), {"devicetype": cls.devicetype, "dev_inst_map": dmap})
    except RaiseEx as e:
        ctx.fail(label + "decodes:%s" % e.cls.__name__, detail="decoding raised %s at %s" % (e.cls.__name__, e.where))
        return
    ctx.cover()
    same = r is not None and type_of(r) is cls
    ctx.prove(label + "decodes-to-same-class", same,
              detail="%s decodes to %s" % (cls.__name__, type_of(r).__name__ if r is not None else None))
    if not same:
        return
    ctx.prove(label + "decoded-object-identical", values_equal(state_of(obj), state_of(r)),
              detail="attributes of the decoded %s differ from those of the constructed one" % cls.__name__)
    try:
        s1 = interp.py_str(obj)
        s2 = interp.py_str(r)
        ctx.prove(label + "renders-as-text", isinstance(s1, str) and isinstance(s2, str))
        if ctx.native:
            ctx.prove(label + "same-text", s1 == s2)
    except RaiseEx as e:
        ctx.fail(label + "renders-as-text:%s" % e.cls.__name__, detail="str() raised %s at %s" % (e.cls.__name__, e.where))
    ctx.prove(label + "pure:no-store-to-pre-existing-state", len(ctx.writes) == 0)


def state_of(o):
    if hasattr(o, "fields"):
        return dict(o.fields)
    return dict(vars(o))


def rejected(ctx, interp, cls, args, kwargs, label):
    """illegal arguments: an exception, never a frame"""
    try:
        obj = construct(ctx, interp, cls, args, kwargs)
    except RaiseEx as e:
        ctx.cover()
        ctx.prove(label + "rejected", issubclass(e.cls, Exception))
        return
    ctx.cover()
    ctx.fail(label + "rejected", detail="%s accepted illegal arguments %r %r" % (cls.__name__, args, kwargs))


# ----------------------------------------------------------------------------- per family
def cases_for(cls):
    """yield (case-name, kind, fn(ctx) -> (args, kwargs, map))"""
    fam = family_of(cls)
    if fam == "_StandardCommand.__init__":
        hp = cls._hasparam
        for dname in [c.__name__ for c in GEAR] + ["int"]:
            def legal(ctx, dname=dname):
                d = dict(gear_dests(ctx))[dname]()
                return ((d, ctx.int("param", 0, 15)) if hp else (d,)), {}, None
            yield "legal/" + dname, "legal", legal
        for dname, mk in bad_gear_dests():
            yield "bad-destination/" + dname, "illegal", \
                (lambda ctx, mk=mk: (((mk(ctx), ctx.int("param", 0, 15)) if hp else (mk(ctx),)), {}, None))
        if hp:
            for bname, mk in bad_ints("param", 0, 15):
                yield "bad-param/" + bname, "illegal", (lambda ctx, mk=mk: ((sym_addr(ctx, A.GearShort, "d"), mk(ctx)), {}, None))
            yield "missing-param", "illegal", lambda ctx: ((sym_addr(ctx, A.GearShort, "d"),), {}, None)
        else:
            yield "extra-param", "illegal", lambda ctx: ((sym_addr(ctx, A.GearShort, "d"), ctx.int("param", 0, 15)), {}, None)
    elif fam == "DAPC.__init__":
        for dname in [c.__name__ for c in GEAR] + ["int"]:
            yield "legal/%s/int" % dname, "legal", \
                (lambda ctx, dname=dname: ((dict(gear_dests(ctx))[dname](), ctx.int("power", 0, 255)), {}, None))
        for lit in ("OFF", "MASK"):
            yield "legal/GearShort/" + lit, "legal", (lambda ctx, lit=lit: ((sym_addr(ctx, A.GearShort, "d"), lit), {}, None))
        for dname, mk in bad_gear_dests():
            yield "bad-destination/" + dname, "illegal", (lambda ctx, mk=mk: ((mk(ctx), ctx.int("power", 0, 255)), {}, None))
        for bname, mk in bad_ints("power", 0, 255):
            yield "bad-power/" + bname, "illegal", (lambda ctx, mk=mk: ((sym_addr(ctx, A.GearShort, "d"), mk(ctx)), {}, None))
    elif fam == "_SpecialCommand.__init__":
        if cls._hasparam:
            yield "legal", "legal", lambda ctx: ((ctx.int("param", 0, 255),), {}, None)
            for bname, mk in bad_ints("param", 0, 255):
                yield "bad-param/" + bname, "illegal", (lambda ctx, mk=mk: ((mk(ctx),), {}, None))
            yield "missing-param", "illegal", lambda ctx: ((), {}, None)
        else:
            yield "legal", "legal", lambda ctx: ((), {}, None)
            yield "extra-param", "illegal", lambda ctx: ((ctx.int("param", 0, 255),), {}, None)
    elif fam == "_ShortAddrSpecialCommand.__init__":
        yield "legal/int", "legal", lambda ctx: ((ctx.int("address", 0, 63),), {}, None)
        yield "legal/MASK", "legal", lambda ctx: (("MASK",), {}, None)
        for bname, mk in bad_ints("address", 0, 63):
            yield "bad-address/" + bname, "illegal", (lambda ctx, mk=mk: ((mk(ctx),), {}, None))
    elif fam == "Initialise.__init__":
        yield "legal/broadcast", "legal", lambda ctx: ((), {"broadcast": True}, None)
        yield "legal/unaddressed", "legal", lambda ctx: ((), {}, None)
        yield "legal/unaddressed-explicit", "legal", lambda ctx: ((), {"broadcast": False, "address": None}, None)
        yield "legal/address", "legal", lambda ctx: ((), {"address": ctx.int("address", 0, 63)}, None)
        yield "legal/positional", "legal", lambda ctx: ((False, ctx.int("address", 0, 63)), {}, None)
        yield "broadcast-and-address", "illegal", lambda ctx: ((), {"broadcast": True, "address": ctx.int("address", 0, 63)}, None)
        for bname, mk in bad_ints("address", 0, 63):
            if bname != "none":
                yield "bad-address/" + bname, "illegal", (lambda ctx, mk=mk: ((), {"address": mk(ctx)}, None))
    elif fam == "_StandardDeviceCommand.__init__":
        for c in DEVICE:
            yield "legal/" + c.__name__, "legal", (lambda ctx, c=c: ((sym_addr(ctx, c, "d"),), {}, None))
        for dname, mk in bad_device_dests():
            yield "bad-destination/" + dname, "illegal", (lambda ctx, mk=mk: ((mk(ctx),), {}, None))
    elif fam == "_StandardInstanceCommand.__init__":
        for c in DEVICE:
            for ic in INST:
                if ic is A.Device:
                    continue        # the property's stated exclusion: instance byte 0xFE denotes device commands
                def legal(ctx, c=c, ic=ic):
                    i = sym_inst(ctx, ic, "i")
                    if ic is A.ReservedInstance:
                        v = i._value
                        ctx.assume(Or(And(v >= 0x40, v <= 0x5F), And(v >= 0xE0, v <= 0xFB)))
                    return (sym_addr(ctx, c, "d"), i), {}, None
                yield "legal/%s/%s" % (c.__name__, ic.__name__), "legal", legal
        for dname, mk in bad_device_dests():
            yield "bad-destination/" + dname, "illegal", \
                (lambda ctx, mk=mk: ((mk(ctx), sym_inst(ctx, A.InstanceNumber, "i")), {}, None))
        for bname, mk in [("int", lambda ctx: ctx.int("inst", 0, 31)), ("none", lambda ctx: None),
                          ("str", lambda ctx: "x"), ("address", lambda ctx: sym_addr(ctx, A.DeviceShort, "e"))]:
            yield "bad-instance/" + bname, "illegal", (lambda ctx, mk=mk: ((sym_addr(ctx, A.DeviceShort, "d"), mk(ctx)), {}, None))
    elif fam == "_SpecialDeviceCommand.__init__":
        yield "legal", "legal", lambda ctx: ((), {}, None)
        yield "extra-param", "illegal", lambda ctx: ((ctx.int("param", 0, 255),), {}, None)
    elif fam == "_SpecialDeviceCommandOneParam.__init__":
        yield "legal", "legal", lambda ctx: ((ctx.int("param", 0, 255),), {}, None)
        for bname, mk in bad_ints("param", 0, 255):
            yield "bad-param/" + bname, "illegal", (lambda ctx, mk=mk: ((mk(ctx),), {}, None))
    elif fam == "_SpecialDeviceCommandTwoParam.__init__":
        yield "legal", "legal", lambda ctx: ((ctx.int("a", 0, 255), ctx.int("b", 0, 255)), {}, None)
        for bname, mk in bad_ints("a", 0, 255):
            yield "bad-a/" + bname, "illegal", (lambda ctx, mk=mk: ((mk(ctx), ctx.int("b", 0, 255)), {}, None))
        for bname, mk in bad_ints("b", 0, 255):
            yield "bad-b/" + bname, "illegal", (lambda ctx, mk=mk: ((ctx.int("a", 0, 255), mk(ctx)), {}, None))
    elif fam in ("_Event.__init__", "UnknownEvent.__init__", "AmbiguousInstanceType.__init__"):
        yield from event_cases(cls, fam)
    elif fam == "Command.__init__":
        # generic commands (Command, ...) are built from a frame; round trip only for frames nothing else claims
        return
    else:
        raise KeyError("unknown constructor family %s for %s" % (fam, cls.__name__))


IMPLEMENTED_TYPES = sorted(k for k in DG._Event._instance_types if isinstance(k, int))


def event_data_cases(cls):
    """legal 'data' values of an event class"""
    if issubclass(cls, OCC.OccupancyEvent):
        yield "int", lambda ctx: ctx.int("evdata", 0, 15)

        def tup(ctx):
            sensor = "movement" if ctx.bool("ev_sensor_is_movement") else "presence"
            return OCC.OccupancyEvent.EventData(movement=ctx.bool("ev_mov"), occupied=ctx.bool("ev_occ"),
                                                repeat=ctx.bool("ev_rep"), sensor_type=sensor)
        yield "tuple", tup
    elif issubclass(cls, LIGHT.LightEvent):
        yield "int", lambda ctx: ctx.int("evdata", 0, 1023)
    elif cls in (DG.UnknownEvent, DG.AmbiguousInstanceType):
        yield "int", lambda ctx: ctx.int("evdata", 0, 1023)
    else:
        yield "none", lambda ctx: None


def event_cases(cls, fam):
    schemes = {
        "device": lambda ctx: {"short_address": ctx.int("short", 0, 63)},
        "device-obj": lambda ctx: {"short_address": sym_addr(ctx, A.DeviceShort, "s")},
        "device-instance": lambda ctx: {"short_address": ctx.int("short", 0, 63), "instance_number": ctx.int("inum", 0, 31)},
        "device-group": lambda ctx: {"device_group": ctx.int("dgroup", 0, 31)},
        "instance-group": lambda ctx: {"instance_group": ctx.int("igroup", 0, 31)},
        "instance": lambda ctx: {"instance_number": ctx.int("inum", 0, 31)},
    }
    if cls is DG.AmbiguousInstanceType:
        schemes = {"device-instance": schemes["device-instance"]}
    for sname, mk in schemes.items():
        for dname, dmk in event_data_cases(cls):
            def legal(ctx, mk=mk, dmk=dmk, sname=sname):
                kw = mk(ctx)
                d = dmk(ctx)
                if d is not None or cls in (OCC.OccupancyEvent,):
                    kw["data"] = d
                dmap = None
                if cls is DG.UnknownEvent:
                    t = ctx.int("itype", 0, 31)
                    ctx.assume(And([t != k for k in IMPLEMENTED_TYPES]))
                    kw["instance_type"] = t
                    if sname == "device-instance":
                        dmap = mk_map(ctx, t)
                elif cls is DG.AmbiguousInstanceType:
                    dmap = None
                elif sname == "device-instance":
                    dmap = mk_map(ctx, cls._instance_type)
                return (), kw, dmap
            yield "legal/%s/data=%s" % (sname, dname), "legal", legal
    if cls is DG.AmbiguousInstanceType:
        yield "missing-short", "illegal", lambda ctx: ((), {"short_address": None, "instance_number": ctx.int("inum", 0, 31), "data": 0}, None)
        yield "missing-instance", "illegal", lambda ctx: ((), {"short_address": ctx.int("short", 0, 63), "instance_number": None, "data": 0}, None)
        return
    legal_data = next(iter(event_data_cases(cls)))[1]

    def with_data(ctx, kw):
        d = legal_data(ctx)
        if d is not None:
            kw["data"] = d
        if cls is DG.UnknownEvent:
            kw["instance_type"] = 0
        return (), kw, None
    bad = {
        "no-source": lambda ctx: {},
        "short+device-group": lambda ctx: {"short_address": ctx.int("short", 0, 63), "device_group": ctx.int("dgroup", 0, 31)},
        "short+instance-group": lambda ctx: {"short_address": ctx.int("short", 0, 63), "instance_group": ctx.int("igroup", 0, 31)},
        "device-group+instance": lambda ctx: {"device_group": ctx.int("dgroup", 0, 31), "instance_number": ctx.int("inum", 0, 31)},
        "device-group+instance-group": lambda ctx: {"device_group": ctx.int("dgroup", 0, 31), "instance_group": ctx.int("igroup", 0, 31)},
        "instance-group+instance": lambda ctx: {"instance_group": ctx.int("igroup", 0, 31), "instance_number": ctx.int("inum", 0, 31)},
        "short-high": lambda ctx: {"short_address": ctx.int("short", 64)},
        "short-neg": lambda ctx: {"short_address": ctx.int("short", None, -1)},
        "short-str": lambda ctx: {"short_address": "1"},
        "short-gear-address": lambda ctx: {"short_address": sym_addr(ctx, A.GearShort, "s")},
        "instance-number-high": lambda ctx: {"instance_number": ctx.int("inum", 32)},
        "instance-number-neg": lambda ctx: {"instance_number": ctx.int("inum", None, -1)},
        "instance-number-str": lambda ctx: {"instance_number": "1"},
        "device-instance-number-high": lambda ctx: {"short_address": ctx.int("short", 0, 63), "instance_number": ctx.int("inum", 32)},
        "device-group-high": lambda ctx: {"device_group": ctx.int("dgroup", 32)},
        "device-group-neg": lambda ctx: {"device_group": ctx.int("dgroup", None, -1)},
        "instance-group-high": lambda ctx: {"instance_group": ctx.int("igroup", 32)},
        "instance-group-float": lambda ctx: {"instance_group": 1.0},
    }
    for bname, mk in bad.items():
        yield "bad/" + bname, "illegal", (lambda ctx, mk=mk: with_data(ctx, mk(ctx)))
    # illegal event data
    if issubclass(cls, LIGHT.LightEvent):
        for bname, mk in [("high", lambda ctx: ctx.int("evdata", 1024)), ("neg", lambda ctx: ctx.int("evdata", None, -1)),
                          ("none", lambda ctx: None), ("str", lambda ctx: "5")]:
            yield "bad-data/" + bname, "illegal", (lambda ctx, mk=mk: ((), {"instance_number": ctx.int("inum", 0, 31), "data": mk(ctx)}, None))
    if issubclass(cls, OCC.OccupancyEvent):
        for bname, mk in [("none", lambda ctx: None), ("str", lambda ctx: "5"), ("tuple", lambda ctx: (True, True, False, "movement"))]:
            yield "bad-data/" + bname, "illegal", (lambda ctx, mk=mk: ((), {"instance_number": ctx.int("inum", 0, 31), "data": mk(ctx)}, None))
    if cls is DG.UnknownEvent:
        for bname, mk in [("high", lambda ctx: ctx.int("evdata", 1024)), ("neg", lambda ctx: ctx.int("evdata", None, -1))]:
            yield "bad-data/" + bname, "illegal", (lambda ctx, mk=mk: ((), {"instance_type": 7, "instance_number": ctx.int("inum", 0, 31), "data": mk(ctx)}, None))
        for bname, mk in [("high", lambda ctx: ctx.int("itype", 32)), ("neg", lambda ctx: ctx.int("itype", None, -1))]:
            yield "bad-instance-type/" + bname, "illegal", (lambda ctx, mk=mk: ((), {"instance_type": mk(ctx), "instance_number": ctx.int("inum", 0, 31), "data": 0}, None))


def units(tier):
    CF.WMAX = 64
    U = []
    for cls in all_classes():
        cases = list(cases_for(cls))
        if not cases:
            continue

        def runner(ctx, interp, fn, cls=cls, cases=cases):
            # one symbolic run per case; cases are independent, so each is explored as its own sub-tree
            which = ctx.int("case", 0, len(cases) - 1)
            i = ctx.choose_int(which, "case")
            name, kind, mk = cases[i]
            args, kwargs, dmap = mk(ctx)
            if kind == "legal":
                roundtrip(ctx, interp, cls, args, kwargs, dmap, label=name + "/")
            else:
                rejected(ctx, interp, cls, args, kwargs, label=name + "/")
        U.append(Unit("C02/%s.%s" % (cls.__module__.replace("dali.", ""), cls.__name__), "C02", None, None, use=USE,
                      width=72, kind="custom", runner=runner, max_paths=100000))
    return U


def extra_checks(tier, seed):
    """E-check: every live command class belongs to a constructor family handled above (none is silently skipped)"""
    import time
    t0 = time.time()
    skipped = []
    n = 0
    for cls in all_classes():
        n += 1
        try:
            cs = list(cases_for(cls))
        except KeyError as e:
            return [{"name": "C02/registry/every-class-has-a-known-constructor-family", "status": "failed",
                     "detail": str(e), "cases": n, "kind": "exhaustive", "seconds": time.time() - t0,
                     "witness": {"class": cls.__name__}, "replay": {"class": cls.__name__, "error": str(e)}}]
        if not cs:
            skipped.append(cls.__name__)
    ok = set(skipped) <= {"Command", "UnknownGearCommand", "UnknownDeviceCommand"}
    return [{"name": "C02/registry/every-class-has-a-known-constructor-family",
             "status": "discharged" if ok else "failed", "cases": n, "kind": "exhaustive",
             "detail": "classes without round-trip cases: %s" % skipped, "seconds": time.time() - t0,
             "witness": {"skipped": skipped}, "replay": {"skipped": skipped}}]


# checks whose proof units establish the callee contracts applied here (re-verified by this check, see main.dependency_units)
DEPENDENCIES = ['C04', 'C05', 'C12']

META = {
    "level": "proof",
    "bounds": {"classes": "all live command/event classes (329) taken from the registry at run time",
               "arguments": "every destination kind with a symbolic number; every instance kind with a symbolic number "
                            "(device instance byte 0xFE excluded as the property says; ReservedInstance over the reserved "
                            "byte values); parameters fully symbolic; illegal arguments: out-of-range ints (symbolic, "
                            "both sides), wrong-kind addresses, None/str/float/list, wrong arity, forbidden event field "
                            "combinations"},
    "assumptions": [
        "Frame, Address and Instance operations are used through their contracts (C05, C04)",
        "decoded object identical = same class and structurally equal attribute maps (stronger than ==); equal text then "
        "follows because __str__ reads only the object's own attributes; str() itself is proved total",
        "OccupancyEvent.EventData flags are real bools (ints 0/1 encode the same bits but are different attribute values)",
        "UnknownEvent round trip is stated for instance types without an implementation and with event data given; "
        "AmbiguousInstanceType for decoding without a map",
        "generic Command/UnknownGearCommand/UnknownDeviceCommand objects are built from frames, not arguments: they are "
        "covered by C01",
    ],
    "undecided_clauses": [],
    "trusted_base": ["contracts/frame.py", "contracts/address.py", "contracts/helpers.py"],
}
