"""C05 - Frame behaves as a fixed-width unsigned bit vector under all operations."""
from pyvc.engine import Unit
from pyvc.spec import And, Or, Not, ite, pow2, Implies, bit, concretize
from pyvc import sym
from pyvc.values import SBytes
from dali import frame as F
import contracts.frame as CF
from contracts.frame import wf

K = "dali.frame:"
NON_INT = {"none": None, "str": "x", "float": 1.5, "bytes": b"a", "tuple": (1, 2), "list": [1], "obj": object}


def mk(tag):
    v = NON_INT[tag]
    return v() if v is object else v


def sym_frame(ctx, p="", cls=F.Frame, wmax=None, error=False):
    f = ctx.new(cls, _bits=ctx.int(p + "bits", 1, wmax or CF.WMAX), _data=ctx.int(p + "data", 0), _error=error)
    ctx.assume(f._data < pow2(f._bits))
    return f


def sym_bytes(ctx, n, p="b"):
    if ctx.native:
        return bytes(ctx.int("%s%d" % (p, i), 0, 255) for i in range(n))
    return SBytes([ctx.int("%s%d" % (p, i), 0, 255) for i in range(n)])


def units(tier):
    wmax = 256 if tier == "thorough" else 64
    CF.WMAX = wmax
    W1 = wmax + 8           # single-frame operations
    W2 = 2 * wmax + 8       # concatenation
    tmo = 600000 if tier == "thorough" else 120000
    U = []

    def unit(name, target, builder, use=(), width=W1, **kw):
        U.append(Unit("C05/" + name, "C05", K + target, builder, use=[K + u for u in use], width=width,
                      timeout_ms=tmo, **kw))

    # ---------------------------------------------------------------- constructors
    for cls, tgt in ((F.Frame, "Frame.__init__"),):
        unit("init/int-int", tgt, lambda ctx: (ctx.new(F.Frame), ctx.int("bits", None, wmax), ctx.int("data")),
             state_on_raise=False)
        for n in range(0, wmax // 8 + 2):
            unit("init/int-bytes%d" % n, tgt,
                 lambda ctx, n=n: (ctx.new(F.Frame), ctx.int("bits", None, wmax), sym_bytes(ctx, n)),
                 state_on_raise=False, width=W1 + 16)
        for n in (0, 1, 2):
            unit("init/int-tuple%d" % n, tgt,
                 lambda ctx, n=n: (ctx.new(F.Frame), ctx.int("bits", None, wmax),
                                   tuple(ctx.int("e%d" % i, -300, 300) for i in range(n))),
                 state_on_raise=False)
        for tag in NON_INT:
            unit("init/bits-" + tag, tgt, lambda ctx, tag=tag: (ctx.new(F.Frame), mk(tag), ctx.int("data")),
                 state_on_raise=False)
        for tag in ("none", "str", "float", "obj"):
            unit("init/data-" + tag, tgt, lambda ctx, tag=tag: (ctx.new(F.Frame), ctx.int("bits", None, wmax), mk(tag)),
                 state_on_raise=False)
        unit("init/default-data", tgt, lambda ctx: (ctx.new(F.Frame), ctx.int("bits", None, wmax)),
             state_on_raise=False)
    for cls, tgt in ((F.BackwardFrame, "BackwardFrame.__init__"), (F.BackwardFrameError, "BackwardFrameError.__init__")):
        use = ["Frame.__init__"] + (["BackwardFrame.__init__"] if cls is F.BackwardFrameError else [])
        unit("init/%s-int" % cls.__name__, tgt, lambda ctx, cls=cls: (ctx.new(cls), ctx.int("data")),
             use=use, state_on_raise=False)
        for n in (0, 1, 2):
            unit("init/%s-bytes%d" % (cls.__name__, n), tgt, lambda ctx, cls=cls, n=n: (ctx.new(cls), sym_bytes(ctx, n)),
                 use=use, state_on_raise=False)
        unit("init/%s-none" % cls.__name__, tgt, lambda ctx, cls=cls: (ctx.new(cls), None),
             use=use, state_on_raise=False)

    # ---------------------------------------------------------------- observers
    unit("len", "Frame.__len__", lambda ctx: (sym_frame(ctx),))
    unit("error/false", "Frame.error", lambda ctx: (sym_frame(ctx),))
    unit("error/true", "Frame.error", lambda ctx: (sym_frame(ctx, cls=F.BackwardFrameError, error=True),))
    unit("as_integer", "Frame.as_integer", lambda ctx: (sym_frame(ctx),))
    for oc in (F.Frame, F.ForwardFrame, F.BackwardFrame):
        unit("eq/" + oc.__name__, "Frame.__eq__", lambda ctx, oc=oc: (sym_frame(ctx), sym_frame(ctx, "o", oc)))
        unit("ne/" + oc.__name__, "Frame.__ne__", lambda ctx, oc=oc: (sym_frame(ctx), sym_frame(ctx, "o", oc)))
    for tag in NON_INT:
        unit("eq/" + tag, "Frame.__eq__", lambda ctx, tag=tag: (sym_frame(ctx), mk(tag)))
        unit("ne/" + tag, "Frame.__ne__", lambda ctx, tag=tag: (sym_frame(ctx), mk(tag)))
    unit("eq/int", "Frame.__eq__", lambda ctx: (sym_frame(ctx), ctx.int("o")))
    unit("is_reserved", "ForwardFrame.is_reserved", lambda ctx: (sym_frame(ctx, cls=F.ForwardFrame),), use=["Frame.__len__"])
    unit("is_proprietary", "ForwardFrame.is_proprietary", lambda ctx: (sym_frame(ctx, cls=F.ForwardFrame),),
         use=["Frame.__len__"])

    # ---------------------------------------------------------------- slices and bits
    def key_kinds():
        yield "slice", lambda ctx: slice(ctx.int("start"), ctx.int("stop"))
        yield "slice-step1", lambda ctx: slice(ctx.int("start"), ctx.int("stop"), 1)
        yield "slice-step", lambda ctx: slice(ctx.int("start"), ctx.int("stop"), ctx.int("step"))
        yield "slice-nostart", lambda ctx: slice(None, ctx.int("stop"))
        yield "slice-nostop", lambda ctx: slice(ctx.int("start"), None)
        yield "slice-strstop", lambda ctx: slice(ctx.int("start"), "a")
        yield "slice-boolstart", lambda ctx: slice(ctx.bool("bstart"), ctx.int("stop"))
        yield "int", lambda ctx: ctx.int("key")
        yield "bool", lambda ctx: ctx.bool("bkey")
        for tag in NON_INT:
            yield tag, lambda ctx, tag=tag: mk(tag)

    inv = [("wf-preserved", lambda ctx, a, out: wf(a[0]))]
    for kname, kb in key_kinds():
        if kname.startswith("slice"):
            unit("readslice/" + kname, "Frame._readslice", lambda ctx, kb=kb: (sym_frame(ctx), kb(ctx)))
        unit("getitem/" + kname, "Frame.__getitem__", lambda ctx, kb=kb: (sym_frame(ctx), kb(ctx)),
             use=["Frame._readslice"])
        unit("setitem/%s/int" % kname, "Frame.__setitem__", lambda ctx, kb=kb: (sym_frame(ctx), kb(ctx), ctx.int("value")),
             use=["Frame._readslice"], ensures=inv)
        unit("setitem/%s/bool" % kname, "Frame.__setitem__", lambda ctx, kb=kb: (sym_frame(ctx), kb(ctx), ctx.bool("bvalue")),
             use=["Frame._readslice"], ensures=inv)
    for kname in ("slice", "int"):
        kb = dict(key_kinds())[kname]
        for tag in ("none", "str", "float", "list"):
            unit("setitem/%s/%s" % (kname, tag), "Frame.__setitem__",
                 lambda ctx, kb=kb, tag=tag: (sym_frame(ctx), kb(ctx), mk(tag)), use=["Frame._readslice"], ensures=inv)

    # ---------------------------------------------------------------- contains / add / views
    unit("contains/bool", "Frame.__contains__", lambda ctx: (sym_frame(ctx), ctx.bool("item")))
    unit("contains/int", "Frame.__contains__", lambda ctx: (sym_frame(ctx), ctx.int("item")))
    for tag in NON_INT:
        unit("contains/" + tag, "Frame.__contains__", lambda ctx, tag=tag: (sym_frame(ctx), mk(tag)))
    half = wmax // 2
    for oc in (F.Frame, F.ForwardFrame, F.BackwardFrame):
        unit("add/" + oc.__name__, "Frame.__add__",
             lambda ctx, oc=oc: (sym_frame(ctx, wmax=half), sym_frame(ctx, "o", oc, wmax=half)),
             use=["Frame.__init__"], width=W2)
    for tag in NON_INT:
        unit("add/" + tag, "Frame.__add__", lambda ctx, tag=tag: (sym_frame(ctx, wmax=half), mk(tag)),
             use=["Frame.__init__"], width=W2)
    unit("add/int", "Frame.__add__", lambda ctx: (sym_frame(ctx, wmax=half), ctx.int("o")), use=["Frame.__init__"], width=W2)
    unit("pack", "Frame.pack", lambda ctx: (sym_frame(ctx),), use=["Frame.__len__"])
    unit("as_byte_sequence", "Frame.as_byte_sequence", lambda ctx: (sym_frame(ctx),), use=["Frame.pack"])
    unit("pack_len/int", "Frame.pack_len", lambda ctx: (sym_frame(ctx), ctx.int("l", None, wmax // 8 + 2)))
    for tag in ("none", "str", "float"):
        unit("pack_len/" + tag, "Frame.pack_len", lambda ctx, tag=tag: (sym_frame(ctx), mk(tag)))
    unit("str/Frame", "Frame.__str__", lambda ctx: (sym_frame(ctx),), use=["Frame.__len__", "Frame.as_byte_sequence"])
    unit("str/BackwardFrame", "BackwardFrame.__str__", lambda ctx: (sym_frame(ctx, cls=F.BackwardFrame, wmax=8),))

    # ---------------------------------------------------------------- property-level lemmas over the contracts
    ALL = [K + n for n in ("Frame.__init__", "Frame.__len__", "Frame.__eq__", "Frame.__getitem__",
                           "Frame.__setitem__", "Frame._readslice", "Frame.pack", "Frame.as_byte_sequence",
                           "Frame.pack_len", "Frame.as_integer", "Frame.__add__", "Frame.__contains__")]

    def lemma(name, fn, width=W1):
        U.append(Unit("C05/lemma/" + name, "C05", None, None, use=ALL, width=width, kind="lemma", lemma=fn,
                      timeout_ms=tmo))

    def l_slice_write_is_bitwise(ctx, interp):
        """list-of-bits model: after f[a:b] = v, bit i is bit (i-lo) of v inside the slice, unchanged outside"""
        f = sym_frame(ctx)
        a, b, v, i = ctx.int("a"), ctx.int("b"), ctx.int("v"), ctx.int("i", 0)
        ctx.assume(i < f._bits)
        hi, lo = ite(a > b, a, b), ite(a > b, b, a)
        ctx.assume(And(lo >= 0, hi < f._bits, v >= 0, v < pow2(hi - lo + 1)))
        old_i = f[i]
        f[a:b] = v
        inside = And(i >= lo, i <= hi)
        ctx.prove("bit-inside", Implies(inside, f[i] == bit(v, ite(inside, i - lo, 0))))
        ctx.prove("bit-outside", Implies(Not(inside), f[i] == old_i))
        ctx.prove("read-back", f[a:b] == v)
        ctx.prove("read-back-swapped", f[b:a] == v)
        ctx.prove("wf", wf(f))

    def l_bit_write_is_bitwise(ctx, interp):
        f = sym_frame(ctx)
        k, i, v = ctx.int("k", 0), ctx.int("i", 0), ctx.bool("v")
        ctx.assume(And(k < f._bits, i < f._bits))
        old_i = f[i]
        f[k] = v
        ctx.prove("bit-written", Implies(i == k, f[i] == v))
        ctx.prove("bit-others", Implies(i != k, f[i] == old_i))
        ctx.prove("wf", wf(f))

    def l_slice_read_is_bitwise(ctx, interp):
        f = sym_frame(ctx)
        a, b, j = ctx.int("a", 0), ctx.int("b", 0), ctx.int("j", 0)
        ctx.assume(And(a < f._bits, b < f._bits))
        hi, lo = ite(a > b, a, b), ite(a > b, b, a)
        ctx.assume(j <= hi - lo)
        r = f[a:b]
        ctx.prove("bit-j", bit(r, j) == f[lo + j])
        ctx.prove("range", And(r >= 0, r < pow2(hi - lo + 1)))

    def l_views_reconstruct(ctx, interp):
        f = sym_frame(ctx)
        n = len_(interp, f)
        g1 = interp.call(F.Frame, (n, f.pack), {})
        ctx.prove("from-pack", interp.truth(interp.eq(g1, f)))
        g2 = interp.call(F.Frame, (n, tuple(f.as_byte_sequence)), {})
        ctx.prove("from-byte-sequence", interp.truth(interp.eq(g2, f)))
        g3 = interp.call(F.Frame, (n, f.as_integer), {})
        ctx.prove("from-integer", interp.truth(interp.eq(g3, f)))
        ctx.prove("as-integer-range", And(f.as_integer >= 0, f.as_integer < pow2(n)))

    def l_pack_len(ctx, interp):
        f = sym_frame(ctx)
        l = ctx.int("l", 0, wmax // 8 + 2)
        ctx.assume(f._data < pow2(8 * l))
        p = interp.call(interp.get_attr(f, "pack_len"), (l,), {})
        g = interp.call(F.Frame, (f._bits, p), {})
        ctx.prove("from-pack_len", interp.truth(interp.eq(g, f)))

    def l_add(ctx, interp):
        a, b = sym_frame(ctx, "a", wmax=half), sym_frame(ctx, "b", wmax=half)
        i = ctx.int("i", 0)
        c = interp.binop(__import__("ast").Add, a, b)
        ctx.assume(i < a._bits + b._bits)
        ctx.prove("width", len_(interp, c) == a._bits + b._bits)
        ctx.prove("low-bits", Implies(i < b._bits, c[i] == b[ite(i < b._bits, i, 0)]))
        ctx.prove("high-bits", Implies(i >= b._bits, c[i] == a[ite(i >= b._bits, i - b._bits, 0)]))
        ctx.prove("operands-unchanged", And(wf(a), wf(b)))

    def l_eq(ctx, interp):
        a, b = sym_frame(ctx, "a"), sym_frame(ctx, "b")
        i = ctx.int("i", 0)
        e = interp.truth(interp.eq(a, b))
        ctx.prove("eq-iff-same-width-and-bits", e == And(a._bits == b._bits, a._data == b._data))
        ctx.assume(i < a._bits)
        ctx.prove("eq-implies-same-bit", Implies(e, a[i] == b[ite(i < b._bits, i, 0)]))

    def l_contains(ctx, interp):
        f = sym_frame(ctx)
        i = ctx.int("i", 0)
        ctx.assume(i < f._bits)
        ctx.prove("bit-set-implies-contains-true", Implies(f[i], interp.truth(interp.contains(f, True))))
        ctx.prove("bit-clear-implies-contains-false", Implies(Not(f[i]), interp.truth(interp.contains(f, False))))

    lemma("slice-write-bitwise", l_slice_write_is_bitwise)
    lemma("bit-write-bitwise", l_bit_write_is_bitwise)
    lemma("slice-read-bitwise", l_slice_read_is_bitwise)
    lemma("views-reconstruct", l_views_reconstruct)
    lemma("pack_len-reconstructs", l_pack_len)
    lemma("add-bitwise", l_add, width=W2)
    lemma("eq", l_eq)
    lemma("contains", l_contains)
    return U


def len_(interp, f):
    from pyvc import models
    return models.b_len(interp, f)


META = {
    "level": "proof",
    "bounds": {"frame_width": "1..64 (quick) / 1..256 (thorough), symbolic",
               "integers": "arguments range over [-2^(W-2), 2^(W-2)), W = width+8 (single frame) or 2*width+8 (concatenation)",
               "byte-string constructor data": "lengths 0..width/8+1 enumerated, bytes symbolic",
               "wrong-type operands": "None, str, float, bytes, tuple, list, object()"},
    "assumptions": [
        "Python ints are modelled as W-bit two's-complement vectors; every + - * << carries a no-overflow obligation "
        "(C05/*/no-overflow) that is discharged, so on the stated input domain the model and Python agree",
        "'any sequence of operations' is covered by induction: every mutator is proved to preserve the representation "
        "invariant wf (1 <= bits, 0 <= data < 2^bits) from any wf state, and observers are proved from any wf state",
        "frames wider than the bound, and integer arguments beyond 2^(W-2), are not covered",
        "__str__ is proved total (returns a str), its text is not specified",
    ],
    "undecided_clauses": ["frame widths above the stated bound"],
    "trusted_base": ["contracts/frame.py (specification functions written from the property statement)"],
}
