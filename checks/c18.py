"""C18 - Bytes exchanged with each gateway follow that gateway's wire format."""
import logging
import time
from pyvc.engine import Unit
from pyvc.spec import And, Or, Not, ite, Implies, is_instance, type_of, throw
from pyvc.path import RaiseEx, PathEnd
from pyvc.values import SBytes, values_equal, mk_bytes
from pyvc.models import AssocDict
from pyvc.aio import World, install, MEvent, MLock, MSemaphore, MQueue, MTransport
from pyvc.loops import LoopSpec
from pyvc import sym
from dali import frame as F, command as C
from dali.exceptions import UnsupportedFrameTypeError, CommunicationError
from dali.driver import hid as HID, serial as SER, daliserver as DS, tridonic as LT, hasseb as LH, unipi as LU, atxled as ATX
from dali.gear import general as G
import contracts.frame as CF
from specs import gateways as GW
from checks.c01 import USE
from checks.drv_common import SAMPLE_16, SAMPLE_24, SeqSource, mk_command, bytes_equal, FLAG_VARIANTS, abstract_command

FU = [u for u in USE if u.startswith("dali.frame:")]


def sym_bytes(ctx, n, p="x"):
    items = [ctx.int("%s%d" % (p, i), 0, 255) for i in range(n)]
    return bytes(items) if ctx.native else SBytes(items)


_building_for_c16 = False


def units(tier):
    CF.WMAX = 64
    U = []

    def unit(name, runner, use=FU, loops=None, **kw):
        U.append(Unit("C18/" + name, "C18", None, None, use=use, width=72, kind="custom", runner=runner,
                      loops=loops or {}, max_paths=100000, **kw))

    # ------------------------------------------------------------ Tridonic HID: template, mode code, sequence numbers
    def r_cmd(ctx, interp, fn):
        a = [ctx.int(n, 0, 255) for n in ("cmd", "serial", "ctrl", "mode", "dtr0", "prio", "devtype")]
        fr = sym_bytes(ctx, 4, "fr")
        out = interp.call(HID.tridonic._cmd, (a[0], a[1]), {"ctrl": a[2], "mode": a[3], "frame": fr, "dtr0": a[4],
                                                             "prio": a[5], "devtype": a[6]})
        ctx.cover()
        want = [a[0], a[1], a[2], a[3]] + list(fr) + [a[4], a[5], a[6]] + [0] * 53
        ctx.prove("64-byte-report-layout", bytes_equal(out, want))
    unit("tridonic-hid/_cmd", r_cmd)

    def r_mode(ctx, interp, fn):
        bits = ctx.int("bits", 1, 64)
        fr = ctx.new(F.ForwardFrame, _bits=bits, _data=0, _error=False)
        try:
            m = interp.call(HID.tridonic._command_mode, (fr,), {})
        except RaiseEx as e:
            ctx.cover()
            ctx.prove("other-lengths-refused", And(issubclass(e.cls, UnsupportedFrameTypeError),
                                                   Not(Or(bits == 8, bits == 16, bits == 24))))
            return
        ctx.cover()
        ctx.prove("mode-code", Or(And(bits == 8, m == 2), And(bits == 16, m == 3), And(bits == 24, m == 6)))
    unit("tridonic-hid/_command_mode", r_mode)

    # sequence-number generator: every value in 1..255, never the same value twice in a row
    seqstate = {}

    def seq_inv(lc):
        i = lc.get("counter")
        conds = [i >= 1, i <= 255]
        if lc.phase == "keep":
            em = seqstate["emitted"]
            conds.append(len(em) == 1)
            if len(em) == 1:
                conds.append(And(em[0] >= 1, em[0] <= 255))
                conds.append(em[0] != i)          # the next value differs from the one just issued
                conds.append(i == ite(em[0] == 255, 1, em[0] + 1))
        return And(conds)

    def seq_havoc(lc):
        lc.set("counter", lc.ctx.fresh_int("i", None, None))
        seqstate["emitted"] = []

    def r_seqnum(ctx, interp, fn):
        seqstate["emitted"] = []
        start = ctx.int("start", 1, 255)
        old = interp.yield_handler
        interp.yield_handler = lambda v, g=None: seqstate["emitted"].append(v)
        try:
            interp.call_repo_function(HID.tridonic._seqnum, (start,), {}, force_body=True)
        finally:
            interp.yield_handler = old
        ctx.fail("generator-never-ends", detail="the sequence-number generator returned")
    unit("tridonic-hid/_seqnum", r_seqnum,
         loops={("dali.driver.hid:tridonic._seqnum", 0): LoopSpec("seq", seq_inv, seq_havoc, variant=None,
                                                                          roles={"counter": ("i", lambda v: True)})})

    # ------------------------------------------------------------ Tridonic HID: bytes written by _send_raw
    for cls, bits in [(c, 16) for c in SAMPLE_16] + [(c, 24) for c in SAMPLE_24]:
        def r_tsend(ctx, interp, fn, cls=cls, bits=bits):
            world = World(ctx, interp)
            install(interp, world)
            cmd, fr = mk_command(ctx, cls, bits)
            seq = ctx.int("seq", 1, 255)
            drv = ctx.new(HID.tridonic, _log=logging.getLogger("x"), connected=world.event(True, "connected"),
                          _command_semaphore=world.semaphore(2), _cmd_seq=world.seq_source(seq),
                          _outstanding=world.mapping(), _f=7)
            # after the write the coroutine waits for reports; none come (blocks): only the write is judged here
            out = world.run(HID.tridonic._send_raw, drv, cmd)
            if out[0] == "raise":
                ctx.fail("send-raises:%s" % out[1].__name__, detail="at %s" % out[3])
                return
            ctx.cover()
            ctx.prove("exactly-one-report-written", len(world.writes) == 1 and world.writes[0][0] == 7)
            if len(world.writes) == 1:
                ctx.prove("report-follows-the-tridonic-format",
                          bytes_equal(world.writes[0][1], GW.tridonic_send_report(seq, bits, fr._data, bool(cls.sendtwice))),
                          detail="%s" % cls.__name__)
        unit("tridonic-hid/_send_raw/%s" % cls.__name__, r_tsend)

    def r_tsend_badlen(ctx, interp, fn):
        world = World(ctx, interp)
        install(interp, world)
        bits = ctx.int("bits", 1, 64)
        ctx.assume(And(bits != 16, bits != 24))
        fr = ctx.new(F.ForwardFrame, _bits=bits, _data=0, _error=False)
        cmd = ctx.new(C.Command, _data=fr)
        drv = ctx.new(HID.tridonic, _log=logging.getLogger("x"), connected=world.event(True, "connected"),
                      _command_semaphore=world.semaphore(2), _cmd_seq=world.seq_source(1), _outstanding=world.mapping(), _f=7)
        out = world.run(HID.tridonic._send_raw, drv, cmd)
        ctx.cover()
        ctx.prove("unsupported-length-refused", out[0] == "raise" and issubclass(out[1], UnsupportedFrameTypeError),
                  detail="outcome %r" % (out[:2],))
        ctx.prove("nothing-written", len(world.writes) == 0)
    unit("tridonic-hid/_send_raw/unsupported-length", r_tsend_badlen)

    # ------------------------------------------------------------ hasseb HID
    for cls in SAMPLE_16:
        def r_hsend(ctx, interp, fn, cls=cls):
            world = World(ctx, interp)
            install(interp, world)
            cmd, fr = mk_command(ctx, cls, 16)
            drv = ctx.new(HID.hasseb, _log=logging.getLogger("x"), connected=world.event(True, "connected"),
                          _command_lock=world.lock("command"), _response_available=world.event(False, "response"),
                          _response=None, _f=7, bus_traffic=ctx.new(HID._callback, _parent=None, _callbacks={}))
            out = world.run(HID.hasseb._send_raw, drv, cmd)
            if out[0] == "raise":
                ctx.fail("send-raises:%s" % out[1].__name__, detail="at %s" % out[3])
                return
            ctx.cover()
            want = GW.hasseb_hid_writes(fr._data, bool(cls.sendtwice))
            ctx.prove("frame-written-once-or-twice", len(world.writes) == len(want))
            if len(world.writes) == len(want):
                ctx.prove("two-bytes-big-endian", And([bytes_equal(w[1], x) for w, x in zip(world.writes, want)]))
        unit("hasseb-hid/_send_raw/%s" % cls.__name__, r_hsend)

    def r_hsend24(ctx, interp, fn):
        world = World(ctx, interp)
        install(interp, world)
        bits = ctx.int("bits", 1, 64)
        ctx.assume(bits != 16)
        fr = ctx.new(F.ForwardFrame, _bits=bits, _data=0, _error=False)
        cmd = ctx.new(C.Command, _data=fr)
        drv = ctx.new(HID.hasseb, _log=logging.getLogger("x"), connected=world.event(True, "connected"),
                      _command_lock=world.lock("command"), _response_available=world.event(False, "response"),
                      _response=None, _f=7)
        out = world.run(HID.hasseb._send_raw, drv, cmd)
        ctx.cover()
        ctx.prove("unsupported-length-refused", out[0] == "raise" and issubclass(out[1], UnsupportedFrameTypeError),
                  detail="outcome %r" % (out[:2],))
        ctx.prove("nothing-written", len(world.writes) == 0)
    unit("hasseb-hid/_send_raw/unsupported-length", r_hsend24)
    more_units(unit, tier)
    return U


# ----------------------------------------------------------------------------- serial gateways, daliserver, legacy drivers
from dali import address as A                         # noqa: E402
from dali.device import general as D                  # noqa: E402
from pyvc.spec import new_object                      # noqa: E402

LUBA = SER.DriverLubaRs232.LubaProtocol
SCI = SER.DriverSCIRS232.SCIRS232Protocol


class SockModel:
    """socket seen by DaliServer.send: records what is sent, answers each request with 4 arbitrary bytes"""

    def __init__(self, ctx):
        self.ctx = ctx
        self.sent = []
        self.replies = []
        self.closed = False
        self.reads_ahead = 0        # recv() calls made when every request so far had already been answered and read

    def send(self, data):
        self.sent.append(data)
        return len(data)

    def recv(self, n):
        k = len(self.replies)
        if k >= len(self.sent):
            self.reads_ahead += 1   # daliserver sends exactly one 4-byte reply per request: this read would block
        r = [self.ctx.int("reply%d_%d" % (k, i), 0, 255) for i in range(4)]
        self.replies.append(r)
        return bytes(r) if self.ctx.native else SBytes(r)

    def close(self):
        self.closed = True


def real_commands(ctx, interp):
    """a few fully constructed commands (real constructors) with symbolic arguments"""
    a = ctx.new(A.GearShort, address=ctx.int("dnum", 0, 63))
    return {
        "DAPC": lambda: interp.call(G.DAPC, (a, ctx.int("power", 0, 255)), {}),
        "Off": lambda: interp.call(G.Off, (a,), {}),
        "Reset": lambda: interp.call(G.Reset, (a,), {}),
        "QueryActualLevel": lambda: interp.call(G.QueryActualLevel, (a,), {}),
        "QueryControlGearPresent": lambda: interp.call(G.QueryControlGearPresent, (a,), {}),
        "GoToScene": lambda: interp.call(G.GoToScene, (a, ctx.int("param", 0, 15)), {}),
        "DTR0": lambda: interp.call(G.DTR0, (ctx.int("param8", 0, 255),), {}),
        "Initialise": lambda: interp.call(G.Initialise, (), {"broadcast": True}),
    }


REAL_NAMES = ["DAPC", "Off", "Reset", "QueryActualLevel", "QueryControlGearPresent", "GoToScene", "DTR0", "Initialise"]


def frame_of(interp, cmd):
    fr = interp.get_attr(cmd, "frame")
    return fr, interp.get_attr(fr, "as_integer")


def more_units(unit, tier):
    CUSE = USE
    # ------------------------------------------------------------ LUBA
    for vname, twice, rc in FLAG_VARIANTS:
      for bits, prior in [(b, p) for b in (16, 24) for p in (None, 16, 24)]:
        class cls:      # what the unit needs to know about the command
            sendtwice = twice
            __name__ = "%s-%d" % (vname, bits)

        def r_luba(ctx, interp, fn, cls=cls, bits=bits, twice=twice, rc=rc, prior=prior):
            world = World(ctx, interp)
            install(interp, world)
            cmd, fr = abstract_command(ctx, bits, twice, rc)

            def confirmations(q):
                q.items.append(LUBA.LubaMsgTxConf(tx_id=ctx.fresh_int("txid", 0, 255), message=None))
            proto = ctx.new(LUBA, rx_idle=world.event(True, "rx_idle"), _tx_lock=world.lock("tx"),
                            transport=world.transport(), _queue_tx_conf=world.queue("tx_conf", provider=confirmations))
            if prior:
                # the packet of a command depends on that command only: whatever was sent before on this connection
                cmd0, _ = abstract_command(ctx, prior, ctx.bool("prior_twice"), None, p="g")
                world.run(LUBA.send_dali_command, proto, cmd0)
                del world.writes[:]
            out = world.run(LUBA.send_dali_command, proto, cmd)
            ctx.cover()
            ctx.prove("exactly-one-frame-written", len(world.writes) == 1)
            if len(world.writes) == 1:
                data = list(world.writes[0][1])
                ctx.prove("eleven-bytes", len(data) == 11)
                if len(data) == 11:
                    prio = data[5] & 0x7F
                    ctx.prove("priority-in-the-protocols-range", And(prio >= 1, prio <= 5))
                    ctx.prove("frame-follows-the-luba-format",
                              bytes_equal(data, GW.luba_add_dali_frame(bits, fr._data, bool(cls.sendtwice), prio)),
                              detail=cls.__name__)
        unit("luba/send_dali_command/%s-%d%s" % (vname, bits, "/after-a-%d-bit-send" % prior if prior else ""), r_luba, use=CUSE)

    for name in ("DAPC", "Off", "Reset", "QueryActualLevel"):
        def r_luba_real(ctx, interp, fn, name=name):
            world = World(ctx, interp)
            install(interp, world)
            cmd = real_commands(ctx, interp)[name]()
            fr, data = frame_of(interp, cmd)

            def confirmations(q):
                q.items.append(LUBA.LubaMsgTxConf(tx_id=ctx.fresh_int("txid", 0, 255), message=None))
            proto = ctx.new(LUBA, rx_idle=world.event(True, "rx_idle"), _tx_lock=world.lock("tx"),
                            transport=world.transport(), _queue_tx_conf=world.queue("tx_conf", provider=confirmations))
            world.run(LUBA.send_dali_command, proto, cmd)
            ctx.cover()
            ctx.prove("exactly-one-frame-written", len(world.writes) == 1)
            if len(world.writes) == 1:
                d = list(world.writes[0][1])
                prio = d[5] & 0x7F
                ctx.prove("priority-in-the-protocols-range", And(prio >= 1, prio <= 5))
                ctx.prove("frame-follows-the-luba-format",
                          bytes_equal(d, GW.luba_add_dali_frame(16, data, bool(type_of(cmd).sendtwice), prio)))
        unit("luba/send_dali_command/real-%s" % name, r_luba_real, use=CUSE)

    def r_luba_bad(ctx, interp, fn):
        world = World(ctx, interp)
        install(interp, world)
        bits = ctx.choose_int(ctx.int("bits", 1, 40), "frame length")
        if bits in (16, 24):
            return
        fr = ctx.new(F.ForwardFrame, _bits=bits, _data=0, _error=False)
        cmd = ctx.new(C.Command, _data=fr)
        proto = ctx.new(LUBA, rx_idle=world.event(True, "rx_idle"), _tx_lock=world.lock("tx"),
                        transport=world.transport(), _queue_tx_conf=world.queue("tx_conf"))
        out = world.run(LUBA.send_dali_command, proto, cmd)
        ctx.cover()
        # the packet announces 8 * (number of bytes) bits: only whole 16- and 24-bit frames are carried faithfully
        ctx.prove("uncarriable-length-refused", out[0] == "raise",
                  detail="a %d-bit frame was accepted and would go out as a %d-bit one" % (bits, 8 * ((bits + 7) // 8)))
        ctx.prove("nothing-written", len(world.writes) == 0)
    unit("luba/send_dali_command/unsupported-length", r_luba_bad, use=CUSE)

    def r_sci_bad(ctx, interp, fn):
        world = World(ctx, interp)
        install(interp, world)
        bits = ctx.choose_int(ctx.int("bits", 1, 40), "frame length")
        if bits in (8, 16, 24):
            return
        fr = ctx.new(F.ForwardFrame, _bits=bits, _data=0, _error=False)
        cmd = ctx.new(C.Command, _data=fr)
        proto = ctx.new(SCI, rx_idle=world.event(True, "rx_idle"), _tx_lock=world.lock("tx"), transport=world.transport(),
                        _queue_rx_info=world.queue("info"),
                        _device_settings=SER.DriverSCIRS232.SCIRS232DeviceSettings(True, False, True))
        out = world.run(SCI.send_dali_command, proto, cmd)
        ctx.cover()
        ctx.prove("uncarriable-length-refused", out[0] == "raise",
                  detail="a %d-bit frame was accepted and would go out as a %d-bit one" % (bits, 8 * ((bits + 7) // 8)))
        ctx.prove("nothing-written", len(world.writes) == 0)
    unit("sci/send_dali_command/unsupported-length", r_sci_bad, use=CUSE)

    def r_luba_checksum(ctx, interp, fn):
        n = ctx.choose_int(ctx.int("n", 3, 12), "length")
        items = [ctx.int("b%d" % i, 0, 255) for i in range(n - 1)] + [None]
        lst = interp.fresh(list(items)) if not ctx.native else list(items)
        interp.call(LUBA._insert_checksum, (lst,), {})
        ctx.cover()
        ctx.prove("checksum-is-xor-of-command-length-payload", lst[-1] == GW.xor_all(items[1:-1]))
        ctx.prove("other-bytes-untouched", And([lst[i] == items[i] for i in range(n - 1)]))
    unit("luba/_insert_checksum", r_luba_checksum, use=CUSE)

    # ------------------------------------------------------------ SCI
    for vname, twice, rc in FLAG_VARIANTS:
      for bits, prior in [(b, p) for b in (16, 24) for p in (None, 16, 24)]:
        class cls:
            sendtwice = twice

        def r_sci(ctx, interp, fn, cls=cls, bits=bits, twice=twice, rc=rc, prior=prior):
            world = World(ctx, interp)
            install(interp, world)
            cmd, fr = abstract_command(ctx, bits, twice, rc)
            me, ident, echo = ctx.bool("monitor"), ctx.bool("identify"), ctx.bool("echo")
            settings = SER.DriverSCIRS232.SCIRS232DeviceSettings(monitor_enable=me, identify=ident, echo=echo)

            def confirmations(q):
                q.items.append(SER.DriverSCIRS232.SCIRS232DeviceReply(id=ctx.fresh_int("id", 0, 15), code=0))
            proto = ctx.new(SCI, rx_idle=world.event(True, "rx_idle"), _tx_lock=world.lock("tx"), transport=world.transport(),
                            _queue_rx_info=world.queue("info", provider=confirmations), _device_settings=settings)
            if prior:
                cmd0, _ = abstract_command(ctx, prior, ctx.bool("prior_twice"), None, p="g")
                world.run(SCI.send_dali_command, proto, cmd0)
                del world.writes[:]
            out = world.run(SCI.send_dali_command, proto, cmd)
            ctx.cover()
            ctx.prove("exactly-one-frame-written", len(world.writes) == 1)
            if len(world.writes) == 1:
                data = list(world.writes[0][1])
                ctx.prove("five-bytes", len(data) == 5)
                if len(data) == 5:
                    control = ite(me, 0x80, 0) | ite(ident, 0x40, 0) | ite(echo, 0x20, 0) | (0x10 if cls.sendtwice else 0) \
                        | GW.SCI_MODE[bits]
                    ctx.prove("control-byte", data[0] == control)
                    ctx.prove("checksum-is-xor-of-the-first-four", data[4] == GW.xor_all(data[:4]))
                    fb = GW.be_bytes(fr._data, bits // 8)
                    left = fb + [0] * (3 - len(fb))
                    right = [0] * (3 - len(fb)) + fb
                    # alignment of a 16-bit frame inside the three data bytes could not be confirmed offline
                    ctx.prove("data-bytes-carry-the-frame-in-order",
                              Or(And([data[1 + i] == left[i] for i in range(3)]), And([data[1 + i] == right[i] for i in range(3)])))
        unit("sci/send_dali_command/%s-%d%s" % (vname, bits, "/after-a-%d-bit-send" % prior if prior else ""), r_sci, use=CUSE)

    def r_sci_checksum(ctx, interp, fn):
        items = [ctx.int("b%d" % i, 0, 255) for i in range(4)] + [None]
        lst = interp.fresh(list(items)) if not ctx.native else list(items)
        interp.call(SCI._insert_checksum, (lst,), {})
        ctx.cover()
        ctx.prove("checksum-is-xor-of-the-first-four", lst[-1] == GW.xor_all(items[:4]))
    unit("sci/_insert_checksum", r_sci_checksum, use=CUSE)

    # ------------------------------------------------------------ serial gateways: what a reported backward frame / silence
    # decodes to in send() (shared with C16)
    if not _building_for_c16:
        import checks.c16 as C16
        C16._building_for_c18 = True
        try:
            for u16 in C16.units(tier):
                if u16.name.startswith(("C16/tridonic/_send_raw/", "C16/hasseb/_send_raw/", "C16/tridonic/_handle_read-routing")):
                    unit("receive/" + u16.name[len("C16/"):], u16.runner, use=u16.use)
        finally:
            C16._building_for_c18 = False
    from checks.c16 import serial_send_units
    for su in serial_send_units("C18"):
        if "/stale=0" in su.name:
            unit(su.name[len("C18/"):], su.runner, use=su.use)

    # ------------------------------------------------------------ daliserver
    for name in REAL_NAMES:
        def r_ds(ctx, interp, fn, name=name):
            cmd = real_commands(ctx, interp)[name]()
            fr, data = frame_of(interp, cmd)
            sock = SockModel(ctx)
            srv = ctx.new(DS.DaliServer, _s=sock, _target=("localhost", 1), _multiple_frames_per_connection=True)
            try:
                r = interp.call(interp.get_attr(srv, "send"), (cmd,), {})
                out = ("return", r)
            except RaiseEx as e:
                out = ("raise", e.cls, e.value, e.where)
            ctx.cover()
            twice = bool(type_of(cmd).sendtwice)
            ctx.prove("one-request-per-transmission", len(sock.sent) == (2 if twice else 1))
            ctx.prove("request-follows-the-daliserver-format",
                      And([bytes_equal(m, GW.daliserver_request(data)) for m in sock.sent]) if sock.sent else False)
            if not sock.replies:
                return
            ver, status, rval, pad = sock.replies[-1]
            rc = type_of(cmd).response
            if rc is None:
                ctx.prove("no-answer-expected-gives-none", out[0] == "return" and out[1] is None)
            elif interp.test(status == 0):
                ctx.prove("status-0-is-no-answer", out[0] == "return" and out[1] is not None and type_of(out[1]) is rc
                          and interp.get_attr(out[1], "raw_value") is None)
            elif interp.test(status == 1):
                ok = out[0] == "return" and out[1] is not None and type_of(out[1]) is rc
                ctx.prove("status-1-is-a-backward-frame", ok)
                if ok:
                    raw = interp.get_attr(out[1], "raw_value")
                    ctx.prove("backward-frame-carries-the-value", raw is not None and type_of(raw) is F.BackwardFrame
                              and interp.truth(interp.eq(interp.get_attr(raw, "as_integer"), rval)))
            elif interp.test(status == 255):
                ok = out[0] == "return" and out[1] is not None and type_of(out[1]) is rc
                ctx.prove("status-255-is-a-framing-error", ok and is_instance(interp.get_attr(out[1], "raw_value"), F.BackwardFrameError))
            else:
                ctx.prove("other-status-is-a-communication-error", out[0] == "raise" and issubclass(out[1], CommunicationError))
        unit("daliserver/send/%s" % name, r_ds, use=CUSE)

    def r_ds24(ctx, interp, fn):
        a = ctx.new(A.DeviceShort, address=ctx.int("dnum", 0, 63))
        cmd = interp.call(D.QueryDeviceStatus, (a,), {})
        sock = SockModel(ctx)
        srv = ctx.new(DS.DaliServer, _s=sock, _target=("localhost", 1), _multiple_frames_per_connection=True)
        try:
            interp.call(interp.get_attr(srv, "send"), (cmd,), {})
            out = ("return",)
        except RaiseEx as e:
            out = ("raise", e.cls)
        ctx.cover()
        ctx.prove("24-bit-command-refused", out[0] == "raise", detail="daliserver carries 16-bit frames only")
        ctx.prove("nothing-sent", len(sock.sent) == 0)
    unit("daliserver/send/24-bit-command", r_ds24, use=CUSE)


    # ------------------------------------------------------------ frames of EVERY length the gateway cannot carry are refused
    def refusal_unit(name, supported, send):
        def r_refuse(ctx, interp, fn):
            bits = ctx.int("bits", 1, 64)
            ctx.assume(And([bits != b for b in supported]))
            fr = ctx.new(F.ForwardFrame, _bits=bits, _data=ctx.int("fdata", 0, (1 << 64) - 1), _error=False)
            ctx.assume(fr._data < (1 << bits) if isinstance(bits, int) else True)
            cmd = ctx.new(C.Command, _data=fr, sendtwice=False, response=None, devicetype=0)
            raised, sent = send(ctx, interp, cmd)
            ctx.cover()
            ctx.prove("every-uncarriable-length-refused", raised,
                      detail="a %s-bit frame was accepted (supported: %r)" % (bits, supported))
            ctx.prove("nothing-sent", sent == 0)
        unit(name, r_refuse, use=CUSE)

    def send_ds(ctx, interp, cmd):
        sock = SockModel(ctx)
        srv = ctx.new(DS.DaliServer, _s=sock, _target=("localhost", 1), _multiple_frames_per_connection=True)
        try:
            interp.call(interp.get_attr(srv, "send"), (cmd,), {})
            return False, len(sock.sent)
        except RaiseEx:
            return True, len(sock.sent)
    refusal_unit("daliserver/send/any-other-length", (16,), send_ds)

    def construct_of(drv_builder):
        def send(ctx, interp, cmd):
            drv = drv_builder(ctx)
            try:
                interp.call(interp.get_attr(drv, "construct"), (cmd,), {})
                return False, 0
            except RaiseEx:
                return True, 0
        return send
    refusal_unit("legacy-tridonic/construct/any-other-length", (16,),
                 construct_of(lambda ctx: ctx.new(LT.TridonicDALIUSBDriver, _next_sn=1)))
    refusal_unit("legacy-hasseb/construct/any-other-length", (16,),
                 construct_of(lambda ctx: ctx.new(LH.HassebDALIUSBDriver, sn=0, logger=logging.getLogger("x"))))
    refusal_unit("unipi/construct/any-other-length", (16, 24),
                 construct_of(lambda ctx: ctx.new(LU.UnipiDALIDriver, _next_sn=0)))

    # ------------------------------------------------------------ legacy Tridonic USB driver
    for name in REAL_NAMES:
        def r_lt(ctx, interp, fn, name=name):
            cmd = real_commands(ctx, interp)[name]()
            fr, data = frame_of(interp, cmd)
            sn0 = ctx.int("next_sn", 1, 255)
            drv = ctx.new(LT.TridonicDALIUSBDriver, _next_sn=sn0)
            pkt = interp.call(interp.get_attr(drv, "construct"), (cmd,), {})
            ctx.cover()
            ctx.prove("packet-follows-the-format", bytes_equal(pkt, GW.legacy_tridonic_packet(sn0, data)))
        unit("legacy-tridonic/construct/%s" % name, r_lt, use=CUSE)

    def r_lt_sn(ctx, interp, fn):
        s0 = ctx.int("next_sn", 1, 256)
        drv = ctx.new(LT.TridonicDALIUSBDriver, _next_sn=s0)
        a = interp.call(interp.get_attr(drv, "_get_sn"), (), {})
        b = interp.call(interp.get_attr(drv, "_get_sn"), (), {})
        ctx.cover()
        ctx.prove("sequence-number-in-range", And(a >= 1, a <= 255, b >= 1, b <= 255))
        ctx.prove("no-immediate-repetition", a != b, detail="two consecutive sends carry the same sequence number")
        ctx.prove("state-stays-in-range", And(drv._next_sn >= 1, drv._next_sn <= 256))
    unit("legacy-tridonic/_get_sn", r_lt_sn, use=CUSE)

    def r_lt_24(ctx, interp, fn):
        a = ctx.new(A.DeviceShort, address=ctx.int("dnum", 0, 63))
        cmd = interp.call(D.QueryDeviceStatus, (a,), {})
        drv = ctx.new(LT.TridonicDALIUSBDriver, _next_sn=1)
        try:
            interp.call(interp.get_attr(drv, "construct"), (cmd,), {})
            ok = False
        except RaiseEx as e:
            ok = True
        ctx.cover()
        ctx.prove("24-bit-command-refused", ok)
    unit("legacy-tridonic/construct/24-bit-command", r_lt_24, use=CUSE)

    def r_lt_extract(ctx, interp, fn):
        raw = sym_bytes(ctx, 16, "p")
        drv = ctx.new(LT.TridonicDALIUSBDriver, _next_sn=1)
        r = interp.call(interp.get_attr(drv, "extract"), (raw,), {})
        ctx.cover()
        dr, ty, ad, cm = raw[0], raw[1], raw[4], raw[5]
        if interp.test(And(dr == 0x11, Or(ty == 0x73, ty == 0x74))):
            ok = r is not None and type_of(r) is F.ForwardFrame
            ctx.prove("observed-forward-frame", ok)
            if ok:
                ctx.prove("forward-frame-bits", And(r._bits == 16, r._data == ((ad << 8) | cm)))
        elif interp.test(And(dr == 0x12, ty == 0x72)):
            ok = r is not None and type_of(r) is F.BackwardFrame
            ctx.prove("answer-is-a-backward-frame", ok)
            if ok:
                ctx.prove("backward-frame-value", r._data == cm)
        elif interp.test(And(dr == 0x12, ty == 0x71)):
            ctx.prove("no-answer", r is LT.DALI_USB_NO_RESPONSE)
        else:
            ctx.prove("anything-else-is-ignored", r is None)
    unit("legacy-tridonic/extract", r_lt_extract, use=CUSE)

    # ------------------------------------------------------------ legacy hasseb driver
    for name in REAL_NAMES:
        def r_lh(ctx, interp, fn, name=name):
            cmd = real_commands(ctx, interp)[name]()
            fr, data = frame_of(interp, cmd)
            sn0 = ctx.int("sn", 0, 255)
            drv = ctx.new(LH.HassebDALIUSBDriver, sn=sn0)
            pkt = interp.call(interp.get_attr(drv, "construct"), (cmd,), {})
            ctx.cover()
            sn = ite(sn0 >= 255, 1, sn0 + 1)
            ctx.prove("sequence-number-in-range-and-advancing", And(drv.sn == sn, sn >= 1, sn <= 255, sn != sn0))
            cls = type_of(cmd)
            ctx.prove("packet-follows-the-format",
                      bytes_equal(pkt, GW.legacy_hasseb_packet(sn, data, cls.response is not None, bool(cls.sendtwice))))
        unit("legacy-hasseb/construct/%s" % name, r_lh, use=CUSE)

    def r_lh_extract(ctx, interp, fn):
        raw = sym_bytes(ctx, 10, "p")
        drv = ctx.new(LH.HassebDALIUSBDriver, sn=0, logger=logging.getLogger("x"))
        r = interp.call(interp.get_attr(drv, "extract"), (raw,), {})
        ctx.cover()
        if interp.test(And(raw[1] == 0x07, raw[3] == 2, raw[4] == 1)):
            ok = r is not None and type_of(r) is F.BackwardFrame
            ctx.prove("ok-status-is-a-backward-frame", ok)
            if ok:
                ctx.prove("backward-frame-value", r._data == raw[5])
        elif interp.test(And(raw[1] == 0x07, raw[3] == 3)):
            ctx.prove("invalid-answer-is-a-framing-error", r is not None and type_of(r) is F.BackwardFrameError)
        elif interp.test(And(raw[1] == 0x07, raw[3] == 1)):
            ctx.prove("no-answer", r is not None and type_of(r) is LH.HassebDALIUSBNoAnswer)
        elif interp.test(raw[1] == 0):
            ctx.prove("no-data", r is not None and type_of(r) is LH.HassebDALIUSBNoDataAvailable)
    unit("legacy-hasseb/extract", r_lh_extract, use=CUSE)

    # ------------------------------------------------------------ UniPi
    for name in REAL_NAMES + ["QueryDeviceStatus24", "IdentifyDevice24"]:
        def r_lu(ctx, interp, fn, name=name):
            if name.endswith("24"):
                a = ctx.new(A.DeviceShort, address=ctx.int("dnum", 0, 63))
                cmd = interp.call(getattr(D, name[:-2]), (a,), {})
                bits = 24
            else:
                cmd = real_commands(ctx, interp)[name]()
                bits = 16
            fr, data = frame_of(interp, cmd)
            drv = ctx.new(LU.UnipiDALIDriver, _next_sn=0)
            regs = interp.call(interp.get_attr(drv, "construct"), (cmd,), {})
            ctx.cover()
            want = GW.unipi_registers(bits, data, bool(type_of(cmd).sendtwice))
            ctx.prove("two-registers", isinstance(regs, tuple) and len(regs) == 2)
            if isinstance(regs, tuple) and len(regs) == 2:
                ctx.prove("registers-follow-the-format", And(regs[0] == want[0], regs[1] == want[1]))
        unit("unipi/construct/%s" % name, r_lu, use=CUSE)

    def r_lu_extract(ctx, interp, fn):
        d0, d1 = ctx.int("r0", 0, 0xFFFF), ctx.int("r1", 0, 0xFFFF)
        drv = ctx.new(LU.UnipiDALIDriver, _next_sn=0)
        try:
            r = interp.call(interp.get_attr(drv, "extract"), ((d0, d1),), {})
        except RaiseEx as e:
            ctx.cover()
            ctx.prove("only-a-malformed-backward-value-raises", And(d0 == 0x100, d1 > 255))
            return
        ctx.cover()
        if interp.test(d0 == 0x100):
            ok = r is not None and type_of(r) is F.BackwardFrame
            ctx.prove("backward-frame", ok)
            if ok:
                ctx.prove("backward-frame-value", r._data == d1)
        elif interp.test(d0 == 0x200):
            ok = r is not None and type_of(r) is F.ForwardFrame
            ctx.prove("forward-frame", ok)
            if ok:
                ctx.prove("forward-frame-bits", And(r._bits == 16, r._data == d1))
        else:
            ctx.prove("no-response", r is LU.DALI_NO_RESPONSE)
    unit("unipi/extract", r_lu_extract, use=CUSE)


def extra_checks(tier, seed):
    """BOUNDED stand-in for the ATX LED hat (string formatting is outside the engine): exhaustive enumeration"""
    t0 = time.time()
    bad = []
    n = 0
    drv = ATX.DaliHatSerialDriver.__new__(ATX.DaliHatSerialDriver)
    drv.LOG = logging.getLogger("atx-check")

    class Cmd(C.Command):
        _framesize = -1

        def __init__(self, bits, data, twice):
            super().__init__(F.ForwardFrame(bits, data))
            self.sendtwice = twice
    for twice in (False, True):
        for data in range(1 << 16):
            n += 1
            c = Cmd(16, data, twice)
            got = drv.construct(c)
            if got != GW.atx_line(16, data, twice):
                bad.append("16-bit %04x twice=%s: %r" % (data, twice, got))
                break
    import random
    rnd = random.Random(seed)
    for _ in range(20000):
        data = rnd.randrange(1 << 24)
        twice = rnd.random() < 0.5
        n += 1
        if drv.construct(Cmd(24, data, twice)) != GW.atx_line(24, data, twice):
            bad.append("24-bit %06x" % data)
            break
    for bits in (1, 9, 17, 23, 32):
        n += 1
        try:
            drv.construct(Cmd(bits, 0, False))
            bad.append("frame of %d bits accepted" % bits)
        except Exception:       # noqa: BLE001
            pass
    for v in range(256):
        n += 1
        for text in ("J%02X" % v, "J%02x" % v):
            r = drv.extract(text)
            if not (isinstance(r, F.BackwardFrame) and r.as_integer == v):
                bad.append("answer %r -> %r" % (text, r))
    for text in ("N", "X", "Z", "", "JZZ", "H12"):
        n += 1
        if drv.extract(text) is not None:
            bad.append("line %r decoded" % text)
    return [{"name": "C18/bounded/atx-led-hat-construct-extract", "status": "failed" if bad else "discharged", "cases": n,
             "kind": "bounded-exhaustive", "seconds": time.time() - t0, "detail": "; ".join(bad[:5]),
             "witness": {"problems": bad[:5]}, "replay": {"problems": bad[:5]}}]


# checks whose proof units establish the callee contracts applied here (re-verified by this check, see main.dependency_units)
DEPENDENCIES = ['C04', 'C05']

META = {
    "level": "proof",
    "bounds": {"commands": "sample command classes covering every combination of send-twice / answer kind / device type, "
               "with fully symbolic 16- and 24-bit frames; fully constructed commands (symbolic arguments) for daliserver "
               "and the legacy drivers", "sequence numbers": "generator / counter verified by invariant for every state",
               "ATX LED hat (BOUNDED)": "all 2^16 16-bit frames x send-twice, 20000 random 24-bit frames, all J00..JFF answers"},
    "assumptions": [
        "oracle: specs/gateways.py (vendor protocol documents as cited in the source; trusted)",
        "asyncio / os / transport primitives are used through the assumed contracts of pyvc/aio.py; a driver only reads "
        ".frame, .sendtwice, .response, .is_query, .devicetype of a command, so commands are abstracted to those",
        "SCI RS232: whether a 16-bit frame is left- or right-aligned in the three data bytes could not be confirmed offline; "
        "either alignment is accepted (the library's send and receive paths disagree with each other: see DESIGN.md)",
        "LUBA priority: only the protocol's range 1..5 is checked, the choice of priority is library policy",
        "ATX LED hat: string formatting is outside the engine; decided by bounded exhaustive native execution only",
    ],
    "undecided_clauses": ["SCI RS232 data-byte alignment", "receive-side decoding of the serial gateways is covered by C19/C20"],
    "trusted_base": ["specs/gateways.py", "pyvc/aio.py (assumed contracts of asyncio/os primitives)"],
}
