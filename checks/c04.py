"""C04 - Address and instance bytes: exact, local, mutually exclusive codec."""
from pyvc.engine import Unit
from pyvc.spec import type_of, And, Or, Not, ite, pow2, Implies, new_object
from dali import frame as F, address as A
import contracts.frame as CF
import contracts.address as CA
from contracts.frame import wf
from checks.c05 import sym_frame, NON_INT, mk

K = "dali.address:"
FK = "dali.frame:"
FRAME_USE = [FK + n for n in ("Frame.__len__", "Frame.__getitem__", "Frame.__setitem__", "Frame._readslice",
                              "Frame.__eq__")]
GEAR = [A.GearShort, A.GearGroup, A.GearBroadcast, A.GearBroadcastUnaddressed]
DEVICE = [A.DeviceShort, A.DeviceGroup, A.DeviceBroadcast, A.DeviceBroadcastUnaddressed]
KINDS = GEAR + DEVICE
ADDRESSED_INST = list(CA.INST_FLAGS)
UNADDRESSED_INST = list(CA.INST_VALS)
INST = ADDRESSED_INST + UNADDRESSED_INST + [A.ReservedInstance]


def sym_addr(ctx, cls, p="a"):
    k = CA.ADDR[cls]
    if k["field"] is None:
        return ctx.new(cls)
    return ctx.new(cls, **{k["field"]: ctx.int(p + "num", 0, k["hi"])})


def sym_inst(ctx, cls, p="i"):
    if cls in CA.INST_FLAGS:
        return ctx.new(cls, _value=ctx.int(p + "val", 0, 31))
    if cls is A.ReservedInstance:
        return ctx.new(cls, _value=ctx.int(p + "val", 0, 255))
    return ctx.new(cls)


def addr_contract_keys():
    keys = []
    for cls, k in CA.ADDR.items():
        n = cls.__name__
        keys += [K + n + ".from_frame", K + n + ".add_to_frame", K + n + ".__eq__", K + n + ".__str__"]
        if k["field"] is not None:
            keys.append(K + n + ".__init__")
    return keys


INST_KEYS = [K + n for n in ("_AddressedInstance.add_to_frame", "_UnaddressedInstance.add_to_frame",
                             "ReservedInstance.add_to_frame", "_AddressedInstance.__init__",
                             "_UnaddressedInstance.__init__", "ReservedInstance.__init__", "Instance.__eq__",
                             "instance_from_frame")]


def units(tier):
    CF.WMAX = 64
    U = []

    def unit(name, target, builder, use=(), **kw):
        U.append(Unit("C04/" + name, "C04", K + target, builder, use=list(use), width=72, **kw))

    for cls in KINDS:
        n = cls.__name__
        k = CA.ADDR[cls]
        init = [K + n + ".__init__"] if k["field"] else []
        unit(n + ".from_frame", n + ".from_frame", lambda ctx, cls=cls: (cls, sym_frame(ctx, cls=F.ForwardFrame)),
             use=FRAME_USE + init)
        unit(n + ".add_to_frame", n + ".add_to_frame",
             lambda ctx, cls=cls: (sym_addr(ctx, cls), sym_frame(ctx, cls=F.ForwardFrame)), use=FRAME_USE)
        for oc in KINDS:
            unit("%s.__eq__/%s" % (n, oc.__name__), n + ".__eq__",
                 lambda ctx, cls=cls, oc=oc: (sym_addr(ctx, cls), sym_addr(ctx, oc, "b")))
        for tag in ("none", "str", "obj"):
            unit("%s.__eq__/%s" % (n, tag), n + ".__eq__", lambda ctx, cls=cls, tag=tag: (sym_addr(ctx, cls), mk(tag)))
        unit("%s.__eq__/int" % n, n + ".__eq__", lambda ctx, cls=cls: (sym_addr(ctx, cls), ctx.int("o")))
        unit(n + ".__str__", n + ".__str__", lambda ctx, cls=cls: (sym_addr(ctx, cls),))
        if k["field"]:
            unit(n + ".__init__/int", n + ".__init__", lambda ctx, cls=cls: (ctx.new(cls), ctx.int("n")),
                 state_on_raise=False)
            unit(n + ".__init__/bool", n + ".__init__", lambda ctx, cls=cls: (ctx.new(cls), ctx.bool("bn")),
                 state_on_raise=False)
            for tag in NON_INT:
                unit("%s.__init__/%s" % (n, tag), n + ".__init__", lambda ctx, cls=cls, tag=tag: (ctx.new(cls), mk(tag)),
                     state_on_raise=False)
    AK = addr_contract_keys()
    for cls in (A.Address, A.GearAddress, A.DeviceAddress, A.GearShort):
        unit("Address.from_frame/cls=" + cls.__name__, "Address.from_frame",
             lambda ctx, cls=cls: (cls, sym_frame(ctx, cls=F.ForwardFrame)), use=FRAME_USE + AK)
    unit("Address.add_to_frame", "Address.add_to_frame",
         lambda ctx: (ctx.new(A.Address), sym_frame(ctx, cls=F.ForwardFrame)))
    unit("Address.__str__", "Address.__str__", lambda ctx: (ctx.new(A.Address),))

    # ------------------------------------------------------------ instances
    for cls in INST:
        n = cls.__name__
        base = "_AddressedInstance" if cls in CA.INST_FLAGS else ("_UnaddressedInstance" if cls in CA.INST_VALS else n)
        unit(n + ".add_to_frame", base + ".add_to_frame",
             lambda ctx, cls=cls: (sym_inst(ctx, cls), sym_frame(ctx, cls=F.ForwardFrame)), use=FRAME_USE)
        unit(n + ".__str__", base + ".__str__", lambda ctx, cls=cls: (sym_inst(ctx, cls),))
        unit(n + ".value", "Instance.value", lambda ctx, cls=cls: (sym_inst(ctx, cls),))
        for oc in INST:
            unit("%s.__eq__/%s" % (n, oc.__name__), "Instance.__eq__",
                 lambda ctx, cls=cls, oc=oc: (sym_inst(ctx, cls), sym_inst(ctx, oc, "j")))
        for tag in ("none", "str"):
            unit("%s.__eq__/%s" % (n, tag), "Instance.__eq__", lambda ctx, cls=cls, tag=tag: (sym_inst(ctx, cls), mk(tag)))
        unit("%s.__eq__/int" % n, "Instance.__eq__", lambda ctx, cls=cls: (sym_inst(ctx, cls), ctx.int("o")))
    for cls in ADDRESSED_INST[:1] + [A.InstanceType]:
        n = cls.__name__
        unit(n + ".__init__/int", "_AddressedInstance.__init__", lambda ctx, cls=cls: (ctx.new(cls), ctx.int("n")),
             state_on_raise=False)
        for tag in NON_INT:
            unit("%s.__init__/%s" % (n, tag), "_AddressedInstance.__init__",
                 lambda ctx, cls=cls, tag=tag: (ctx.new(cls), mk(tag)), state_on_raise=False)
    unit("Device.__init__", "_UnaddressedInstance.__init__", lambda ctx: (ctx.new(A.Device),))
    unit("ReservedInstance.__init__", "ReservedInstance.__init__", lambda ctx: (ctx.new(A.ReservedInstance), ctx.int("v")))
    unit("instance_from_frame", "instance_from_frame", lambda ctx: (sym_frame(ctx, cls=F.ForwardFrame),),
         use=FRAME_USE + INST_KEYS[3:6])

    # ------------------------------------------------------------ lemmas over the contracts
    ALL = FRAME_USE + AK + [K + "Address.from_frame"] + INST_KEYS

    def lemma(name, fn):
        U.append(Unit("C04/lemma/" + name, "C04", None, None, use=ALL, width=72, kind="lemma", lemma=fn))

    def fixed_frame(ctx, size, p=""):
        f = ctx.new(F.ForwardFrame, _bits=size, _data=ctx.int(p + "data", 0, (1 << size) - 1), _error=False)
        return f

    for cls in KINDS:
        k = CA.ADDR[cls]

        def l_roundtrip(ctx, interp, cls=cls, k=k):
            f = fixed_frame(ctx, k["size"])
            if k["size"] == 24:
                ctx.assume(((f._data >> 16) & 1) == 1)      # command frames: the selector bit is set
            a = sym_addr(ctx, cls)
            old = f._data
            interp.call(interp.get_attr(a, "add_to_frame"), (f,), {})
            field = 0x7F << k["shift"]
            ctx.prove("only-the-address-field-changes", ((f._data ^ old) & ~field) == 0)
            ctx.prove("width-unchanged", f._bits == k["size"])
            r = interp.call(A.from_frame, (f,), {})
            ctx.prove("reads-back-some-address", r is not None)
            if r is not None:
                ctx.prove("reads-back-same-kind", type_of(r) is cls)
                ctx.prove("reads-back-equal", interp.truth(interp.eq(r, a)))
                ctx.prove("reads-back-equal-reflected", interp.truth(interp.eq(a, r)))
        lemma("roundtrip-local/" + cls.__name__, l_roundtrip)

    def l_partition(size):
        def l(ctx, interp):
            f = fixed_frame(ctx, size)
            hits = []
            for cls in KINDS:
                r = interp.call(interp.get_attr(cls, "from_frame"), (f,), {})
                hits.append((cls, r))
            some = [c for c, r in hits if r is not None]
            ctx.prove("at-most-one-kind", len(some) <= 1)
            top = interp.call(A.from_frame, (f,), {})
            if some:
                ctx.prove("scan-returns-that-kind", top is not None and type_of(top) is some[0])
                ctx.prove("scan-returns-equal-object",
                          top is not None and interp.truth(interp.eq(top, dict(hits)[some[0]])))
            else:
                ctx.prove("scan-returns-none", top is None)
        return l
    lemma("partition/16", l_partition(16))
    lemma("partition/24", l_partition(24))

    for cls in INST:
        def l_inst(ctx, interp, cls=cls):
            f = fixed_frame(ctx, 24)
            i = sym_inst(ctx, cls)
            if cls is A.ReservedInstance:
                v = i._value        # only bytes the standard leaves reserved denote a ReservedInstance
                ctx.assume(Or(And(v >= 0x40, v <= 0x5F), And(v >= 0xE0, v <= 0xFB)))
            old = f._data
            interp.call(interp.get_attr(i, "add_to_frame"), (f,), {})
            ctx.prove("only-the-instance-byte-changes", ((f._data ^ old) & ~0xFF00) == 0)
            r = interp.call(A.instance_from_frame, (f,), {})
            ctx.prove("reads-back-same-kind", r is not None and type_of(r) is cls)
            ctx.prove("reads-back-equal", r is not None and interp.truth(interp.eq(r, i)))
        lemma("instance-roundtrip-local/" + cls.__name__, l_inst)

    def l_inst_total(ctx, interp):
        f = fixed_frame(ctx, 24)
        r = interp.call(A.instance_from_frame, (f,), {})
        ctx.prove("every-byte-has-a-kind", r is not None)
        g = sym_frame(ctx, "g", cls=F.ForwardFrame)
        ctx.assume(g._bits != 24)
        ctx.prove("other-sizes-have-none", interp.call(A.instance_from_frame, (g,), {}) is None)
    lemma("instance-total", l_inst_total)
    return U


# checks whose proof units establish the callee contracts applied here (re-verified by this check, see main.dependency_units)
# ----------------------------------------------------------------------------- bounded stand-in: history independence
# The proof units decode one frame from a state in which nothing was decoded before; a decoder that keeps state outside its
# arguments (a cache of decoded objects) fails their frame clause without an input to show.  This native enumeration looks
# for an actual witness: every address byte x selector bit of 16- and 24-bit frames is decoded in four orders (each in a
# forked process) and must give the same kind and number.  It can only add a witness, never an alarm of its own oracle:
# the orders are compared with each other, not with a table.
def _decode_order(order):
    from dali import address as AD, frame as FR
    frames = [(16, (b << 8) | lo) for b in range(256) for lo in (0x00, 0xFF)] + \
             [(24, (b << 16) | lo) for b in range(256) for lo in (0x0000, 0xFE30, 0xFFFF)]
    if order == "descending":
        frames.reverse()
    elif order == "odd-address-bytes-first":
        frames.sort(key=lambda sv: (1 - ((sv[1] >> (sv[0] - 8)) & 1), sv))
    elif order == "even-address-bytes-first":
        frames.sort(key=lambda sv: ((sv[1] >> (sv[0] - 8)) & 1, sv))
    res = {}
    for size, v in frames:
        out = []
        for fn in (AD.from_frame, AD.instance_from_frame) if size == 24 else (AD.from_frame,):
            try:
                r = fn(FR.ForwardFrame(size, v))
                out.append(None if r is None else (type(r).__name__, getattr(r, "address", None), getattr(r, "group", None),
                                                   getattr(r, "value", None)))
            except Exception as e:      # noqa: BLE001
                out.append("raised " + type(e).__name__)
        res[(size, v)] = tuple(out)
    return order, res


def extra_checks(tier, seed):
    import multiprocessing as mp
    import time
    t0 = time.time()
    orders = ["ascending", "descending", "odd-address-bytes-first", "even-address-bytes-first"]
    with mp.get_context("fork").Pool(4, maxtasksperchild=1) as pool:
        got = pool.map(_decode_order, orders, chunksize=1)
    ref_order, ref = got[0]
    diffs = []
    n = 0
    for order, res in got:
        for k, v in res.items():
            n += 1
            if ref[k] != v:
                diffs.append((k, ref[k], v, order))
    diffs.sort(key=repr)
    name = "C04/bounded/address-decode-does-not-depend-on-what-was-decoded-before"
    if not diffs:
        return [{"name": name, "status": "discharged", "cases": n, "kind": "bounded-native", "seconds": time.time() - t0,
                 "detail": "every address byte x selector bit of 16- and 24-bit frames (and the instance byte of the latter), "
                           "decoded in four orders in forked processes"}]
    (size, v), a, b, order = diffs[0]
    return [{"name": name, "status": "failed", "cases": n, "kind": "bounded-native", "seconds": time.time() - t0,
             "detail": "Frame(%d, 0x%x) decodes to %r when frames are decoded in ascending order but to %r in the order '%s' "
                       "(%d such frames)" % (size, v, a, b, order, len(diffs)),
             "witness": {"frame": [size, v], "orders": ["ascending", order]},
             "replay": {"how": "address.from_frame / instance_from_frame on the enumerated frames in the two orders named, "
                               "each in a fresh process", "frame": [size, v], "ascending": repr(a), "other": repr(b),
                        "order": order, "cases": len(diffs)}}]


DEPENDENCIES = ['C05']

META = {
    "level": "proof",
    "bounds": {"frame width for refusal / decode": "1..64 symbolic", "numbers": "full ranges symbolic; constructor "
               "arguments any int of the 72-bit model plus None/str/float/bytes/tuple/list/object"},
    "assumptions": [
        "callers are verified against the Frame contracts of C05 (contracts/frame.py), not against Frame's code",
        "device address round trip is stated for frames whose bit 16 (command selector) is set, which every 24-bit "
        "command constructor establishes; the decode partition itself is proved for all frames",
        "ReservedInstance round trip is stated for the byte values the standard leaves reserved (0x40-0x5F, 0xE0-0xFB)",
        "__str__ methods are proved total, their text is not specified",
    ],
    "undecided_clauses": [],
    "trusted_base": ["contracts/address.py (partition tables transcribed from the property statement / IEC 62386-102 7.2, "
                     "-103 7.2.1)", "contracts/frame.py"],
}
