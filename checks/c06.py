"""C06 - Responses interpret every backward-frame outcome faithfully and totally."""
import time
from pyvc.engine import Unit, resolve
from pyvc.spec import And, Or, Not
from dali import command as C, frame as F
import dali.gear.general, dali.gear.led, dali.gear.emergency, dali.gear.incandescent, dali.gear.converter  # noqa
import dali.gear.colour, dali.device.general, dali.device.pushbutton, dali.device.occupancy, dali.device.light  # noqa
import contracts.frame as CF
import contracts.response as CR
from checks.c05 import NON_INT, mk
from checks.c04 import FRAME_USE

FK = "dali.frame:"
USE = FRAME_USE + [FK + "Frame.as_integer", FK + "Frame.error"]


def response_classes():
    rs = {c.response for c in C.Command._commands if c.response is not None}
    return sorted(rs, key=lambda r: (r.__module__, r.__name__))


def raws():
    yield "none", lambda ctx: None
    yield "clean", lambda ctx: ctx.new(F.BackwardFrame, _bits=8, _data=ctx.int("b", 0, 255), _error=False)
    yield "garbled", lambda ctx: ctx.new(F.BackwardFrameError, _bits=8, _data=ctx.int("b", 0, 255), _error=True)


def find(cls, name):
    """key of the function that implements `name` for cls (property getter or method), or None"""
    for k in cls.__mro__:
        if name in k.__dict__:
            v = k.__dict__[name]
            f = v.fget if isinstance(v, property) else getattr(v, "__func__", v)
            if hasattr(f, "__qualname__"):
                return "%s:%s" % (f.__module__, f.__qualname__)
            return None
    return None


def units(tier):
    CF.WMAX = 64
    U = []
    for cls in response_classes():
        cn = "%s.%s" % (cls.__module__.replace("dali.", ""), cls.__name__)
        kind = CR.kind_of(cls)
        for rname, rmk in raws():
            def bld(ctx, cls=cls, rmk=rmk):
                return (ctx.new(cls, _value=rmk(ctx)),)

            def unit(op, target, spec, builder=bld, **kw):
                U.append(Unit("C06/%s/%s/%s" % (cn, op, rname), "C06", target, builder, use=USE, width=72,
                              spec=spec, **kw))
            unit("raw_value", find(cls, "raw_value"), CR.response_raw_value)
            unit("value", find(cls, "value"), CR.spec_value)
            unit("str", find(cls, "__str__"), CR.spec_str)
            if kind == "bitmap":
                unit("status", find(cls, "status"), CR.spec_status)
                if cls.__name__ == "QueryStatusResponse":
                    unit("error", find(cls, "error"), CR.spec_query_status_error)
                else:
                    unit("error", find(cls, "error"), CR.spec_bitmap_error)
                names = sorted(cls._bit_properties) + ["no_such_bit"]
                for nm in names:
                    unit("bit:" + nm, find(cls, "__getattr__"), CR.spec_named_bit,
                         builder=(lambda ctx, cls=cls, rmk=rmk, nm=nm: (ctx.new(cls, _value=rmk(ctx)), nm)))
        # construction: only None or a backward frame
        for rname, rmk in raws():
            U.append(Unit("C06/%s/init/%s" % (cn, rname), "C06", find(cls, "__init__"),
                          (lambda ctx, cls=cls, rmk=rmk: (ctx.new(cls), rmk(ctx))), use=USE, width=72,
                          spec=CR.response_init, state_on_raise=False))
        bad = dict(NON_INT)
        for tag in list(bad) + ["int", "forward-frame", "plain-frame"]:
            def bldbad(ctx, cls=cls, tag=tag):
                if tag == "int":
                    v = ctx.int("v")
                elif tag == "forward-frame":
                    v = ctx.new(F.ForwardFrame, _bits=8, _data=ctx.int("b", 0, 255), _error=False)
                elif tag == "plain-frame":
                    v = ctx.new(F.Frame, _bits=8, _data=ctx.int("b", 0, 255), _error=False)
                else:
                    v = mk(tag)
                return (ctx.new(cls), v)
            U.append(Unit("C06/%s/init/%s" % (cn, tag), "C06", find(cls, "__init__"), bldbad, use=USE, width=72,
                          spec=CR.response_init, state_on_raise=False))
    return U


def extra_checks(tier, seed):
    """E: the metaclass-built bit dictionaries agree with the declared bit lists"""
    t0 = time.time()
    bad = []
    n = 0
    for cls in response_classes():
        if CR.kind_of(cls) != "bitmap":
            continue
        n += 1
        want = {CR.mangle(b): i for i, b in enumerate(cls.bits) if b}
        if cls._bit_properties != want or len(cls.bits) > 8 or len(want) != len([b for b in cls.bits if b]):
            bad.append(cls.__name__)
    out = [{"name": "C06/registry/bit-dictionaries-match-bit-lists", "status": "failed" if bad else "discharged",
            "cases": n, "kind": "exhaustive", "seconds": time.time() - t0, "detail": "classes: %s" % bad,
            "witness": {"classes": bad}, "replay": {"classes": bad}}]
    out.append(history_check())
    return out


# ----------------------------------------------------------------------------- bounded stand-in: history independence
# The proof units look at one response object at a time, from a state in which nothing was evaluated before; a response
# that keeps state outside itself (a cache on a class) fails their frame clause without an input to show.  This native
# enumeration then looks for an actual witness: every observation of every class x every bus outcome is made in five
# orders (each class alone in a forked process, outcomes ascending / descending; all classes in one process, in registry
# order / reversed) and must come out the same.
def _scribble(v):
    """what a caller may do with a result that is its own: modify it in place"""
    if isinstance(v, list):
        v.append("scribble")
        v.reverse()
    elif isinstance(v, dict):
        v["scribble"] = True
    elif isinstance(v, set):
        v.add("scribble")


def _observe(cls, raw, scribble=False):
    out = []
    try:
        r = cls(raw)
    except Exception as e:      # noqa: BLE001
        return ("ctor", type(e).__name__)
    for attr in ("raw_value", "value", "status", "error"):
        if attr == "status" and not hasattr(cls, "status"):
            continue
        if attr == "error" and not isinstance(getattr(cls, "error", None), property):
            continue
        try:
            v = getattr(r, attr)
            out.append((attr, repr(v) if not isinstance(v, F.Frame) else ("frame", len(v), v.as_integer, v.error)))
            if scribble:
                _scribble(v)
        except Exception as e:      # noqa: BLE001
            out.append((attr, "raised " + type(e).__name__))
    try:
        out.append(("str", str(r)))
    except Exception as e:      # noqa: BLE001
        out.append(("str", "raised " + type(e).__name__))
    for b in getattr(cls, "_bit_properties", {}) or {}:
        try:
            out.append((b, repr(getattr(r, b))))
        except Exception as e:      # noqa: BLE001
            out.append((b, "raised " + type(e).__name__))
    return tuple(out)


def _outcomes():
    yield ("none", 0)
    for b in range(256):
        yield ("clean", b)
    for b in range(256):
        yield ("garbled", b)


def _mk_raw(o):
    if o[0] == "none":
        return None
    return F.BackwardFrame(o[1]) if o[0] == "clean" else F.BackwardFrameError(o[1])


def _alone(job):
    idx, reverse = job
    cls = response_classes()[idx]
    outs = list(_outcomes())
    if reverse == "scribble":
        # a first response object whose mutable results (lists of names ...) the caller modifies in place, then a second
        # object for the same outcome: the second one's observations are what is compared
        res = {}
        for o in outs:
            _observe(cls, _mk_raw(o), scribble=True)
            res[o] = _observe(cls, _mk_raw(o))
        return idx, reverse, res
    if reverse:
        outs.reverse()
    return idx, reverse, {o: _observe(cls, _mk_raw(o)) for o in outs}


def _together(reverse):
    classes = list(enumerate(response_classes()))
    if reverse:
        classes.reverse()
    res = {}
    for o in _outcomes():
        for idx, cls in classes:
            res[(idx, o)] = _observe(cls, _mk_raw(o))
    return reverse, res


def history_check():
    import multiprocessing as mp
    t0 = time.time()
    classes = response_classes()
    ctx = mp.get_context("fork")
    with ctx.Pool(16, maxtasksperchild=1) as pool:
        alone = pool.map(_alone, [(i, rev) for i in range(len(classes)) for rev in (False, True, "scribble")], chunksize=1)
        together = pool.map(_together, [False, True], chunksize=1)
    ref = {}
    diffs = []
    n = 0
    def label(rev):
        if rev == "scribble":
            return "alone, after a caller modified the results of an earlier response of the same class and outcome in place"
        return "alone, outcomes %s" % ("descending" if rev else "ascending")
    alone.sort(key=lambda t: (t[0], {False: 0, True: 1, "scribble": 2}[t[1]]))
    for idx, rev, obs in alone:
        for o, v in obs.items():
            n += 1
            k = (idx, o)
            if k not in ref:
                ref[k] = (v, label(rev))
            elif ref[k][0] != v:
                diffs.append((k, ref[k], (v, label(rev))))
    for rev, res in together:
        for k, v in res.items():
            n += 1
            if ref[k][0] != v:
                diffs.append((k, ref[k], (v, "after the other classes (%s order)" % ("reversed" if rev else "registry"))))
    name = "C06/bounded/observations-do-not-depend-on-what-was-evaluated-before"
    if not diffs:
        return {"name": name, "status": "discharged", "cases": n, "kind": "bounded-native", "seconds": time.time() - t0,
                "detail": "%d response classes x 513 bus outcomes, every observation (raw_value, value, status, error, named bits, "
                          "str) in five evaluation orders (incl. after in-place modification of earlier results by the caller)" % len(classes)}
    diffs.sort(key=repr)
    (idx, o), a, b = diffs[0]
    first = next((x for x, y in zip(a[0], b[0]) if x != y), None) if isinstance(a[0], tuple) and isinstance(b[0], tuple) else None
    return {"name": name, "status": "failed", "cases": n, "kind": "bounded-native", "seconds": time.time() - t0,
            "detail": "%s with outcome %s: %r when evaluated %s, but %r when evaluated %s (%d such cases)"
                      % (classes[idx].__name__, o, first, a[1], next((y for x, y in zip(a[0], b[0]) if x != y), None), b[1], len(diffs)),
            "witness": {"class": classes[idx].__name__, "outcome": list(o), "orders": [a[1], b[1]]},
            "replay": {"how": "the response class is instantiated natively on the outcome, in the two evaluation orders named",
                       "class": classes[idx].__module__ + "." + classes[idx].__name__, "outcome": list(o),
                       "first": [a[1], repr(a[0])[:400]], "second": [b[1], repr(b[0])[:400]], "cases": len(diffs)}}


def adjudicate(failed, undecided, obligations, extra):
    from pyvc.engine import adjudicate_stores
    adjudicate_stores("C06", failed, undecided, obligations, extra,
                      "the bounded search over evaluation orders found no observation that depends on an earlier one")


# checks whose proof units establish the callee contracts applied here (re-verified by this check, see main.dependency_units)
DEPENDENCIES = ['C05']

META = {
    "level": "proof",
    "bounds": {"response classes": "all classes reachable from a live command class (34), taken from the registry",
               "bus outcomes": "None, BackwardFrame(b), BackwardFrameError(b) with b symbolic in 0..255",
               "constructor arguments": "None / backward frames / int / forward and plain frames / None,str,float,bytes,tuple,list,object",
               "history (BOUNDED stand-in)": "every observation of every class x 513 outcomes natively in five evaluation orders "
               "(alone ascending / descending, all classes together in registry / reversed order, and alone after a caller "
               "modified the mutable results of an earlier response for the same outcome in place)"},
    "assumptions": [
        "Frame operations are used through their contracts (C05)",
        "text content is not specified: str() is proved to return a str and never to raise MissingResponse/ResponseError "
        "(an enumerated response may raise ValueError for an undefined code)",
        "QueryAssignedColourResponse follows its own documented table: MASK for 255, an error marker or the documented "
        "exception for codes outside the table or garbled answers",
        "numeric 'non-integer marker' = any str",
    ],
    "undecided_clauses": [],
    "trusted_base": ["contracts/response.py", "contracts/frame.py"],
}
