"""C06 - Responses interpret every backward-frame outcome faithfully and totally."""
import time
from pyvc.engine import Unit, resolve
from pyvc.spec import And, Or, Not
from dali import command as C, frame as F
import dali.gear.general, dali.gear.led, dali.gear.emergency, dali.gear.incandescent, dali.gear.converter  # noqa
import dali.gear.colour, dali.device.general, dali.device.pushbutton, dali.device.occupancy, dali.device.light  # noqa
import contracts.frame as CF
import contracts.response as CR
from checks.c05 import NON_INT, mk
from checks.c04 import FRAME_USE

FK = "dali.frame:"
USE = FRAME_USE + [FK + "Frame.as_integer", FK + "Frame.error"]


def response_classes():
    rs = {c.response for c in C.Command._commands if c.response is not None}
    return sorted(rs, key=lambda r: (r.__module__, r.__name__))


def raws():
    yield "none", lambda ctx: None
    yield "clean", lambda ctx: ctx.new(F.BackwardFrame, _bits=8, _data=ctx.int("b", 0, 255), _error=False)
    yield "garbled", lambda ctx: ctx.new(F.BackwardFrameError, _bits=8, _data=ctx.int("b", 0, 255), _error=True)


def find(cls, name):
    """key of the function that implements `name` for cls (property getter or method), or None"""
    for k in cls.__mro__:
        if name in k.__dict__:
            v = k.__dict__[name]
            f = v.fget if isinstance(v, property) else getattr(v, "__func__", v)
            if hasattr(f, "__qualname__"):
                return "%s:%s" % (f.__module__, f.__qualname__)
            return None
    return None


def units(tier):
    CF.WMAX = 64
    U = []
    for cls in response_classes():
        cn = "%s.%s" % (cls.__module__.replace("dali.", ""), cls.__name__)
        kind = CR.kind_of(cls)
        for rname, rmk in raws():
            def bld(ctx, cls=cls, rmk=rmk):
                return (ctx.new(cls, _value=rmk(ctx)),)

            def unit(op, target, spec, builder=bld, **kw):
                U.append(Unit("C06/%s/%s/%s" % (cn, op, rname), "C06", target, builder, use=USE, width=72,
                              spec=spec, **kw))
            unit("raw_value", find(cls, "raw_value"), CR.response_raw_value)
            unit("value", find(cls, "value"), CR.spec_value)
            unit("str", find(cls, "__str__"), CR.spec_str)
            if kind == "bitmap":
                unit("status", find(cls, "status"), CR.spec_status)
                if cls.__name__ == "QueryStatusResponse":
                    unit("error", find(cls, "error"), CR.spec_query_status_error)
                else:
                    unit("error", find(cls, "error"), CR.spec_bitmap_error)
                names = sorted(cls._bit_properties) + ["no_such_bit"]
                for nm in names:
                    unit("bit:" + nm, find(cls, "__getattr__"), CR.spec_named_bit,
                         builder=(lambda ctx, cls=cls, rmk=rmk, nm=nm: (ctx.new(cls, _value=rmk(ctx)), nm)))
        # construction: only None or a backward frame
        for rname, rmk in raws():
            U.append(Unit("C06/%s/init/%s" % (cn, rname), "C06", find(cls, "__init__"),
                          (lambda ctx, cls=cls, rmk=rmk: (ctx.new(cls), rmk(ctx))), use=USE, width=72,
                          spec=CR.response_init, state_on_raise=False))
        bad = dict(NON_INT)
        for tag in list(bad) + ["int", "forward-frame", "plain-frame"]:
            def bldbad(ctx, cls=cls, tag=tag):
                if tag == "int":
                    v = ctx.int("v")
                elif tag == "forward-frame":
                    v = ctx.new(F.ForwardFrame, _bits=8, _data=ctx.int("b", 0, 255), _error=False)
                elif tag == "plain-frame":
                    v = ctx.new(F.Frame, _bits=8, _data=ctx.int("b", 0, 255), _error=False)
                else:
                    v = mk(tag)
                return (ctx.new(cls), v)
            U.append(Unit("C06/%s/init/%s" % (cn, tag), "C06", find(cls, "__init__"), bldbad, use=USE, width=72,
                          spec=CR.response_init, state_on_raise=False))
    return U


def extra_checks(tier, seed):
    """E: the metaclass-built bit dictionaries agree with the declared bit lists"""
    t0 = time.time()
    bad = []
    n = 0
    for cls in response_classes():
        if CR.kind_of(cls) != "bitmap":
            continue
        n += 1
        want = {CR.mangle(b): i for i, b in enumerate(cls.bits) if b}
        if cls._bit_properties != want or len(cls.bits) > 8 or len(want) != len([b for b in cls.bits if b]):
            bad.append(cls.__name__)
    return [{"name": "C06/registry/bit-dictionaries-match-bit-lists", "status": "failed" if bad else "discharged",
             "cases": n, "kind": "exhaustive", "seconds": time.time() - t0, "detail": "classes: %s" % bad,
             "witness": {"classes": bad}, "replay": {"classes": bad}}]


# checks whose proof units establish the callee contracts applied here (re-verified by this check, see main.dependency_units)
DEPENDENCIES = ['C05']

META = {
    "level": "proof",
    "bounds": {"response classes": "all classes reachable from a live command class (34), taken from the registry",
               "bus outcomes": "None, BackwardFrame(b), BackwardFrameError(b) with b symbolic in 0..255",
               "constructor arguments": "None / backward frames / int / forward and plain frames / None,str,float,bytes,tuple,list,object"},
    "assumptions": [
        "Frame operations are used through their contracts (C05)",
        "text content is not specified: str() is proved to return a str and never to raise MissingResponse/ResponseError "
        "(an enumerated response may raise ValueError for an undefined code)",
        "QueryAssignedColourResponse follows its own documented table: MASK for 255, an error marker or the documented "
        "exception for codes outside the table or garbled answers",
        "numeric 'non-integer marker' = any str",
    ],
    "undecided_clauses": [],
    "trusted_base": ["contracts/response.py", "contracts/frame.py"],
}
