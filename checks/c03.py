"""C03 - Emitted frames and command flags conform to the IEC 62386 tables."""
import importlib
import time
from pyvc.engine import Unit
from pyvc.spec import And, Or, Not, ite, type_of, is_instance
from pyvc.path import RaiseEx
from dali import frame as F, address as A, command as C
import dali.gear.general, dali.gear.led, dali.gear.emergency, dali.gear.incandescent, dali.gear.converter, dali.gear.colour  # noqa
import dali.device.general, dali.device.pushbutton, dali.device.occupancy, dali.device.light  # noqa
import contracts.frame as CF
from specs import iec62386 as T
from specs import events as EV
from checks.c01 import USE
import dali.device.general as DG, dali.device.occupancy as OCC, dali.device.light as LIGHT, dali.device.pushbutton as PB  # noqa

GEAR_KINDS = {"short": (A.GearShort, "address", 63), "group": (A.GearGroup, "group", 15),
              "broadcast": (A.GearBroadcast, None, 0), "unaddressed": (A.GearBroadcastUnaddressed, None, 0)}
DEV_KINDS = {"short": (A.DeviceShort, "address", 63), "group": (A.DeviceGroup, "group", 31),
             "broadcast": (A.DeviceBroadcast, None, 0), "unaddressed": (A.DeviceBroadcastUnaddressed, None, 0)}
INST_KINDS = {"InstanceNumber": A.InstanceNumber, "InstanceGroup": A.InstanceGroup, "InstanceType": A.InstanceType,
              "FeatureInstanceNumber": A.FeatureInstanceNumber, "FeatureInstanceGroup": A.FeatureInstanceGroup,
              "FeatureInstanceType": A.FeatureInstanceType, "FeatureInstanceBroadcast": A.FeatureInstanceBroadcast,
              "InstanceBroadcast": A.InstanceBroadcast, "FeatureDevice": A.FeatureDevice}


def live_class(module, name):
    return getattr(importlib.import_module(module), name, None)


def mk_dest(ctx, kinds, kind):
    cls, field, hi = kinds[kind]
    n = ctx.int("dnum", 0, hi) if field else 0
    obj = ctx.new(cls, **({field: n} if field else {}))
    return obj, n


def cases(row):
    """(case name, builder(ctx) -> (args, kwargs, expected frame data as int expression, width))"""
    k = row["kind"]
    if k in ("gear-std", "dapc"):
        for dk in GEAR_KINDS:
            def b(ctx, dk=dk):
                d, n = mk_dest(ctx, GEAR_KINDS, dk)
                if k == "dapc":
                    p = ctx.int("power", 0, 255)
                    return (d, p), {}, (T.gear_address_byte(dk, n, 0) << 8) | p, 16
                if row["param"]:
                    p = ctx.int("param", 0, 15)
                    return (d, p), {}, (T.gear_address_byte(dk, n, 1) << 8) | row["opcode"] | p, 16
                return (d,), {}, (T.gear_address_byte(dk, n, 1) << 8) | row["opcode"], 16
            yield dk, b
        def bi(ctx):
            n = ctx.int("dnum", 0, 63)
            if k == "dapc":
                p = ctx.int("power", 0, 255)
                return (n, p), {}, (T.gear_address_byte("short", n, 0) << 8) | p, 16
            if row["param"]:
                p = ctx.int("param", 0, 15)
                return (n, p), {}, (T.gear_address_byte("short", n, 1) << 8) | row["opcode"] | p, 16
            return (n,), {}, (T.gear_address_byte("short", n, 1) << 8) | row["opcode"], 16
        yield "int-destination", bi
    elif k == "gear-special":
        d = row["data"]
        if d == "none":
            yield "plain", lambda ctx: ((), {}, row["addr"] << 8, 16)
        elif d == "byte":
            def b(ctx):
                p = ctx.int("param", 0, 255)
                return (p,), {}, (row["addr"] << 8) | p, 16
            yield "byte", b
        elif d == "shortaddr":
            def b(ctx):
                a = ctx.int("address", 0, 63)
                return (a,), {}, (row["addr"] << 8) | (a << 1) | 1, 16
            yield "address", b
            yield "mask", lambda ctx: (("MASK",), {}, (row["addr"] << 8) | 0xFF, 16)
        elif d == "initialise":
            yield "all", lambda ctx: ((), {"broadcast": True}, (row["addr"] << 8) | 0x00, 16)
            yield "unaddressed", lambda ctx: ((), {}, (row["addr"] << 8) | 0xFF, 16)
            def b(ctx):
                a = ctx.int("address", 0, 63)
                return (), {"address": a}, (row["addr"] << 8) | (a << 1) | 1, 16
            yield "address", b
    elif k == "dev-std":
        for dk in DEV_KINDS:
            def b(ctx, dk=dk):
                d, n = mk_dest(ctx, DEV_KINDS, dk)
                return (d,), {}, (T.device_address_byte(dk, n) << 16) | (0xFE << 8) | row["opcode"], 24
            yield dk, b
    elif k == "dev-inst":
        for dk in DEV_KINDS:
            for ik, icls in INST_KINDS.items():
                def b(ctx, dk=dk, ik=ik, icls=icls):
                    d, n = mk_dest(ctx, DEV_KINDS, dk)
                    if ik in T.INSTANCE_FLAGS:
                        i = ctx.int("inum", 0, 31)
                        inst = ctx.new(icls, _value=i)
                    else:
                        i = 0
                        inst = ctx.new(icls)
                    return (d, inst), {}, (T.device_address_byte(dk, n) << 16) | (T.instance_byte(ik, i) << 8) | row["opcode"], 24
                yield "%s/%s" % (dk, ik), b
    elif k == "dev-special":
        d = row["data"]
        if d == "none":
            yield "plain", lambda ctx: ((), {}, (row["byte1"] << 16) | (row["byte2"] << 8), 24)
        elif d == "byte":
            def b(ctx):
                p = ctx.int("param", 0, 255)
                return (p,), {}, (row["byte1"] << 16) | (row["byte2"] << 8) | p, 24
            yield "byte", b
        else:
            def b(ctx):
                a, bb = ctx.int("a", 0, 255), ctx.int("b", 0, 255)
                return (a, bb), {}, (row["byte1"] << 16) | (a << 8) | bb, 24
            yield "two-bytes", b


def units(tier):
    CF.WMAX = 64
    U = []
    for module, rows in T.TABLES.items():
        for row in rows:
            cls = live_class(module, row["name"])
            if cls is None:
                continue            # reported by the exhaustive check below
            if row["u"] == "row":
                # the opcode of this row could not be confirmed offline: the frame STRUCTURE (address byte, instance byte,
                # selector bits, opcode position) is still verified, with the opcode as implemented
                if row["kind"] != "dev-inst" or not isinstance(getattr(cls, "_opcode", None), int):
                    continue
                row = dict(row, opcode=cls._opcode, structure_only=True)
            cs = list(cases(row))

            def runner(ctx, interp, fn, cls=cls, row=row, cs=cs):
                i = ctx.choose_int(ctx.int("case", 0, len(cs) - 1), "case")
                cname, b = cs[i]
                args, kwargs, want, width = b(ctx)
                try:
                    obj = interp.call(cls, args, kwargs)
                except RaiseEx as e:
                    ctx.fail(cname + "/constructs:%s" % e.cls.__name__, detail="raised %s at %s" % (e.cls.__name__, e.where))
                    return
                fr = interp.get_attr(obj, "frame")
                ctx.cover()
                ctx.prove(cname + "/frame-width", interp.truth(interp.eq(len_of(interp, fr), width)))
                ctx.prove(cname + "/frame-bits-as-in-the-standard", interp.truth(interp.eq(interp.get_attr(fr, "as_integer"), want)),
                          detail="%s: emitted frame differs from the standard's encoding" % row["name"])
                # conversely: the standard's frame decodes to the command of that name
                sf = ctx.new(F.ForwardFrame, _bits=width, _data=want, _error=False)
                try:
                    r = interp.call(C.from_frame, (sf,), {"devicetype": row["devicetype"]})
                except RaiseEx as e:
                    ctx.fail(cname + "/standard-frame-decodes:%s" % e.cls.__name__, detail="at %s" % e.where)
                    return
                ctx.prove(cname + "/standard-frame-decodes-to-this-command", r is not None and type_of(r) is cls,
                          detail="decodes to %s" % (type_of(r).__name__ if r is not None else None))
            U.append(Unit("C03/%s%s.%s" % ("structure-only/" if row.get("structure_only") else "",
                                           module.replace("dali.", ""), row["name"]), "C03", None, None, use=USE, width=72,
                          kind="custom", runner=runner, max_paths=100000))
    U.extend(event_units())
    return U


# ----------------------------------------------------------------------------- event messages (Part 103 Table 3)
EVENT_SCHEMES = {
    "device": lambda ctx: {"short_address": ctx.int("short", 0, 63)},
    "device/instance": lambda ctx: {"short_address": ctx.int("short", 0, 63), "instance_number": ctx.int("inum", 0, 31)},
    "device group": lambda ctx: {"device_group": ctx.int("dgroup", 0, 31)},
    "instance": lambda ctx: {"instance_number": ctx.int("inum", 0, 31)},
    "instance group": lambda ctx: {"instance_group": ctx.int("igroup", 0, 31)},
}


def event_classes():
    return [c for c in C.Command._commands if isinstance(c, type) and issubclass(c, DG._Event)
            and c not in (DG._Event, DG.AmbiguousInstanceType)]


def event_units():
    U = []
    for cls in event_classes():
        schemes = list(EVENT_SCHEMES)

        def runner(ctx, interp, fn, cls=cls, schemes=schemes):
            i = ctx.choose_int(ctx.int("case", 0, len(schemes) - 1), "case")
            scheme = schemes[i]
            kw = EVENT_SCHEMES[scheme](ctx)
            src = dict(kw)
            # event information and instance type as the standard's parts give them (not read from the class)
            if cls is DG.UnknownEvent:
                itype = ctx.int("itype", 0, 31)
                info = ctx.int("evdata", 0, 1023)
                kw["instance_type"] = itype
                kw["data"] = info
            else:
                itype = EV.INSTANCE_TYPE_OF_MODULE[cls.__module__]
                if issubclass(cls, OCC.OccupancyEvent):
                    mov, occ, rep, sm = ctx.bool("ev_mov"), ctx.bool("ev_occ"), ctx.bool("ev_rep"), ctx.bool("ev_sens")
                    sensor = "movement" if sm else "presence"
                    kw["data"] = OCC.OccupancyEvent.EventData(movement=mov, occupied=occ, repeat=rep, sensor_type=sensor)
                    info = EV.occupancy_info(mov, occ, rep, sm)
                elif issubclass(cls, LIGHT.LightEvent):
                    info = ctx.int("evdata", 0, 1023)
                    kw["data"] = info
                else:
                    info = EV.PUSHBUTTON_CODE[cls.__name__]
            want = EV.encode_event(scheme, info, instance_type=itype, **src)
            label = scheme.replace(" ", "-").replace("/", "-")
            try:
                obj = interp.call(cls, (), kw)
            except RaiseEx as e:
                ctx.fail(label + "/constructs:%s" % e.cls.__name__, detail="raised %s at %s" % (e.cls.__name__, e.where))
                return
            fr = interp.get_attr(obj, "frame")
            ctx.cover()
            ctx.prove(label + "/frame-width", interp.truth(interp.eq(len_of(interp, fr), 24)))
            ctx.prove(label + "/frame-bits-as-in-the-standard",
                      interp.truth(interp.eq(interp.get_attr(fr, "as_integer"), want)),
                      detail="%s: emitted event frame differs from IEC 62386-103 Table 3 (%s scheme)" % (cls.__name__, scheme))
        U.append(Unit("C03/event/%s.%s" % (cls.__module__.replace("dali.", ""), cls.__name__), "C03", None, None, use=USE,
                      width=72, kind="custom", runner=runner, max_paths=100000))
    return U


def len_of(interp, fr):
    from pyvc import models
    if getattr(interp, "contracts", None) is None or not hasattr(interp, "find_in_mro"):
        return len(fr)
    return models.b_len(interp, fr)


def answer_kind(cls):
    if cls.response is None:
        return "-"
    if issubclass(cls.response, C.YesNoResponse):
        return "yn"
    return "8"


def general_rules(module, name, cls):
    """For rows / flags I could not confirm against the tables offline, the GENERAL rules of IEC 62386-102 / -103 still
    apply and are certain: a command that expects an answer is a query and is never sent twice; a query has an answer;
    configuration instructions (Set... / Store... / Reset...) without an answer must be sent twice to take effect."""
    out = []
    answers = cls.response is not None
    if answers and cls.sendtwice:
        out.append("%s.%s: expects an answer but is marked send-twice" % (module, name))
    if name.startswith("Query") and not answers:
        out.append("%s.%s: a query without an answer" % (module, name))
    if name.startswith(("Set", "Store", "Reset")) and not answers and not cls.sendtwice:
        out.append("%s.%s: a configuration instruction that is not sent twice" % (module, name))
    return out


def extra_checks(tier, seed):
    t0 = time.time()
    problems = []
    rule_problems = []
    n = 0
    unverified = []
    rows_seen = set()
    for module, rows in T.TABLES.items():
        for row in rows:
            n += 1
            rows_seen.add((module, row["name"]))
            cls = live_class(module, row["name"])
            if cls is None or not isinstance(cls, type) or not issubclass(cls, C.Command):
                problems.append("%s.%s: no such command class" % (module, row["name"]))
                continue
            if row["u"] == "row":
                unverified.append("%s.%s (whole row)" % (module, row["name"]))
                rule_problems.extend(general_rules(module, row["name"], cls))
                continue
            if "twice" in row["u"]:
                unverified.append("%s.%s (send-twice flag)" % (module, row["name"]))
                rule_problems.extend(general_rules(module, row["name"], cls))
            elif bool(cls.sendtwice) != row["twice"]:
                problems.append("%s.%s: sendtwice=%r, standard says %r" % (module, row["name"], cls.sendtwice, row["twice"]))
            if answer_kind(cls) != row["answer"]:
                problems.append("%s.%s: answer kind %r, standard says %r" % (module, row["name"], answer_kind(cls), row["answer"]))
            if cls.devicetype != row["devicetype"]:
                problems.append("%s.%s: devicetype=%r, standard says %r" % (module, row["name"], cls.devicetype, row["devicetype"]))
    out = [{"name": "C03/flags/send-twice-answer-kind-device-type", "status": "failed" if problems else "discharged",
            "cases": n, "kind": "exhaustive", "seconds": time.time() - t0, "detail": "; ".join(problems[:8]),
            "witness": {"problems": problems}, "replay": {"problems": problems, "unverified_rows_or_flags": unverified}}]
    out.append({"name": "C03/flags/general-rules-on-rows-not-confirmed-against-the-tables",
                "status": "failed" if rule_problems else "discharged", "cases": len(unverified), "kind": "exhaustive",
                "seconds": 0.0, "detail": "; ".join(rule_problems[:8]), "witness": {"problems": rule_problems},
                "replay": {"problems": rule_problems}})
    t0 = time.time()
    missing = []
    m = 0
    for cls in C.Command._commands:
        if cls.__name__ in T.NOT_COMMANDS or cls is C.Command:
            continue
        m += 1
        if (cls.__module__, cls.__name__) not in rows_seen:
            missing.append("%s.%s" % (cls.__module__, cls.__name__))
    out.append({"name": "C03/coverage/every-implemented-command-has-a-table-row", "status": "failed" if missing else "discharged",
                "cases": m, "kind": "exhaustive", "seconds": time.time() - t0, "detail": "; ".join(missing[:10]),
                "witness": {"missing": missing}, "replay": {"missing": missing}})
    out.append(batch_check(tier, seed))
    return out


# ----------------------------------------------------------------------------- bounded stand-in: commands held in a batch
# The proof units construct one command from a state in which nothing was constructed before and read its frame at once.
# "The frame put on the wire" is read later - typically after other commands were built or decoded.  BOUNDED, native: for
# every table row x case three commands with independently drawn arguments are built by the real constructors, kept, and
# only then compared with the frame the TABLE gives for each one's own arguments (the same oracle as the proof units; a
# constructor that hands the same mutable frame object to several commands shows up here).
class _NativeCtx:
    def __init__(self, rng):
        self.rng = rng

    def int(self, name, lo, hi):
        return self.rng.choice([lo, hi, self.rng.randint(lo, hi), self.rng.randint(lo, hi)])

    def new(self, cls, **fields):
        return cls(*fields.values())


def batch_check(tier, seed):
    import random
    t0 = time.time()
    rng = random.Random(3000 + int(seed or 0))
    bad = []
    n = skipped = 0
    for module, rows in T.TABLES.items():
        for row in rows:
            cls = live_class(module, row["name"])
            if cls is None or row["u"] == "row":
                continue
            try:
                row_cases = list(cases(row))
            except Exception:       # noqa: BLE001
                skipped += 1
                continue
            for cname, build in row_cases:
                held = []
                try:
                    for _ in range(3):
                        args, kwargs, want, width = build(_NativeCtx(rng))
                        held.append((cls(*args, **kwargs), args, int(want), width))
                except Exception:       # noqa: BLE001  (a case the native context cannot build is not this check's business)
                    skipped += 1
                    continue
                for obj, args, want, width in held:
                    n += 1
                    f = obj.frame
                    if len(f) != width or f.as_integer != want:
                        bad.append("%s.%s/%s: built with %r and read after %d more commands of its class were built: frame "
                                   "%d bits 0x%x, the table gives %d bits 0x%x"
                                   % (module.rsplit(".", 1)[-1], row["name"], cname, tuple(getattr(a, "__dict__", a) for a in args),
                                      len(held) - 1, len(f), f.as_integer, width, want))
    return {"name": "C03/bounded/frames-of-commands-held-in-a-batch-stay-their-own", "status": "failed" if bad else "discharged",
            "cases": n, "kind": "bounded-native", "seconds": time.time() - t0,
            "detail": bad[0][:500] if bad else "%d commands built three at a time per table row and case, frames read afterwards "
                                               "(%d cases not buildable natively, skipped)" % (n, skipped),
            "witness": {"first": bad[:1]}, "replay": {"how": "build the three commands with the real constructors, then read .frame",
                                                      "failing": bad[:20], "total_failing": len(bad)}}


def unverified_list():
    out = []
    for module, rows in T.TABLES.items():
        for row in rows:
            if row["u"]:
                out.append("%s.%s: %s" % (module, row["name"], "whole row" if row["u"] == "row" else row["u"] + " flag"))
    return out


# checks whose proof units establish the callee contracts applied here (re-verified by this check, see main.dependency_units)
DEPENDENCIES = ['C04', 'C05', 'C12']

META = {
    "level": "proof",
    "bounds": {"commands": "every row of specs/iec62386.py that is not marked unverified", "arguments": "every destination kind "
               "and instance kind with symbolic numbers, every parameter value (symbolic)",
               "events": "every implemented event class x the five source schemes of Part 103 Table 3 with symbolic "
                         "source fields and event information (conversely, table frame -> event: property C12)"},
    "assumptions": [
        "the oracle is specs/iec62386.py, transcribed from the standard from memory in an offline sandbox (trusted); rows / "
        "flags marked unverified are excluded: " + "; ".join(unverified_list()),
        "Frame/Address/Instance operations through their contracts",
    ],
    "undecided_clauses": ["conformance of the opcodes (301/303/304) and send-twice flags (202, two 207/209 flags) listed as "
                          "unverified with the standard's tables; for those rows the frame structure (with the opcode as "
                          "implemented) and the general rules (queries answer and are not sent twice, Set/Store/Reset "
                          "configuration instructions are sent twice) are still checked"],
    "trusted_base": ["specs/iec62386.py", "contracts/frame.py", "contracts/address.py"],
}
