"""C01 - Every forward frame decodes, and the decoded command re-encodes to it."""
from pyvc.engine import Unit, contract, CONTRACTS
from pyvc.spec import And, Or, Not, ite, pow2, Implies, is_instance, type_of
from pyvc.path import RaiseEx
from pyvc.values import SObj
from dali import frame as F, address as A, command as C
from dali.device import helpers as H
import dali.gear.general, dali.gear.led, dali.gear.emergency, dali.gear.incandescent, dali.gear.converter  # noqa
import dali.gear.colour, dali.device.general, dali.device.pushbutton, dali.device.occupancy, dali.device.light  # noqa
import contracts.frame as CF
import contracts.address as CA
import contracts.helpers  # noqa: F401  (DeviceInstanceTypeMapper.get_type)
from checks.c04 import addr_contract_keys, INST_KEYS, FRAME_USE

K = "dali.command:"
FK = "dali.frame:"
USE = FRAME_USE + [FK + "Frame.__init__", FK + "Frame.as_byte_sequence", FK + "Frame.pack", FK + "Frame.as_integer"] \
    + addr_contract_keys() + ["dali.address:Address.from_frame"] + INST_KEYS \
    + ["dali.address:_AddressedInstance.__str__", "dali.address:_UnaddressedInstance.__str__",
       "dali.address:ReservedInstance.__str__", "dali.address:Instance.value",
       "dali.device.helpers:DeviceInstanceTypeMapper.get_type"]


def decode_and_check(ctx, interp, fn, f, devicetype, dmap, kw=True):
    bits0, data0 = f._bits, f._data
    try:
        if kw:
            r = interp.call_repo_function(fn, (C.Command, f), {"devicetype": devicetype, "dev_inst_map": dmap},
                                          force_body=True)
        else:
            r = interp.call_repo_function(fn, (C.Command, f), {}, force_body=True)
    except RaiseEx as e:
        ctx.fail("never-raises:%s" % e.cls.__name__, detail="decoding raised %s at %s" % (e.cls.__name__, e.where))
        return None
    ctx.cover()
    ok = r is not None and is_instance(r, C.Command)
    ctx.prove("result-is-a-command", ok, detail="result of class %s" % (type_of(r).__name__ if r is not None else None,))
    if not ok:
        return None
    fr = interp.get_attr(r, "frame")
    okf = fr is not None and is_instance(fr, F.ForwardFrame)
    ctx.prove("result-frame-is-forward-frame", okf)
    if okf:
        ctx.prove("frame-bit-identical", And(fr._bits == bits0, fr._data == data0),
                  detail="decoded class %s re-encodes to different bits" % type_of(r).__name__)
    ctx.prove("input-frame-unmodified", And(f._bits == bits0, f._data == data0))
    try:
        s = interp.py_str(r)
        ctx.prove("renders-as-text", isinstance(s, str))
    except RaiseEx as e:
        ctx.fail("renders-as-text:%s" % e.cls.__name__,
                 detail="str() of decoded %s raised %s at %s" % (type_of(r).__name__, e.cls.__name__, e.where))
    ctx.prove("pure:no-store-to-pre-existing-state", len(ctx.writes) == 0,
              detail="stores to %r" % ([(type(o).__name__, n) for o, n in ctx.writes],))
    return r


def mk_map(ctx, t):
    """an instance-type map answering t for every (short address, instance number)"""
    mapping = {}
    if ctx.native and t is not None:
        mapping = {(a, i): t for a in range(64) for i in range(32)}
    return ctx.new(H.DeviceInstanceTypeMapper, _mapping=mapping, _ghost_type=t)


def units(tier):
    CF.WMAX = 64
    U = []
    target = K + "Command.from_frame"

    def unit(name, runner, **kw):
        U.append(Unit("C01/" + name, "C01", target, None, use=USE, width=72, kind="custom", runner=runner,
                      max_paths=200000, **kw))

    # 16-bit frames: every data word, any claimed device type
    for top in range(16):
        def r16(ctx, interp, fn, top=top):
            f = ctx.new(F.ForwardFrame, _bits=16, _data=ctx.int("data", top << 12, (top << 12) | 0xFFF), _error=False)
            dt = ctx.int("devicetype")
            decode_and_check(ctx, interp, fn, f, dt, None)
        unit("16bit/top=%x" % top, r16)

    def r16_default(ctx, interp, fn):
        f = ctx.new(F.ForwardFrame, _bits=16, _data=ctx.int("data", 0, 0xFFFF), _error=False)
        decode_and_check(ctx, interp, fn, f, None, None, kw=False)
    unit("16bit/default-args", r16_default)

    # 24-bit frames without a map
    for top in range(16):
        for b16 in (0, 1):
            def r24(ctx, interp, fn, top=top, b16=b16):
                d = ctx.int("data", top << 20, (top << 20) | 0xFFFFF)
                ctx.assume(((d >> 16) & 1) == b16)
                f = ctx.new(F.ForwardFrame, _bits=24, _data=d, _error=False)
                decode_and_check(ctx, interp, fn, f, ctx.int("devicetype"), None)
            unit("24bit/top=%x/bit16=%d" % (top, b16), r24)

    # 24-bit frames with an instance-type map resolving to nothing / to any integer type
    for mode in ("unknown", "type"):
        for top in range(8):
            def r24m(ctx, interp, fn, mode=mode, top=top):
                d = ctx.int("data", top << 20, (top << 20) | 0xFFFFF)
                ctx.assume(((d >> 16) & 1) == 0)
                f = ctx.new(F.ForwardFrame, _bits=24, _data=d, _error=False)
                t = None if mode == "unknown" else ctx.int("maptype")
                m = mk_map(ctx, t)
                decode_and_check(ctx, interp, fn, f, 0, m)
            unit("24bit-event/map=%s/top=%x" % (mode, top), r24m)

    def r24m_cmd(ctx, interp, fn):
        d = ctx.int("data", 0, 0xFFFFFF)
        ctx.assume(((d >> 16) & 1) == 1)
        ctx.assume((d & 0xFF) == ctx.int("op", 0, 255))
        f = ctx.new(F.ForwardFrame, _bits=24, _data=d, _error=False)
        m = ctx.new(H.DeviceInstanceTypeMapper, _mapping={}, _ghost_type=ctx.int("maptype"))
        decode_and_check(ctx, interp, fn, f, 0, m)

    # every other length
    def rother(ctx, interp, fn):
        b = ctx.int("bits", 1, 64)
        ctx.assume(And(b != 16, b != 24))
        f = ctx.new(F.ForwardFrame, _bits=b, _data=ctx.int("data", 0), _error=False)
        ctx.assume(f._data < pow2(b))
        decode_and_check(ctx, interp, fn, f, ctx.int("devicetype"), None)
    unit("other-lengths", rother)
    return U


def provides(keys, units):
    """the call-site contract of Command.from_frame (contracts/command.py: total on forward frames, result carries the
    frame) is this property's own statement: all decode units"""
    if "dali.command:Command.from_frame" in keys:
        return list(units)
    return []


# checks whose proof units establish the callee contracts applied here (re-verified by this check, see main.dependency_units)
DEPENDENCIES = ['C04', 'C05', 'C12']


def adjudicate(failed, undecided, obligations, extra):
    """The property asks for decoding to be a pure FUNCTION: the result must not depend on what was decoded before.  The
    proof obligation is a sufficient condition - no store to any object that existed before the call.  Code that keeps
    state (a cache) fails it whether or not the state can ever change a result.  So when the only failures are stores,
    the bounded witness search decides: a pair of frames whose second decode differs from the pristine one is a
    violation with an input; no such pair found means the proof does not go through - undecided, not a violation."""
    from pyvc.engine import adjudicate_stores
    adjudicate_stores("C01", failed, undecided, obligations, extra,
                      "the bounded search over ordered pairs of frames found no decode that depends on an earlier one")


# ----------------------------------------------------------------------------- bounded stand-in for "every order of decoding"
# The purity obligation above (no store to pre-existing state on any path) is the proof of order independence.  When a
# change makes decoding keep state (a cache, a lazily filled table) that obligation fails without an input to show; this
# bounded native check then looks for an actual witness: a frame whose decoding, AFTER another frame was decoded, differs
# from its decoding in a pristine process.  Labelled bounded; it adds nothing when the proof goes through.
def _pool():
    datas = [0x0000, 0x0105, 0x01FE, 0xA100, 0xA300, 0xC106, 0xC108, 0xFF90, 0xFE30, 0x01E0, 0x03E3, 0xC100, 0xBD00,
             0x01FE30, 0xC10030, 0xC10400, 0xC10401, 0xFFFE90, 0x028413, 0x0A8001, 0x0A0401, 0x8F0012, 0xBF1234,
             0x1FE30, 0x105, 0x7FFFFF, 0xFFFFFF, 0xFFFF, 0x1, 0xC1, 0xC10A01, 0xC10A33]
    out = []
    for bits in (8, 9, 15, 16, 17, 23, 24, 25, 32):
        for d in datas:
            if d < (1 << bits):
                out.append((bits, d))
    return out


def _describe(cmd, bits, data):
    fr = cmd.frame
    try:
        txt = str(cmd)
    except Exception as e:      # noqa: BLE001
        txt = "str raised %s" % type(e).__name__
    return (type(cmd).__module__ + "." + type(cmd).__name__, len(fr), fr.as_integer, txt)


def _pristine(job):
    """decode each frame of the chunk in a process that has decoded nothing else: fork per frame"""
    import os
    import pickle
    out = []
    for bits, data, dt in job:
        r, w = os.pipe()
        pid = os.fork()
        if pid == 0:
            try:
                res = _describe(C.Command.from_frame(F.ForwardFrame(bits, data), devicetype=dt), bits, data)
            except Exception as e:      # noqa: BLE001
                res = ("raised", type(e).__name__, str(e), "")
            os.write(w, pickle.dumps(res))
            os._exit(0)
        os.close(w)
        buf = b""
        while True:
            chunk = os.read(r, 65536)
            if not chunk:
                break
            buf += chunk
        os.close(r)
        os.waitpid(pid, 0)
        out.append(((bits, data, dt), pickle.loads(buf)))
    return out


def _after_others(job):
    """in a fresh forked worker: decode g, then f, compare f with its pristine description"""
    firsts, seconds, want = job
    bad = []
    n = 0
    for g in firsts:
        try:
            C.Command.from_frame(F.ForwardFrame(g[0], g[1]), devicetype=g[2])
        except Exception:       # noqa: BLE001
            pass
        for f in seconds:
            n += 1
            try:
                got = _describe(C.Command.from_frame(F.ForwardFrame(f[0], f[1]), devicetype=f[2]), f[0], f[1])
            except Exception as e:      # noqa: BLE001
                got = ("raised", type(e).__name__, str(e), "")
            if got != want[f]:
                bad.append((g, f, got, want[f]))
                if len(bad) > 20:
                    return n, bad
    return n, bad


def extra_checks(tier, seed):
    import multiprocessing as mp
    import time
    t0 = time.time()
    pool_frames = [(b, d, dt) for (b, d) in _pool() for dt in ((0, 6, 8) if b in (16, 24) else (0,))]
    ctx = mp.get_context("fork")
    with ctx.Pool(16, maxtasksperchild=1) as pool:
        chunks = [pool_frames[i::16] for i in range(16)]
        want = {}
        for part in pool.map(_pristine, chunks):
            want.update(dict(part))
    bad_first = [(f, w) for f, w in want.items() if w[0] == "raised" or w[1] != f[0] or w[2] != f[1]]
    with ctx.Pool(16, maxtasksperchild=1) as pool:
        jobs = [(pool_frames[i::32], pool_frames, want) for i in range(32)]
        n = 0
        bad = []
        for k, b in pool.imap_unordered(_after_others, jobs):
            n += k
            bad.extend(b)
    out = []
    if bad_first:
        f, w = bad_first[0]
        out.append({"name": "C01/bounded/pool-frames-decode-in-a-pristine-process", "status": "failed", "cases": len(want),
                    "kind": "bounded-native", "seconds": time.time() - t0,
                    "detail": "ForwardFrame(%d, %#x) devicetype=%d decoded alone gives %r" % (f[0], f[1], f[2], w),
                    "witness": {"frame": list(f), "decoded": list(w)}, "replay": {"frame": list(f), "decoded": list(w)}})
    if bad:
        bad.sort(key=repr)
        g, f, got, w = bad[0]
        out.append({"name": "C01/bounded/decoding-does-not-depend-on-what-was-decoded-before", "status": "failed", "cases": n,
                    "kind": "bounded-native", "seconds": time.time() - t0,
                    "detail": "after decoding ForwardFrame(%d, %#x) [devicetype %d], ForwardFrame(%d, %#x) [devicetype %d] decodes to %r; "
                              "in a pristine process it decodes to %r (%d such pairs)" % (g[0], g[1], g[2], f[0], f[1], f[2], got, w, len(bad)),
                    "witness": {"first": list(g), "then": list(f), "decoded": list(got), "pristine": list(w)},
                    "replay": {"how": "Command.from_frame on the real code, the two frames in this order in one process",
                               "first": list(g), "then": list(f), "decoded": list(got), "pristine": list(w)}})
    else:
        out.append({"name": "C01/bounded/decoding-does-not-depend-on-what-was-decoded-before", "status": "discharged",
                    "cases": n, "kind": "bounded-native", "seconds": time.time() - t0,
                    "detail": "%d ordered pairs from a pool of %d frames (lengths 8,9,15,16,17,23,24,25,32; device types 0,6,8): the "
                              "second decode equals the decode of the same frame in a pristine (forked) process" % (n, len(pool_frames))})
    return out

META = {
    "level": "proof",
    "bounds": {"16-bit": "all 2^16 data words x any int device type (symbolic)",
               "24-bit": "all 2^24 data words, no map; all event frames under a map resolving to None or to any int",
               "other lengths": "1..64 symbolic",
               "order of decoding (BOUNDED stand-in next to the purity proof)": "ordered pairs from a pool of ~330 frames "
               "(lengths 8..32 around the two command lengths, device types 0/6/8): second decode == pristine decode"},
    "assumptions": [
        "Frame, Address and Instance operations are used through their contracts (C05, C04)",
        "the instance-type map is abstracted by the contract of DeviceInstanceTypeMapper.get_type: an arbitrary but fixed "
        "answer (None or any int); the dictionary lookup itself is verified under C12",
        "purity: no store to any object that existed before the call (input frame, map, class registries) on any path; "
        "together with the absence of reads from mutable module state this gives determinism / order independence",
        "text rendering is proved total, its content is not specified",
    ],
    "undecided_clauses": ["frames longer than 64 bits"],
    "trusted_base": ["contracts/frame.py", "contracts/address.py", "contracts/helpers.py"],
}
