"""C08 - Gear query/set sequences report and establish exactly the gear's state."""
from pyvc.engine import Unit
from pyvc.spec import And, Or, Not, ite, Implies, is_instance, type_of
from pyvc.seq import Harness
from pyvc.values import SymSet, values_equal
from dali import address as A, sequences as S
from dali.gear import general as G
from dali.exceptions import DALISequenceError
import contracts.frame as CF
from contracts.units.gear102 import GroupsAndTypesUnit, AdversarialAnswers
from checks.c01 import USE
from checks.c04 import sym_addr

MAXTYPES = 8


def short_dests():
    return [("GearShort", lambda ctx: sym_addr(ctx, A.GearShort, "d")), ("int", lambda ctx: ctx.int("dnum", 0, 63))]


def other_dests():
    return [("GearGroup", lambda ctx: sym_addr(ctx, A.GearGroup, "d")), ("GearBroadcast", lambda ctx: sym_addr(ctx, A.GearBroadcast, "d"))]


def sym_set16(ctx, p="req"):
    if ctx.native:
        return {i for i in range(16) if ctx.bool("%s%d" % (p, i))}
    return SymSet({i: ctx.bool("%s%d" % (p, i)) for i in range(16)})


def mask_of(st):
    """16-bit mask of a set over 0..15"""
    m = 0
    if isinstance(st, SymSet):
        for e, c in st.mem.items():
            m = m | ite(c, 1 << e, 0)
        return m
    for e in st:
        m |= 1 << e
    return m


def popcount16(x):
    n = 0
    for i in range(16):
        n = n + ((x >> i) & 1)
    return n


def is_seq_error(out):
    return out[0] == "raise" and issubclass(out[1], DALISequenceError)


# ----------------------------------------------------------------------------- QueryDeviceTypes against any answer stream
QDT = "dali.sequences:QueryDeviceTypes"
from pyvc.loops import LoopSpec             # noqa: E402
from pyvc.models import SymList             # noqa: E402
from pyvc import sym                        # noqa: E402
anyst = {}


class EndlessAdversary:
    """a unit that answers every query with an arbitrary value, silence or a framing error - for ever"""

    def __init__(self, ctx):
        self.ctx = ctx
        self.n = 0

    def step(self, cmd):
        if cmd.response is None:
            return None
        self.n += 1
        c = self.ctx
        kind = c.choose_int(c.fresh_int("adv_kind", 0, 2), "answer kind")
        val = c.fresh_int("adv_val", 0, 255)
        if kind == 1:
            return None
        if kind == 2:
            return ("garbled", val)
        return val


def _len(lst):
    return lst.total() if isinstance(lst, SymList) else len(lst)


def _elem(lst, j):
    """element j of a list (plain or of symbolic length); j is within range by the caller's hypothesis"""
    if isinstance(lst, SymList):
        v = lst.elem_fn(j)[1]
        for i, x in enumerate(lst.appended):
            v = ite(j == lst.length + i, x, v)
        return v
    v = 0
    for i, x in enumerate(lst):
        v = ite(j == i, x, v)
    return v


def _ascending(lst, bound=None):
    """for the two arbitrary (skolem) positions I < J: 0 <= lst[I] < lst[J] (<= bound)"""
    i, j = anyst["I"], anyst["J"]
    n = _len(lst)
    a, b = _elem(lst, i), _elem(lst, j)
    conds = [Implies(And(i >= 0, i < n), And(a >= 0, a <= 255)),
             Implies(And(i >= 0, i < j, j < n), a < b)]
    if bound is not None:
        conds.append(Implies(And(i >= 0, i < n), a <= bound))
        conds.append(Implies(And(j >= 0, j < n), b <= bound))
    return And(conds)


# the two loop-carried locals, by what they hold when the loop is entered (names are incidental)
ANY_ROLES = {"last": ("last_seen", lambda v: isinstance(v, int) and not isinstance(v, bool) and v == -1),
             "acc": ("result", lambda v: isinstance(v, list) and v == [])}


def any_inv(lc):
    env, it = lc.env, lc.interp
    last = lc.get("last")
    res = lc.get("acc")
    n = _len(res)
    return {"last-seen-in-range": And(last >= -1, last <= 255),
            "empty-exactly-when-nothing-was-accepted": (n == 0) == (last == -1),
            "accepted-types-ascending-and-bounded-by-the-last-one": _ascending(res, last),
            "length-bounded": And(n >= 0, n <= last + 1)}


def any_havoc(lc):
    ctx = lc.ctx
    vi, vj = ctx.fresh_int("res_I", 0, 255), ctx.fresh_int("res_J", 0, 255)

    def elem_fn(j):
        return False, ite(j == anyst["I"], vi, ite(j == anyst["J"], vj, ctx.fresh_int("res_other", 0, 255)))
    lc.set("acc", SymList(ctx.fresh_int("res_len", 0, 256), elem_fn))
    lc.set("last", ctx.fresh_int("last_seen", -1, 255))


def any_variant(lc):
    return 255 - lc.get("last")


def r_any_stream(ctx, interp, fn):
    if getattr(ctx, "native", False):
        return      # loop-rule states are not executions; the finite-prefix units above replay natively
    anyst.clear()
    anyst.update(I=ctx.int("I", 0, 300), J=ctx.int("J", 0, 300))
    u = EndlessAdversary(ctx)
    h = Harness(ctx, interp, u)
    out = h.run(S.QueryDeviceTypes, sym_addr(ctx, A.GearShort, "d"))
    ctx.cover()
    ctx.prove("error-or-data", out[0] == "return" or is_seq_error(out), detail="outcome %r" % (out[:2],))
    if out[0] != "return":
        return
    res = out[1]
    ctx.prove("returned-types-strictly-ascending-whatever-the-length", _ascending(res))
    ctx.prove("at-most-256-types", _len(res) <= 256)


def units(tier):
    CF.WMAX = 64
    U = []

    def unit(name, runner, **kw):
        U.append(Unit("C08/" + name, "C08", None, None, use=USE, width=72, kind="custom", runner=runner,
                      max_paths=100000, **kw))

    # ------------------------------------------------------------ device types, conforming unit
    for dname, dmk in short_dests():
        for n in range(0, (MAXTYPES if tier != "thorough" else 12) + 1):
            def r_types(ctx, interp, fn, dmk=dmk, n=n):
                u = GroupsAndTypesUnit(ctx, ntypes=n)
                want = list(u.types)
                h = Harness(ctx, interp, u)
                out = h.run(S.QueryDeviceTypes, dmk(ctx))
                ctx.cover()
                ctx.prove("returns-the-list", out[0] == "return",
                          detail="outcome %s for a unit with %d device types" % (out[1].__name__ if out[0] == "raise" else out[0], n))
                if out[0] == "return":
                    ctx.prove("exactly-the-units-device-types", values_equal(out[1], want))
                ctx.prove("bounded-number-of-commands", len(h.trace) <= n + 2)
            unit("device-types/%s/n=%d" % (dname, n), r_types)

        # one fault (silence or framing error) at any step
        for n in (0, 1, 3):
            def r_types_fault(ctx, interp, fn, dmk=dmk, n=n):
                u = GroupsAndTypesUnit(ctx, ntypes=n)
                h = Harness(ctx, interp, u, fault_budget=1)
                out = h.run(S.QueryDeviceTypes, dmk(ctx))
                ctx.cover()
                if h.faults:
                    ctx.prove("silent-or-garbled-answer-gives-DALISequenceError", is_seq_error(out),
                              detail="outcome %r with fault %r" % (out[:2], h.faults))
            unit("device-types-fault/%s/n=%d" % (dname, n), r_types_fault)

    # ------------------------------------------------------------ device types, adversarial unit
    for length in range(1, 6 if tier != "thorough" else 8):
        def r_adv(ctx, interp, fn, length=length):
            u = AdversarialAnswers(ctx, length, tail=254)
            h = Harness(ctx, interp, u)
            out = h.run(S.QueryDeviceTypes, sym_addr(ctx, A.GearShort, "d"))
            ctx.cover()
            ctx.prove("terminates-within-bound", len(h.trace) <= length + 1)
            ctx.prove("error-or-data", out[0] == "return" or is_seq_error(out),
                      detail="outcome %r" % (out[:2],))
            if out[0] != "return":
                return
            given = u.given
            # returned data must be what a conforming unit could have said: only clean answers were used,
            first = given[0]
            ok_clean = And([k == 0 for k, v in given])
            ctx.prove("never-returns-data-after-silence-or-framing-error", ok_clean,
                      detail="answers %r, returned %r" % (given, out[1]))
            res = out[1]
            ctx.prove("returned-types-are-answers-given", And([And(x >= 0, x <= 255) for x in res]))
            ctx.prove("returned-types-strictly-ascending", And([res[i] < res[i + 1] for i in range(len(res) - 1)]),
                      detail="answers %r, returned %r" % (given, res))
        unit("device-types-adversarial/len=%d" % length, r_adv)

    # ------------------------------------------------------------ device types against ANY answer stream (loop rule):
    # termination by a variant and "what is returned is strictly ascending" for streams of any length
    unit("device-types-any-stream", r_any_stream, loops={(QDT, 0): LoopSpec("next-type", any_inv, any_havoc, variant=any_variant, roles=ANY_ROLES,
                                                                 anchor=("QueryNextDeviceType",))})

    # ------------------------------------------------------------ groups
    for dname, dmk in short_dests() + other_dests():
        def r_groups(ctx, interp, fn, dmk=dmk):
            u = GroupsAndTypesUnit(ctx)
            mask = u.groups
            h = Harness(ctx, interp, u)
            out = h.run(S.QueryGroups, dmk(ctx))
            ctx.cover()
            ctx.prove("returns-a-set", out[0] == "return" and isinstance(out[1], (set, SymSet)))
            if out[0] == "return" and isinstance(out[1], (set, SymSet)):
                ctx.prove("exactly-the-group-membership", mask_of(out[1]) == mask)
            ctx.prove("two-commands", len(h.trace) == 2)
            ctx.prove("unit-unchanged", u.groups == mask)
        unit("query-groups/" + dname, r_groups)

    def r_groups_fault(ctx, interp, fn):
        u = GroupsAndTypesUnit(ctx)
        h = Harness(ctx, interp, u, fault_budget=1)
        out = h.run(S.QueryGroups, sym_addr(ctx, A.GearShort, "d"))
        ctx.cover()
        if h.faults:
            ctx.prove("silent-or-garbled-answer-gives-DALISequenceError", is_seq_error(out))
            ctx.prove("bounded", len(h.trace) <= 2)
    unit("query-groups-fault", r_groups_fault)

    for dname, dmk in short_dests():
        def r_set(ctx, interp, fn, dmk=dmk):
            u = GroupsAndTypesUnit(ctx)
            before = u.groups
            req = sym_set16(ctx)
            h = Harness(ctx, interp, u)
            out = h.run(S.SetGroups, dmk(ctx), req)
            ctx.cover()
            ctx.prove("returns-normally", out[0] == "return", detail="outcome %r" % (out[:2],))
            ctx.prove("membership-equals-request", u.groups == mask_of(req))
            # per group: ADD is yielded exactly when requested and absent, REMOVE exactly when present and not requested
            entries = [(True, c) for c in h.trace if type_of(c) in (G.AddToGroup, G.RemoveFromGroup)] + \
                [(g, c) for g, c in h.ctrace]
            per = {}
            concrete = True
            for g, c in entries:
                p_ = c.param
                if not isinstance(p_, int):
                    concrete = False
                    continue
                per.setdefault((type_of(c), p_), []).append(g)
            ctx.prove("changes-name-concrete-groups", concrete)
            ctx.prove("at-most-one-add-and-one-remove-per-group", all(len(v) == 1 for v in per.values()))
            reqm = mask_of(req)
            for i in range(16):
                cur_i = ((before >> i) & 1) == 1
                req_i = ((reqm >> i) & 1) == 1
                add = Or(per.get((G.AddToGroup, i), [False]))
                rem = Or(per.get((G.RemoveFromGroup, i), [False]))
                ctx.prove("only-the-necessary-changes/add", add == And(req_i, Not(cur_i)))
                ctx.prove("only-the-necessary-changes/remove", rem == And(cur_i, Not(req_i)))
            ctx.prove("only-expected-commands", len(u.unexpected) == 0)
        unit("set-groups/" + dname, r_set)

        def r_set_fault(ctx, interp, fn, dmk=dmk):
            u = GroupsAndTypesUnit(ctx)
            before = u.groups
            req = sym_set16(ctx)
            h = Harness(ctx, interp, u, fault_budget=1)
            out = h.run(S.SetGroups, dmk(ctx), req)
            ctx.cover()
            if h.faults:
                ctx.prove("unreadable-state-gives-DALISequenceError", is_seq_error(out))
                ctx.prove("nothing-changed", u.groups == before)
        unit("set-groups-fault/" + dname, r_set_fault)

    for dname, dmk in other_dests():
        def r_set_all(ctx, interp, fn, dmk=dmk):
            u = GroupsAndTypesUnit(ctx)
            req = sym_set16(ctx)
            h = Harness(ctx, interp, u)
            out = h.run(S.SetGroups, dmk(ctx), req)
            ctx.cover()
            ctx.prove("returns-normally", out[0] == "return", detail="outcome %r" % (out[:2],))
            ctx.prove("membership-equals-request", u.groups == mask_of(req))
            ctx.prove("sixteen-commands", h.count(G.AddToGroup, G.RemoveFromGroup) == 16)
        unit("set-groups/" + dname, r_set_all)
    return U


# checks whose proof units establish the callee contracts applied here (re-verified by this check, see main.dependency_units)
DEPENDENCIES = ['C04', 'C05']

META = {
    "level": "proof",
    "bounds": {"device-type lists": "every ascending list over 0..253 of length 0..8 (length enumerated, values symbolic)",
               "adversarial answer streams (any length)": "every infinite stream of arbitrary answers (value / silence / framing error): "
               "termination and ascending order by the loop rule", "adversarial answer streams (exact data)": "every stream of 1..5 arbitrary answers (any value 0..255 / silence / framing "
               "error, symbolic) followed by 254 for ever",
               "groups": "all 2^16 current masks x all 2^16 requested sets (symbolic bits), short/int/group/broadcast destinations",
               "faults": "one silence or framing error at any step"},
    "assumptions": [
        "ASSUMED unit contract contracts/units/gear102.py (groups, QUERY DEVICE TYPE / QUERY NEXT DEVICE TYPE protocol)",
        "conditional yields inside the group loops are merged by if-conversion (unit state := ite(cond, after, before)); "
        "the number of changes is the sum of the yield conditions",
        "QueryDeviceTypes against answer streams of ANY length: loop rule with the variant 255 - last_seen (termination) and a "
        "skolemised invariant (what is accepted is strictly ascending and bounded by the last accepted type)",
    ],
    "undecided_clauses": [],
    "trusted_base": ["contracts/units/gear102.py", "pyvc/seq.py"],
}
