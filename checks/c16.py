"""C16 - Drivers pair each command with its own answer, typed by the command (sequential part)."""
import logging
import time
from pyvc.engine import Unit
from pyvc.spec import And, Or, Not, ite, Implies, is_instance, type_of
from pyvc.path import RaiseEx, PathEnd
from pyvc.values import SBytes, values_equal, SObj
from pyvc.models import AssocDict
from pyvc.aio import World, install, MQueue, MEvent
from pyvc import sym
from dali import frame as F, command as C
from dali.exceptions import CommunicationError
from dali.driver import hid as HID, serial as SER
import contracts.frame as CF
import contracts.command as CC
from specs import gateways as GW
from checks.c01 import USE as USE0
from checks.drv_common import Attrs, FLAG_VARIANTS, abstract_command, bytes_equal
from checks.c19 import luba_proto, sci_proto, q_items, LUBA, SCI, LS, SS

USE = USE0


def check_response(ctx, interp, out, rc, expect, label=""):
    """expect: ("none",) for a command without answer | ("silent",) | ("value", v) | ("garbled", v-or-None)"""
    if rc is None:
        ctx.prove(label + "no-answer-expected-returns-none", out[0] == "return" and out[1] is None, detail="outcome %r" % (out[:2],))
        return
    ok = out[0] == "return" and out[1] is not None and type_of(out[1]) is rc
    ctx.prove(label + "result-is-the-commands-own-response-type", ok,
              detail="outcome %s" % (("%s %s" % (out[0], type_of(out[1]).__name__ if out[0] == "return" and out[1] is not None else out[1:2]))))
    if not ok:
        return
    raw = interp.get_attr(out[1], "raw_value")
    if expect[0] == "silent":
        ctx.prove(label + "silent-bus-wraps-nothing", raw is None)
    elif expect[0] == "value":
        ok2 = raw is not None and type_of(raw) is F.BackwardFrame
        ctx.prove(label + "answer-wraps-a-clean-backward-frame", ok2)
        if ok2:
            ctx.prove(label + "answer-carries-the-reported-value", And(raw._data == expect[1], Not(raw._error)))
    elif expect[0] == "garbled":
        ctx.prove(label + "garbled-answer-wraps-a-framing-error-frame", raw is not None and is_instance(raw, F.BackwardFrameError))


def mk_report(ctx, data):
    return bytes(data) if ctx.native else SBytes(data)


def entries(mapping):
    """(key, value) pairs of the driver's in-flight table (association list symbolically, dict natively)"""
    return list(mapping.live_entries()) if hasattr(mapping, "live_entries") else list(mapping.items())


def has_key(interp, mapping, key):
    return mapping.lookup(interp, key)[0] if hasattr(mapping, "lookup") else key in mapping


def serial_send_units(prop):
    """LUBA / SCI send(): what the caller gets back for every outcome on the wire.  Shared by C16 (pairing and typing)
    and C18 (the gateway's packets decode to the backward frame / no answer they denote)."""
    U = []

    def unit(name, runner, **kw):
        U.append(Unit(prop + "/" + name, prop, None, None, use=USE, width=72, kind="custom", runner=runner,
                      max_paths=200000, **kw))
    # ------------------------------------------------------------ LUBA / SCI send(): silent bus, answer, stale answers
    for gw in ("luba", "sci"):
        for vname, twice, rc in FLAG_VARIANTS:
            # (stale answers, stale information items, inside a transaction); ninfo None = as many as stale answers.  The
            # last four rows are the flush's second half on its own: leftover confirmations / error reports (a 'DALI
            # receive error' that arrived after the confirmation was consumed) while NO answer is left over
            rows = [(0, None, False), (1, None, False), (2, None, False), (1, None, True), (2, None, True)]
            if gw == "sci":
                rows += [(0, 1, False), (0, 2, False), (0, 1, True), (0, 2, True)]
            for nstale, ninfo, in_tx in rows:
                def r_ser(ctx, interp, fn, gw=gw, twice=twice, rc=rc, nstale=nstale, ninfo=ninfo, in_tx=in_tx):
                    world = World(ctx, interp)
                    install(interp, world)
                    cmd, fr = abstract_command(ctx, 16, twice, rc)
                    stale = [ctx.int("stale%d" % i, 0, 255) for i in range(nstale)]
                    answer = ctx.int("answer", 0, 255)
                    answered = ctx.bool("unit_answers")
                    if gw == "luba":
                        proto, kids = luba_proto(ctx, world, LS.WAIT_START, [None] * 24, None, 0)
                        PSET = Attrs(interp, proto)
                        PSET["_tx_lock"] = world.lock("tx")
                        PSET["transport"] = world.transport()
                        PSET["_queue_tx_conf"] = world.queue(
                            "txconf", provider=lambda q: q.items.append(LUBA.LubaMsgTxConf(tx_id=ctx.fresh_int("txid", 0, 255), message=None)))
                        drvcls, send = SER.DriverLubaRs232, SER.DriverLubaRs232.send
                    else:
                        proto, kids = sci_proto(ctx, world, SS.WAIT_STATUS, [None] * 5)
                        PSET = Attrs(interp, proto)
                        PSET["_tx_lock"] = world.lock("tx")
                        PSET["transport"] = world.transport()
                        PSET["_device_settings"] = SER.DriverSCIRS232.SCIRS232DeviceSettings(True, False, True)
                        provided = []

                        def gateway_confirms(q):
                            # the gateway's confirmation of THIS command: it exists only after the command was written
                            provided.append(len(world.writes))
                            q.items.append(SER.DriverSCIRS232.SCIRS232DeviceReply(id=ctx.fresh_int("id", 0, 15), code=0))
                        PSET["_queue_rx_info"] = world.queue(
                            "info", items=[SER.DriverSCIRS232.SCIRS232DeviceReply(id=0, code=0 if ninfo is None else 7)
                                           for _ in range(nstale if ninfo is None else ninfo)],
                            provider=gateway_confirms)
                        drvcls, send = SER.DriverSCIRS232, SER.DriverSCIRS232.send
                    rawq = PSET["_queue_rx_raw_dali"]
                    rawq.items.extend(stale)

                    def bus_answers(q):
                        # the unit's answer to THIS command arrives after the command was written
                        if world.writes and interp.test(answered) and not getattr(q, "_answered", False):
                            q._answered = True
                            q.items.append(answer)
                    rawq.provider = bus_answers
                    tlock = world.lock("transaction")
                    tlock.held = in_tx      # inside a sequence the caller (run_sequence) already holds the transaction lock
                    drv = ctx.new(drvcls, _connected=world.event(True, "connected"), transaction_lock=tlock,
                                  _protocol=proto)
                    out = world.run(send, drv, cmd, in_transaction=in_tx)
                    if out[0] == "blocked":
                        return
                    ctx.cover()
                    timeouts = [e for e in world.log if e[0] == "wait_for"]
                    if out[0] == "raise":
                        # a confirmation / connection timeout is the documented failure mode
                        ctx.prove("only-timeouts-raise", out[1].__name__ in ("TimeoutError",), detail="raised %s at %s" % (out[1].__name__, out[3]))
                        return
                    if gw == "sci":
                        # pairing of the transmit confirmation (the answer window opens at the confirmation): what send
                        # consumed as its confirmation is the gateway's report for this command, not a leftover one
                        left = PSET["_queue_rx_info"].items
                        ctx.prove("transmit-confirmation-is-this-commands-own-not-a-leftover-report",
                                  len(provided) == 1 and provided[0] >= 1 and not left,
                                  detail="leftover information items before the command: %d; confirmations taken from the gateway "
                                         "after the write: %d; items still queued afterwards: %d"
                                         % (nstale if ninfo is None else ninfo, len(provided), len(left)))
                    if rc is None:
                        check_response(ctx, interp, out, rc, None)
                        return
                    ok = out[1] is not None and type_of(out[1]) is rc
                    ctx.prove("result-is-the-commands-own-response-type", ok,
                              detail="returned %s for a command whose response class is %s" % (type_of(out[1]).__name__ if out[1] is not None else None, rc.__name__))
                    if not ok:
                        return
                    raw = interp.get_attr(out[1], "raw_value")
                    if raw is None:
                        # 'nothing' is right only if the unit stayed silent or the driver stopped waiting (a time-out)
                        ctx.prove("an-answer-that-arrived-in-time-is-not-reported-as-silence",
                                  Or(Not(answered), world.timeouts > 0),
                                  detail="the unit answered 0x%s and no wait timed out, yet the result wraps nothing" % (answer,))
                        return
                    ctx.prove("answer-is-this-commands-own-never-a-stale-one", And(answered, raw._data == answer),
                              detail="stale answers queued before the command: %d" % nstale)
                unit("%s/send/%s/stale=%d%s%s" % (gw, vname, nstale, "" if ninfo is None else "/leftover-info=%d" % ninfo,
                                                  "/in-transaction" if in_tx else ""), r_ser)

    return U


REPORT_BOUND = {"n": 4}
_building_for_c18 = False


def units(tier):
    CF.WMAX = 64
    REPORT_BOUND["n"] = 6 if tier == "thorough" else 4
    U = []

    def unit(name, runner, **kw):
        U.append(Unit("C16/" + name, "C16", None, None, use=USE, width=72, kind="custom", runner=runner,
                      max_paths=200000, **kw))

    # ------------------------------------------------------------ Tridonic HID: reports -> response
    for vname, twice, rc in FLAG_VARIANTS:
      for burst_mode in (None, "first") if tier != "thorough" else (None, "any"):
        def r_tri(ctx, interp, fn, twice=twice, rc=rc, burst_mode=burst_mode):
            world = World(ctx, interp)
            install(interp, world)
            cmd, fr = abstract_command(ctx, 16 if ctx.bool("is16") else 24, twice, rc)
            seq = ctx.int("seq", 1, 255)
            outstanding = world.mapping()
            drv = ctx.new(HID.tridonic, _log=logging.getLogger("x"), connected=world.event(True, "connected"),
                          _command_semaphore=world.semaphore(2), _cmd_seq=world.seq_source(seq), _outstanding=outstanding, _f=7)
            delivered = []
            plan = []

            def report(kind):
                """a well-formed MODE_RESPONSE report for this command's sequence number"""
                v = ctx.fresh_int("answer", 0, 255)
                if kind == "sent":
                    body = [0x12, GW.TRIDONIC_DALI16 if fr._bits == 16 else GW.TRIDONIC_DALI24, 0, 0, 0, 0]
                elif kind == "value":
                    body = [0x12, GW.TRIDONIC_DALI8, 0, 0, 0, v]
                elif kind == "silent":
                    body = [0x12, GW.TRIDONIC_NO_FRAME, 0, 0, 0, 0]
                else:
                    body = [0x12, GW.TRIDONIC_INFO, 0, 0, 0, GW.TRIDONIC_STATUS_FRAMING_ERROR]
                data = body + [0, 0, seq] + [0] * 55
                return (kind, v), (bytes(data) if ctx.native else SBytes(data))

            lost_wakeups = []
            bursts = []

            def env(event):
                targets = [msgs for key, (ev, msgs) in entries(outstanding) if ev is event]
                if any(len(m) > 0 for m in targets):
                    # the sender goes to sleep although a report for it is already queued: it may never be woken again
                    lost_wakeups.append(len(delivered))
                # reports per send: REPORT_BOUND without bursts; 3 with one burst at the start (quick); with a burst allowed at
                # every hand-over (thorough) two fewer than the plain bound, plus the second report of a last burst - the path count grows ~5x per report, and
                # the obligations are re-checked by cvc5 one by one in that tier
                cap = 3 if burst_mode == "first" else (REPORT_BOUND["n"] - 2 if burst_mode == "any" else REPORT_BOUND["n"])
                if len(delivered) >= cap or not targets:
                    return
                # the reader may hand over one report, or two at once (both were already waiting in the device file)
                burst = 1
                if burst_mode == "first" and not bursts:
                    burst = 2
                    bursts.append(0)
                elif burst_mode == "any":
                    if ctx.fresh_bool("burst") if ctx.native else ctx.fork(ctx.fresh_bool("burst").e):
                        burst = 2
                for _ in range(burst):
                    if len(delivered) >= cap + (1 if burst_mode == "any" else 0):
                        break
                    k = ctx.choose_int(ctx.fresh_int("report_kind", 0, 4), "report kind")
                    echoes = len([d for d in delivered if d[0] == "sent"])
                    if k == 0 and echoes >= (2 if twice else 1):
                        ctx.assume(False)       # a conforming gateway echoes each transmission once
                    if k == 4:
                        item = ("fail", None), "fail"
                    else:
                        item = report(["sent", "value", "silent", "garbled"][k])
                    delivered.append(item[0])
                    for msgs in targets:
                        msgs.append(item[1])
                event.flag = True
            world.hooks["event"] = env
            out = world.run(HID.tridonic._send_raw, drv, cmd)
            ctx.prove("never-sleeps-while-a-report-for-it-is-queued", len(lost_wakeups) == 0,
                      detail="after %r reports the sender waited with a report still queued (lost wake-up: it can hang "
                             "holding the transaction lock)" % (lost_wakeups[:1],))
            if out[0] == "blocked":
                return
            ctx.cover()
            # the reports the driver has to act on: those up to the point where the exchange is complete (every
            # transmission echoed and one outcome seen) or the gateway is lost; later ones of the same burst are left over
            need, have_answer, used = (2 if twice else 1), False, []
            for d in delivered:
                if need <= 0 and have_answer:
                    break
                used.append(d)
                if d[0] == "fail":
                    break
                if d[0] == "sent":
                    need -= 1
                else:
                    have_answer = True
            delivered = used
            kinds = [d[0] for d in delivered]
            if "fail" in kinds:
                ctx.prove("lost-gateway-gives-CommunicationError", out[0] == "raise" and issubclass(out[1], CommunicationError),
                          detail="delivered %r outcome %r" % (kinds, out[:4]))
                return
            ctx.prove("never-raises-on-well-formed-reports", out[0] == "return", detail="outcome %r" % (out[:3],))
            answers = [d for d in delivered if d[0] in ("value", "silent", "garbled")]
            sent = len([d for d in delivered if d[0] == "sent"])
            ctx.prove("waits-for-every-transmission-and-an-outcome", And(sent >= (2 if twice else 1), len(answers) >= 1))
            if not answers:
                return
            last = answers[-1]
            expect = {"value": ("value", last[1]), "silent": ("silent",), "garbled": ("garbled", None)}[last[0]]
            check_response(ctx, interp, out, rc, expect)
            ctx.prove("in-flight-slot-released", not has_key(interp, outstanding, seq))
        unit("tridonic/_send_raw/%s%s" % (vname, "/burst" if burst_mode else ""), r_tri)

    # routing of reports by sequence number
    def r_route(ctx, interp, fn):
        world = World(ctx, interp)
        install(interp, world)
        s1, s2, s = ctx.int("seq1", 1, 255), ctx.int("seq2", 1, 255), ctx.int("report_seq", 0, 255)
        ctx.assume(s1 != s2)
        e1, e2 = world.event(False, "e1"), world.event(False, "e2")
        m1, m2 = ctx.track([]), ctx.track([])
        outstanding = {s1: (e1, m1), s2: (e2, m2)} if ctx.native else AssocDict([(s1, (e1, m1)), (s2, (e2, m2))])
        mode = ctx.int("mode", 0, 255)
        body = [mode] + [ctx.int("r%d" % i, 0, 255) for i in range(1, 8)] + [s] + [0] * 55
        data = bytes(body) if ctx.native else SBytes(body)
        drv = ctx.new(HID.tridonic, _log=logging.getLogger("x"), _outstanding=outstanding, _bus_watch_data=ctx.track([]),
                      _bus_watch_data_available=world.event(False, "watch"), firmware_version="1.0", serial="00")
        try:
            interp.call(interp.get_attr(drv, "_handle_read"), (data,), {})
        except RaiseEx as e:
            ctx.fail("never-raises:%s" % e.cls.__name__, detail="at %s" % e.where)
            return
        ctx.cover()
        is_rsp = mode == GW.TRIDONIC_MODE_RESPONSE
        ctx.prove("report-goes-to-the-command-with-its-sequence-number",
                  And(Implies(And(is_rsp, s == s1), len(m1) == 1), Implies(And(is_rsp, s == s2), len(m2) == 1)))
        ctx.prove("and-to-no-other-command",
                  And(Implies(Not(And(is_rsp, s == s1)), len(m1) == 0), Implies(Not(And(is_rsp, s == s2)), len(m2) == 0)))
        ctx.prove("waiter-woken-exactly-when-it-got-a-report", And(e1.flag == (len(m1) == 1), e2.flag == (len(m2) == 1)))
    unit("tridonic/_handle_read-routing", r_route)

    # ------------------------------------------------------------ hasseb HID: status byte -> response
    for vname, twice, rc in FLAG_VARIANTS:
        def r_has(ctx, interp, fn, twice=twice, rc=rc):
            world = World(ctx, interp)
            install(interp, world)
            cmd, fr = abstract_command(ctx, 16, twice, rc)
            status = ctx.int("status", 1, 3)
            value = ctx.int("value", 0, 255)
            lost = ctx.bool("gateway_lost")
            drv = ctx.new(HID.hasseb, _log=logging.getLogger("x"), connected=world.event(True, "connected"),
                          _command_lock=world.lock("command"), _response_available=world.event(False, "response"),
                          _response=mk_report(ctx, [status, value]), _f=7,
                          bus_traffic=ctx.new(HID._callback, _parent=None, _callbacks={}))

            def env(event):
                # the reader hands over the gateway's report for THIS command (or the driver is shut down)
                interp.set_attr(drv, "_response", "fail" if interp.test(lost) else mk_report(ctx, [status, value]))
                event.flag = True
            world.hooks[("event", "response")] = env
            out = world.run(HID.hasseb._send_raw, drv, cmd)
            ctx.cover()
            if rc is None:
                check_response(ctx, interp, out, rc, None)
                return
            if interp.test(lost):
                ctx.prove("lost-gateway-gives-CommunicationError", out[0] == "raise" and issubclass(out[1], CommunicationError))
                return
            ctx.prove("never-raises-on-well-formed-reports", out[0] == "return",
                      detail="outcome %r at %s" % (out[:2], out[3] if out[0] == "raise" else ""))
            if out[0] != "return":
                return
            if interp.test(status == GW.HASSEB_NO_ANSWER):
                check_response(ctx, interp, out, rc, ("silent",))
            elif interp.test(status == GW.HASSEB_OK):
                check_response(ctx, interp, out, rc, ("value", value))
            else:
                check_response(ctx, interp, out, rc, ("garbled", value))
        unit("hasseb/_send_raw/%s" % vname, r_has)

    U.extend(serial_send_units("C16"))

    # ------------------------------------------------------------ daliserver client on a persistent connection
    from checks.c18 import SockModel, real_commands, REAL_NAMES
    from dali.driver import daliserver as DS
    for name in REAL_NAMES:
        def r_ds(ctx, interp, fn, name=name):
            cmd = real_commands(ctx, interp)[name]()
            sock = SockModel(ctx)
            srv = ctx.new(DS.DaliServer, _s=sock, _target=("localhost", 1), _multiple_frames_per_connection=True)
            try:
                interp.call(interp.get_attr(srv, "send"), (cmd,), {})
            except RaiseEx:
                pass
            ctx.cover()
            # daliserver answers every request with one reply; a reply left unread on the connection would be taken for
            # the answer of the NEXT command
            ctx.prove("every-reply-is-read-before-returning", len(sock.replies) == len(sock.sent),
                      detail="%d requests sent, %d replies read" % (len(sock.sent), len(sock.replies)))
            ctx.prove("never-reads-a-reply-that-was-not-requested", sock.reads_ahead == 0)
        unit("daliserver/persistent-connection/%s" % name, r_ds)

    # ------------------------------------------------------------ daliserver: status byte -> typed response (units shared with C18)
    import checks.c18 as C18
    if _building_for_c18:
        return U
    C18._building_for_c16 = True
    try:
        c18_units = C18.units(tier)
    finally:
        C18._building_for_c16 = False
    for u18 in c18_units:
        if u18.name.startswith("C18/daliserver/send/") and "length" not in u18.name and "24-bit" not in u18.name:
            U.append(Unit("C16/" + u18.name[len("C18/"):], "C16", None, None, use=u18.use, width=72, kind="custom",
                          runner=u18.runner, max_paths=200000))
    return U


# ----------------------------------------------------------------------------- ATX LED hat (BOUNDED stand-in)
def extra_checks(tier, seed):
    """The ATX LED hat driver is line-oriented string code running under a thread lock with time.sleep: outside the
    engine.  BOUNDED, never counted as proved: the real SyncDaliHatDriver.send is run natively against a scripted serial
    port for every combination of command kind x own outcome x stale line x conflict marker listed below."""
    import itertools
    import logging
    import threading
    import time
    import unittest.mock as mock
    from dali.driver import atxled as ATX
    from dali.gear import general as G
    from dali.device import general as D
    from dali import address as A
    t0 = time.time()

    class Port:
        """serial port of the hat: lines that are already waiting when the command is written are STALE (late answers of
        an earlier command); the hat's answer to this command becomes readable only after the write"""

        def __init__(self, stale, replies):
            self.pending = list(stale)
            self.replies = [list(r) for r in replies]       # one list of lines per transmission
            self.written = []

        def write(self, data):
            self.written.append(bytes(data))
            if self.replies:
                self.pending.extend(self.replies.pop(0))

        def read_until(self, sep=b"\n"):
            return self.pending.pop(0) if self.pending else b""

        def reset_input_buffer(self):
            self.pending = []

    commands = [("query16", lambda: G.QueryActualLevel(A.Short(5))), ("yesno16", lambda: G.QueryControlGearPresent(A.Short(5))),
                ("plain16", lambda: G.Off(A.Short(5))), ("dapc", lambda: G.DAPC(A.Short(5), 128)),
                ("query24", lambda: D.QueryDeviceStatus(A.DeviceShort(3)))]
    values = [0x00, 0x55, 0xFF] if tier != "thorough" else list(range(256))
    own = [("silent", [], None)] + [("no", [b"N\n"], None)] + [("J%02X" % v, [b"J%02X\n" % v], v) for v in values]
    stale_sets = [(), (b"J33\n",), (b"N\n",), (b"J33\n", b"N\n")]
    conflicts = [(), (b"Z\n",), (b"X\n",)]
    bad = []
    n = 0
    for (cname, mk), (oname, lines, val), stale, conflict in itertools.product(commands, own, stale_sets, conflicts):
        cmd = mk()
        n += 1
        if conflict == (b"X\n",):
            replies, want_val = [[conflict[0]]], None          # X: the hat gave up; the bus outcome is 'nothing'
        elif conflict:
            replies, want_val = [[conflict[0]], lines], val    # Z: conflict, the driver sends again and gets the answer
        else:
            replies, want_val = [lines], val
        port = Port(stale, replies)
        drv = ATX.SyncDaliHatDriver.__new__(ATX.SyncDaliHatDriver)
        drv.LOG = logging.getLogger("atx-check")
        drv.LOG.disabled = True
        drv.lock = threading.RLock()
        drv.buffer = []
        drv.conn = port
        case = "%s/%s/stale=%d/conflict=%s" % (cname, oname, len(stale), conflict[0][:1].decode() if conflict else "-")
        try:
            with mock.patch.object(ATX.time, "sleep", lambda s: None):
                r = drv.send(cmd)
        except Exception as e:      # noqa: BLE001
            bad.append((case, "send raised %s: %s" % (type(e).__name__, e)))
            continue
        rc = cmd.response
        if rc is None:
            if r is not None:
                bad.append((case, "a command without answer returned %r" % (r,)))
            continue
        if type(r) is not rc:
            bad.append((case, "returned %s, expected %s" % (type(r).__name__, rc.__name__)))
            continue
        raw = r.raw_value
        if want_val is None:
            if raw is not None:
                bad.append((case, "bus outcome 'nothing' but the result wraps %r (a stale line?)" % (raw,)))
        elif raw is None or raw.error or raw.as_integer != want_val:
            bad.append((case, "own answer 0x%02X but the result wraps %r" % (want_val, raw)))
    kinds = {}
    for case, why in bad:
        k = why.split(":")[0].split(" but ")[0][:60]
        kinds.setdefault(k, []).append(case)
    out = []
    groups = [("send-never-raises", lambda w: w.startswith("send raised")),
              ("no-answer-expected-returns-none", lambda w: w.startswith("a command without answer")),
              ("result-typed-and-wraps-this-commands-own-answer", lambda w: not w.startswith(("send raised", "a command without")))]
    for name, sel in groups:
        mine = [(c, w) for c, w in bad if sel(w)]
        out.append({"name": "C16/bounded/atx-led-hat/" + name, "status": "failed" if mine else "discharged", "cases": n,
                    "kind": "bounded", "seconds": (time.time() - t0) / 3,
                    "detail": "; ".join("%s: %s" % cw for cw in mine[:4]),
                    "witness": {"first": mine[:1]}, "replay": {"failing_cases": mine[:40], "total_failing": len(mine)}})
    return out


# checks whose proof units establish the callee contracts applied here (re-verified by this check, see main.dependency_units)
DEPENDENCIES = ['C04', 'C05']
INCLUDES = ['C19']      # the serial answers reach send() through the receivers verified there

META = {
    "level": "proof",
    "bounds": {"commands": "abstract commands covering plain / send-twice / numeric / yes-no / generic answers with symbolic frames",
               "Tridonic": "every sequence of up to 4 well-formed reports (transmission echo, 8-bit value, no frame, framing "
               "error, loss of the gateway) for the command's sequence number; routing for two commands in flight",
               "hasseb": "every status byte 1..3 and value, loss of the gateway", "ATX LED hat (BOUNDED, not proved)": "5 command kinds (numeric / yes-no query, plain, DAPC, 24-bit query) x own outcome "
               "(silent, N, J00/J55/JFF; thorough: all 256) x 0..2 stale lines waiting before the command x conflict markers "
               "(none / Z / X), run natively against a scripted serial port; send-twice commands are not in the enumeration "
               "(the hat's repeat protocol could not be confirmed offline)", "LUBA/SCI": "stand-alone sends and sends inside a transaction (late answer of an earlier command of the same sequence); 0..2 stale answers queued before "
               "the command, unit answering or silent, any timeout"},
    "assumptions": [
        "asyncio / os / transport primitives through the assumed contracts of pyvc/aio.py; reports are delivered by the "
        "environment exactly while the coroutine waits (sequentialised view of the reader callback)",
        "'each caller receives the answer belonging to its own command' across concurrently running tasks rests on the "
        "routing invariant proved here plus the mutual exclusion of asyncio.Lock / Semaphore (assumed, not proved)",
        "daliserver reply decoding is proved in C18 (daliserver/send units); the ATX LED hat driver (line-oriented string "
        "code under a thread lock with sleeps: outside the engine) is decided by a BOUNDED native enumeration only, labelled as "
        "such and never counted as proved",
    ],
    "undecided_clauses": ["pairing under real concurrency (all report orderings with 1-3 callers)"],
    "trusted_base": ["pyvc/aio.py", "specs/gateways.py"],
}
