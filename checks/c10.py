"""C10 - Memory writes store exactly the data or fail loudly; never silently."""
from pyvc.engine import Unit
from pyvc.spec import And, Or, Not, ite, Implies, is_instance, type_of
from pyvc.seq import Harness
from pyvc.values import values_equal, SBytes
from pyvc.models import SText
from pyvc import sym
from dali import address as A
from dali.memory import location as L
from dali.memory.location import MemoryType
from dali.exceptions import (MemoryLocationNotWriteable, MemoryValueNotWriteable, MemoryWriteFailure, ResponseError)
import contracts.frame as CF
import contracts.memory as CM
from contracts.units.memory import MemoryUnit, WRITABLE
from checks.c01 import USE
from checks.c04 import sym_addr
from checks.c09 import addr_kinds, addressed_ok
from checks.c11 import all_values, sym_raw

WRITE_RAW = L.MemoryValue.write_raw.__func__
LOUD = (MemoryLocationNotWriteable, MemoryWriteFailure, ResponseError)


def writable(cls):
    return all(l.type_ in WRITABLE for l in cls.locations)


def lockable(cls):
    return any(l.type_ is MemoryType.NVM_RW_L for l in cls.locations)


def find_write(cls):
    for k in cls.__mro__:
        if "write" in k.__dict__:
            return k.__dict__["write"].__func__
    raise KeyError


def check_stored(ctx, u, M0, locs, data, lock_expected):
    ctx.prove("exactly-those-bytes-at-exactly-those-locations", And([u.M[l] == data[i] for i, l in enumerate(locs)]))
    ctx.prove("no-other-location-changed", And([u.M[a] == M0[a] for a in range(u.size) if a not in locs and a != 2]))
    if 2 not in locs:
        ctx.prove("lock-byte-as-required", u.M[2] == lock_expected,
                  detail="lockable bank must be left locked (0xFF); otherwise the lock byte is untouched")


def units(tier):
    CF.WMAX = 64
    U = []

    def unit(name, runner, **kw):
        U.append(Unit("C10/" + name, "C10", None, None, use=USE, width=72, kind="custom", runner=runner,
                      max_paths=200000, **kw))

    for key, cls in all_values():
        n = len(cls.locations)
        locs = [l.address for l in cls.locations]
        nm = "%s/%s" % (key, cls.__name__)
        if not writable(cls):
            def r_ro(ctx, interp, fn, cls=cls, n=n):
                u = MemoryUnit(ctx, cls.bank)
                M0 = list(u.M)
                h = Harness(ctx, interp, u)
                out = h.run(WRITE_RAW, cls, sym_addr(ctx, A.GearShort, "d"), sym_raw(ctx, n))
                ctx.cover()
                ctx.prove("read-only-value-refused", out[0] == "raise" and issubclass(out[1], MemoryValueNotWriteable),
                          detail="outcome %r" % (out[:2],))
                ctx.prove("nothing-sent", len(h.trace) == 0)
                ctx.prove("memory-unchanged", And([u.M[a] == M0[a] for a in range(u.size)]))
            unit(nm + "/read-only", r_ro)
            continue
        for aname, amk, device in addr_kinds():
            if n > 8 and aname != "GearShort":
                continue

            def r_write(ctx, interp, fn, cls=cls, amk=amk, device=device, locs=locs, n=n):
                addr = amk(ctx)
                # (the DTR0-not-advancing variant makes every later location symbolic: only for values up to 8 bytes)
                u = MemoryUnit(ctx, cls.bank, device=device, variants=True if n <= 8 else "no-stuck")
                M0 = list(u.M)
                raw = sym_raw(ctx, n)
                h = Harness(ctx, interp, u, fault_budget=1 if n <= 8 else 0)
                out = h.run(WRITE_RAW, cls, addr, raw)
                ctx.cover()
                if out[0] == "return":
                    check_stored(ctx, u, M0, locs, list(raw), 0xFF if lockable(cls) else M0[2])
                else:
                    ctx.prove("failure-is-one-of-the-documented-exceptions", issubclass(out[1], LOUD),
                              detail="raised %s" % out[1].__name__)
                ctx.prove("only-memory-commands", len(u.unexpected) == 0)
                ctx.prove("addressed-to-the-named-unit", addressed_ok(interp, h, addr, device))
                ctx.prove("bounded-number-of-commands", len(h.trace) <= 2 * n + 8)
            unit("%s/write_raw/%s" % (nm, aname), r_write)

        def r_conforming(ctx, interp, fn, cls=cls, locs=locs, n=n):
            """a conforming, unlocked-able unit with every location implemented: the write succeeds"""
            u = MemoryUnit(ctx, cls.bank, variants=False, holes=False)
            ctx.assume(And([u.accessible(l) for l in locs]))
            ctx.assume(Not(u.protected))
            M0 = list(u.M)
            raw = sym_raw(ctx, n)
            h = Harness(ctx, interp, u)
            out = h.run(WRITE_RAW, cls, sym_addr(ctx, A.GearShort, "d"), raw)
            ctx.cover()
            ctx.prove("conforming-unit-write-succeeds", out[0] == "return", detail="outcome %r" % (out[:2],))
            if out[0] == "return":
                check_stored(ctx, u, M0, locs, list(raw), 0xFF if lockable(cls) else M0[2])
        unit(nm + "/write_raw/conforming-unit", r_conforming)

        def r_nofeedback(ctx, interp, fn, cls=cls, locs=locs, n=n):
            """ignore_feedback=True waives the CHECKING of the unit's answers, nothing else: against a conforming unit
            the write still returns, stores exactly the data, and leaves a lockable bank locked again"""
            u = MemoryUnit(ctx, cls.bank, variants=False, holes=False)
            ctx.assume(And([u.accessible(l) for l in locs]))
            ctx.assume(Not(u.protected))
            M0 = list(u.M)
            raw = sym_raw(ctx, n)
            h = Harness(ctx, interp, u)
            out = h.run(WRITE_RAW, cls, sym_addr(ctx, A.GearShort, "d"), raw, ignore_feedback=True)
            ctx.cover()
            ctx.prove("conforming-unit-write-succeeds", out[0] == "return", detail="outcome %r" % (out[:2],))
            if out[0] == "return":
                check_stored(ctx, u, M0, locs, list(raw), 0xFF if lockable(cls) else M0[2])
            ctx.prove("only-memory-commands", len(u.unexpected) == 0)
        unit(nm + "/write_raw/conforming-unit/ignore-feedback", r_nofeedback)

        for delta in (-1, 1):
            def r_len(ctx, interp, fn, cls=cls, n=n, delta=delta):
                u = MemoryUnit(ctx, cls.bank)
                M0 = list(u.M)
                h = Harness(ctx, interp, u)
                out = h.run(WRITE_RAW, cls, sym_addr(ctx, A.GearShort, "d"), sym_raw(ctx, max(0, n + delta)))
                ctx.cover()
                ctx.prove("wrong-length-refused", out[0] == "raise" and issubclass(out[1], ValueError))
                ctx.prove("nothing-sent", len(h.trace) == 0)
            unit("%s/write_raw/wrong-length%+d" % (nm, delta), r_len)

        kind = CM.value_kind(cls)
        if kind == "string":
            for k in sorted({0, 1, 2, n - 1, n}):
                def r_short(ctx, interp, fn, cls=cls, n=n, k=k, locs=locs):
                    u = MemoryUnit(ctx, cls.bank, variants=False, holes=False)
                    ctx.assume(And([u.accessible(l) for l in locs]))
                    M0 = list(u.M)
                    codes = [ctx.int("c%d" % i, 1, 127) for i in range(k)]
                    text = "".join(chr(c) for c in codes) if ctx.native else SText(codes)
                    h = Harness(ctx, interp, u)
                    out = h.run(find_write(cls), cls, sym_addr(ctx, A.GearShort, "d"), text)
                    ctx.cover()
                    ctx.prove("string-write-succeeds", out[0] == "return", detail="outcome %r" % (out[:2],))
                    if out[0] == "return":
                        data = codes + ([0] if k < n else [])
                        check_stored(ctx, u, M0, locs[:len(data)], data, 0xFF if lockable(cls) else M0[2])
                        ctx.prove("rest-of-the-value-untouched", And([u.M[l] == M0[l] for l in locs[len(data):]]))
                unit("%s/write-string/len=%d" % (nm, k), r_short)
        if kind == "numeric" and n <= 8:
            def r_num(ctx, interp, fn, cls=cls, n=n, locs=locs):
                u = MemoryUnit(ctx, cls.bank, variants=False, holes=False)
                ctx.assume(And([u.accessible(l) for l in locs]))
                M0 = list(u.M)
                v = ctx.int("v", 0, (1 << (8 * n)) - 1)
                h = Harness(ctx, interp, u)
                out = h.run(find_write(cls), cls, sym_addr(ctx, A.GearShort, "d"), v)
                ctx.cover()
                ctx.prove("number-write-succeeds", out[0] == "return", detail="outcome %r" % (out[:2],))
                if out[0] == "return":
                    data = [(v >> (8 * (n - 1 - i))) & 0xFF for i in range(n)]
                    check_stored(ctx, u, M0, locs, data, 0xFF if lockable(cls) else M0[2])
            unit(nm + "/write-number", r_num)
    return U


# checks whose proof units establish the callee contracts applied here (re-verified by this check, see main.dependency_units)
DEPENDENCIES = ['C04', 'C05']

META = {
    "level": "proof",
    "bounds": {"values": "every declared value (writable and read-only) of all banks",
               "data": "every byte string of the declared length (bytes symbolic); wrong lengths n-1 and n+1; strings of "
                       "length 0, 1, 2, n-1, n; numbers over the full range",
               "unit state": "image, DTR0/1, write-enable, lock byte, last accessible location, one hole, protection flag all "
                             "symbolic; unit variants: DTR0 not advancing, non-standard unlock value, echo of a different "
                             "byte, storing a different byte (symbolic flags)",
               "faults": "one silence (= NO) or framing error on any answer (values up to 8 bytes)"},
    "assumptions": [
        "ASSUMED unit contract contracts/units/memory.py incl. its variant flags",
        "ignore_feedback=True waives the checking of the unit's answers: with it only the conforming unit is claimed "
        "(the write returns, stores exactly the data, re-locks a lockable bank); failure detection is the caller's waiver",
        "a unit that stores a different byte but echoes the requested one cannot be detected by any controller and is not "
        "among the variants",
    ],
    "undecided_clauses": [],
    "trusted_base": ["contracts/units/memory.py", "pyvc/seq.py"],
}
