"""C19 - Serial receivers deframe any byte stream like the protocol's grammar (LUBA and SCI).

Per-byte refinement: for every receiver state satisfying the representation invariant R and every byte, the real
_process_byte raises nothing, re-establishes R and delivers exactly the items the reference deframer
(specs/deframe.py) assigns to a completed frame; data_received is proved to be the fold of _process_byte, which
makes the result independent of how the stream is chunked."""
import logging
from pyvc.engine import Unit
from pyvc.spec import And, Or, Not, ite, Implies, is_instance, type_of
from pyvc.path import RaiseEx
from pyvc.values import SBytes, values_equal, SObj
import checks.drv_common  # noqa: F401  (registers the driver classes as init-built)
from pyvc.aio import World, install, MQueue
from pyvc import sym
from dali import frame as F, command as C
from dali.driver import serial as SER
from dali.gear import general as G
import contracts.frame as CF
from specs import deframe as DF
from checks.c01 import USE as USE0
from checks.c02 import state_of
import contracts.command as CC

USE = USE0 + [CC.KEY]

LUBA = SER.DriverLubaRs232.LubaProtocol
SCI = SER.DriverSCIRS232.SCIRS232Protocol
LS = LUBA.ReadState
SS = SCI.ReadState


def decoded_under(c):
    f = c.fields if isinstance(c, SObj) else vars(c)
    return f.get("_decoded_under")


def check_observed(ctx, interp, item, bits, data, prev_dt, dmap, label=""):
    """the delivered item is from_frame(ForwardFrame(bits, data), devicetype=prev_dt, dev_inst_map=dmap)"""
    fr = interp.get_attr(item, "frame")
    ctx.prove(label + "item-is-a-command-with-the-observed-bits", And(is_instance(item, C.Command), fr._bits == bits, fr._data == data))
    if type_of(item) is G.EnableDeviceType:
        ctx.prove(label + "enable-device-type-recognised", And(bits == 16, (data >> 8) == 0xC1, item.param == (data & 0xFF)))
        return
    if getattr(ctx, "native", False):
        # replay on the real code: the delivered object is what the real decoder makes of the frame in this context
        want = C.from_frame(F.ForwardFrame(bits, data), devicetype=prev_dt, dev_inst_map=dmap)
        ctx.prove(label + "decoded-through-from_frame", type(item) is type(want) and item.frame == want.frame
                  and str(item) == str(want), detail="delivered %s, decoder gives %s" % (item, want))
        return
    du = decoded_under(item)
    ok = du is not None
    ctx.prove(label + "decoded-through-from_frame", ok)
    if ok:
        ctx.prove(label + "decoded-with-the-device-type-of-the-preceding-frame-only", interp.truth(interp.eq(du[0], prev_dt)),
                  detail="device type used %r, announced %r" % (du[0], prev_dt))
        ctx.prove(label + "decoded-with-the-drivers-instance-map", du[1] is dmap)


def q_items(q):
    if isinstance(q, MQueue):
        return list(q.items)
    if isinstance(q, SObj):
        return list(q.fields.get("_delivered", []))
    return list(q._queue)


def dist_queue(ctx, nchildren=2):
    """a parent DistributorQueue with subscribed children"""
    if ctx.native:
        import asyncio
        parent = SER.DistributorQueue()
        kids = [SER.DistributorQueue(parent) for _ in range(nchildren)]
        return parent, kids
    from pyvc.values import interp as _interp
    parent = ctx.new(SER.DistributorQueue, _handlers=ctx.track({}), _parent=None)
    kids = [ctx.new(SER.DistributorQueue, _handlers={}, _parent=parent) for _ in range(nchildren)]
    for k in kids:      # subscribed through the real add_handler (keyed by hash(child))
        _interp().call(_interp().get_attr(parent, "add_handler"), (k,), {})
    return parent, kids


def luba_proto(ctx, world, state, buffer, expected, received, prev_rx=0, prev_tx=0, dmap=None):
    parent, kids = dist_queue(ctx)
    p = ctx.new(LUBA, _rx_state=state, _buffer=ctx.track(list(buffer)), _rx_expected_len=expected,
                _rx_received_len=received, rx_idle=world.event(state == LS.WAIT_START, "rx_idle"),
                _queue_rx_dali=parent, _queue_rx_raw_dali=world.queue("raw"), _queue_rx_luba_cmd=world.queue("cmd"),
                _queue_tx_conf=world.queue("txconf"), _prev_rx_enable_dt=prev_rx, _prev_tx_enable_dt=prev_tx,
                _dev_inst_map=dmap, _dev_info=None)
    return p, kids


def luba_R(p):
    """representation invariant of the LUBA receiver"""
    st = p._rx_state
    buf = p._buffer
    n = p._rx_received_len
    if st is LS.WAIT_START:
        return And(n == 0, len(buf) == 24)
    if st is LS.WAIT_COMMAND:
        return And(n == 0, buf[0] == 0x59, len(buf) == 24)
    if st is LS.WAIT_LENGTH:
        return And(n == 0, buf[0] == 0x59, len(buf) == 24)
    L = p._rx_expected_len
    base = And(buf[0] == 0x59, len(buf) == 24, L is not None and And(L >= 1, L <= DF.LUBA_MAX_PAYLOAD, buf[2] == L))
    if st is LS.LOOP_READ:
        return And(base, n >= 0, n < L)
    if st is LS.WAIT_CHECKSUM:
        return And(base, n == L)
    return False


def call_byte(ctx, interp, proto_cls, p, b):
    try:
        interp.call(interp.get_attr(p, "_process_byte"), (b,), {})
        return None
    except RaiseEx as e:
        return e


def delivered(p, kids):
    return {"raw": q_items(p._queue_rx_raw_dali), "kids": [q_items(k) for k in kids]}


def units(tier):
    CF.WMAX = 64
    U = []

    def unit(name, runner, **kw):
        U.append(Unit("C19/" + name, "C19", None, None, use=USE, width=72, kind="custom", runner=runner,
                      max_paths=200000, **kw))

    # ------------------------------------------------------------ LUBA: states before the checksum
    def r_start(ctx, interp, fn):
        world = World(ctx, interp)
        install(interp, world)
        b = ctx.int("byte", 0, 255)
        p, kids = luba_proto(ctx, world, LS.WAIT_START, [None] * 24, None, 0)
        e = call_byte(ctx, interp, LUBA, p, b)
        ctx.cover()
        ctx.prove("never-raises", e is None, detail="raised %s" % (e.cls.__name__ if e else ""))
        if e is not None:
            return
        ctx.prove("start-byte-opens-a-frame", (p._rx_state is LS.WAIT_COMMAND) == interp_truth(interp, b == 0x59)
                  if not sym.is_sym(b == 0x59) else True)
        if interp.test(b == 0x59):
            ctx.prove("frame-opened", p._rx_state is LS.WAIT_COMMAND)
        else:
            ctx.prove("noise-between-frames-is-skipped", p._rx_state is LS.WAIT_START)
        ctx.prove("invariant", luba_R(p))
        ctx.prove("nothing-delivered", nothing(p, kids))
    unit("luba/state=WAIT_START", r_start)

    def r_command(ctx, interp, fn):
        world = World(ctx, interp)
        install(interp, world)
        b = ctx.int("byte", 0, 255)
        p, kids = luba_proto(ctx, world, LS.WAIT_COMMAND, [0x59] + [None] * 23, None, 0)
        e = call_byte(ctx, interp, LUBA, p, b)
        ctx.cover()
        ctx.prove("never-raises", e is None, detail="raised %s" % (e.cls.__name__ if e else ""))
        if e is None:
            ctx.prove("command-byte-stored", And(p._rx_state is LS.WAIT_LENGTH, p._buffer[1] == b))
            ctx.prove("invariant", luba_R(p))
            ctx.prove("nothing-delivered", nothing(p, kids))
    unit("luba/state=WAIT_COMMAND", r_command)

    def r_length(ctx, interp, fn):
        world = World(ctx, interp)
        install(interp, world)
        b = ctx.int("byte", 0, 255)
        p, kids = luba_proto(ctx, world, LS.WAIT_LENGTH, [0x59, ctx.int("cmd", 0, 255)] + [None] * 22, None, 0)
        e = call_byte(ctx, interp, LUBA, p, b)
        ctx.cover()
        ctx.prove("never-raises", e is None, detail="raised %s" % (e.cls.__name__ if e else ""))
        if e is not None:
            return
        fits = And(b >= 1, b <= DF.LUBA_MAX_PAYLOAD)
        if interp.test(fits):
            ctx.prove("length-accepted", And(p._rx_state is LS.LOOP_READ, p._rx_expected_len == b))
        else:
            ctx.prove("length-that-cannot-fit-is-dropped", p._rx_state is LS.WAIT_START,
                      detail="a length byte of 0 or above 20 cannot fit the 24-byte buffer: the frame must be dropped and "
                             "reception resume with the next byte")
        ctx.prove("invariant", luba_R(p))
        ctx.prove("nothing-delivered", nothing(p, kids))
    unit("luba/state=WAIT_LENGTH", r_length)

    def r_loop(ctx, interp, fn):
        world = World(ctx, interp)
        install(interp, world)
        b = ctx.int("byte", 0, 255)
        L = ctx.choose_int(ctx.int("L", 1, DF.LUBA_MAX_PAYLOAD), "payload length")
        n = ctx.choose_int(ctx.int("n", 0, L - 1), "bytes received")
        buf = [0x59, ctx.int("cmd", 0, 255), L] + [ctx.int("p%d" % i, 0, 255) for i in range(n)] + [None] * (21 - n)
        p, kids = luba_proto(ctx, world, LS.LOOP_READ, buf, L, n)
        before = list(buf)
        e = call_byte(ctx, interp, LUBA, p, b)
        ctx.cover()
        ctx.prove("never-raises", e is None, detail="raised %s" % (e.cls.__name__ if e else ""))
        if e is not None:
            return
        ctx.prove("payload-byte-stored", And(p._buffer[3 + n] == b, p._rx_received_len == n + 1))
        ctx.prove("earlier-bytes-untouched", And([p._buffer[i] == before[i] for i in range(3 + n)]))
        ctx.prove("moves-to-checksum-exactly-when-complete",
                  p._rx_state is (LS.WAIT_CHECKSUM if n + 1 == L else LS.LOOP_READ))
        ctx.prove("invariant", luba_R(p))
        ctx.prove("nothing-delivered", nothing(p, kids))
    unit("luba/state=LOOP_READ", r_loop)

    # ------------------------------------------------------------ LUBA: the checksum byte completes a frame
    for L in range(1, DF.LUBA_MAX_PAYLOAD + 1):
        def r_check(ctx, interp, fn, L=L):
            world = World(ctx, interp)
            install(interp, world)
            cmd = ctx.int("cmd", 0, 255)
            payload = [ctx.int("p%d" % i, 0, 255) for i in range(L)]
            chk = ctx.int("checksum", 0, 255)
            buf = [0x59, cmd, L] + payload + [None] * (21 - L)
            p, kids = luba_proto(ctx, world, LS.WAIT_CHECKSUM, buf, L, L)
            good = chk == DF.xor_all([cmd, L] + payload)
            known = Or([cmd == k for k in sorted(DF.LUBA_KNOWN)])
            if not interp.test(And(good, known)):
                e = call_byte(ctx, interp, LUBA, p, chk)
                ctx.cover()
                ctx.prove("bad-checksum-or-unknown-type-never-raises", e is None)
                if e is None:
                    ctx.prove("frame-dropped", nothing(p, kids))
                    ctx.prove("reception-resumes", And(p._rx_state is LS.WAIT_START, luba_R(p)))
                return
            c = ctx.choose_int(cmd, "command code")
            frame = [0x59, c, L] + payload + [chk]
            want = DF.luba_items(frame)
            if want == DF.MALFORMED:
                return          # payload malformed for its type: the driver reports those by raising deliberately
            e = call_byte(ctx, interp, LUBA, p, chk)
            ctx.cover()
            ctx.prove("well-formed-frame-never-raises", e is None,
                      detail="raised %s at %s" % ((e.cls.__name__, e.where) if e else ("", "")))
            if e is not None:
                return
            check_items(ctx, interp, p, kids, want, world)
            ctx.prove("reception-resumes", And(p._rx_state is LS.WAIT_START, luba_R(p)))
        unit("luba/state=WAIT_CHECKSUM/L=%d" % L, r_check)

    # ------------------------------------------------------------ LUBA: a "frame sent" event (transmit confirmation)
    # the confirmation names the frame id and carries the transmitted frame decoded under the device type announced by
    # the previous TRANSMITTED frame; the device type remembered for frames SEEN on the bus is a separate stream
    for nbytes in (2, 3):
        def r_sent(ctx, interp, fn, nbytes=nbytes):
            from dali.device import helpers as H
            world = World(ctx, interp)
            install(interp, world)
            prev_tx = ctx.int("prev_tx_devicetype", 0, 255)
            prev_rx = ctx.int("prev_rx_devicetype", 0, 255)
            dmap = ctx.new(H.DeviceInstanceTypeMapper, _mapping={})
            data = [ctx.int("d%d" % i, 0, 255) for i in range(nbytes)]
            info = ctx.int("event_info", 0, 63)
            tx_id = ctx.int("tx_id", 0, 255)
            payload = [ctx.int("tick_hi", 0, 255), ctx.int("tick_lo", 0, 255), 0, info, tx_id] + data
            L = len(payload)
            buf = [0x59, 0x31, L] + payload + [None] * (21 - L)
            p, kids = luba_proto(ctx, world, LS.WAIT_CHECKSUM, buf, L, L, prev_rx=prev_rx, prev_tx=prev_tx, dmap=dmap)
            frame = tuple(buf[:L + 3] + [0])
            try:
                interp.call(interp.get_attr(p, "_process_luba_event"), (frame,), {})
            except RaiseEx as e:
                ctx.fail("never-raises:%s" % e.cls.__name__, detail="at %s" % e.where)
                return
            ctx.cover()
            value = 0
            for b in data:
                value = (value << 8) | b
            txc = q_items(p._queue_tx_conf)
            ok = len(txc) == 1
            ctx.prove("exactly-one-transmit-confirmation", ok, detail="%d confirmations" % len(txc))
            if ok:
                ctx.prove("confirmation-names-the-frame-id", interp.get_attr(txc[0], "tx_id") == tx_id)
                msg = interp.get_attr(txc[0], "message")
                ctx.prove("confirmation-carries-the-decoded-frame", msg is not None)
                if msg is not None:
                    check_observed(ctx, interp, msg, 8 * nbytes, value, prev_tx, dmap, label="transmitted/")
            is_edt = And(nbytes == 2, data[0] == 0xC1)
            ctx.prove("device-type-memory-of-the-transmitted-stream", p._prev_tx_enable_dt == ite(is_edt, data[1], 0),
                      detail="an enable-device-type frame is remembered for the next transmitted frame only")
            ctx.prove("device-type-of-the-observed-stream-untouched", p._prev_rx_enable_dt == prev_rx,
                      detail="a transmit confirmation changed the device type remembered for frames seen on the bus")
            ctx.prove("nothing-delivered-as-observed-or-answer",
                      And(all(len(q_items(k)) == 0 for k in kids), len(q_items(p._queue_rx_raw_dali)) == 0))
        unit("luba/frame-sent-event/%d-bit" % (8 * nbytes), r_sent)

    # ------------------------------------------------------------ LUBA: data_received is the fold of _process_byte
    def r_fold(ctx, interp, fn):
        world = World(ctx, interp)
        install(interp, world)
        k = ctx.choose_int(ctx.int("chunk", 0, 3), "chunk length")
        bs = [ctx.int("b%d" % i, 0, 255) for i in range(k)]
        which = ctx.choose_int(ctx.int("startstate", 0, 2), "state")
        mk = [lambda: (LS.WAIT_START, [None] * 24, None, 0),
              lambda: (LS.WAIT_LENGTH, [0x59, 0x31] + [None] * 22, None, 0),
              lambda: (LS.LOOP_READ, [0x59, 0x31, 7] + [None] * 21, 7, 0)][which]
        st = mk()
        p1, kids1 = luba_proto(ctx, world, *st)
        p2, kids2 = luba_proto(ctx, world, *mk())
        data = bytes(bs) if ctx.native else SBytes(bs)
        e1 = e2 = None
        try:
            interp.call(interp.get_attr(p1, "data_received"), (data,), {})
        except RaiseEx as e:
            e1 = e.cls
        try:
            for b in bs:
                interp.call(interp.get_attr(p2, "_process_byte"), (b,), {})
        except RaiseEx as e:
            e2 = e.cls
        ctx.cover()
        ctx.prove("same-exception-if-any", e1 is e2)
        same = And(p1._rx_state is p2._rx_state, values_equal(list(p1._buffer), list(p2._buffer)),
                   values_equal(p1._rx_received_len, p2._rx_received_len),
                   values_equal(p1._rx_expected_len, p2._rx_expected_len))
        ctx.prove("chunk-equals-byte-by-byte", same)
    unit("luba/data_received-is-a-fold", r_fold)

    sci_units(unit)
    return U


def interp_truth(interp, x):
    return bool(x)


def nothing(p, kids):
    qs = [p._queue_rx_raw_dali, getattr_safe(p, "_queue_rx_luba_cmd"), getattr_safe(p, "_queue_tx_conf"),
          getattr_safe(p, "_queue_rx_info")] + list(kids)
    return all(len(q_items(q)) == 0 for q in qs if q is not None)


def getattr_safe(p, name):
    f = p.fields if isinstance(p, SObj) else vars(p)
    return f.get(name)


def check_items(ctx, interp, p, kids, want, world):
    """the queues hold exactly the items the reference deframer assigns to the frame"""
    raw = q_items(p._queue_rx_raw_dali)
    txc = q_items(getattr_safe(p, "_queue_tx_conf")) if getattr_safe(p, "_queue_tx_conf") is not None else []
    lcmd = q_items(getattr_safe(p, "_queue_rx_luba_cmd")) if getattr_safe(p, "_queue_rx_luba_cmd") is not None else []
    info = q_items(getattr_safe(p, "_queue_rx_info")) if getattr_safe(p, "_queue_rx_info") is not None else []
    observed = [q_items(k) for k in kids]
    w_raw = [w for w in want if w[0] == "raw"]
    w_tx = [w for w in want if w[0] == "txconf"]
    w_obs = [w for w in want if w[0] == "observed"]
    w_dev = [w for w in want if w[0] in ("devinfo", "settings")]
    w_rep = [w for w in want if w[0] == "reply"]
    ctx.prove("backward-frame-values", len(raw) == len(w_raw) and And([a == w[1] for a, w in zip(raw, w_raw)]),
              detail="raw answers %r, reference %r" % (raw, w_raw))
    ctx.prove("transmit-confirmations", len(txc) == len(w_tx) and And([interp.get_attr(a, "tx_id") == w[1] for a, w in zip(txc, w_tx)]),
              detail="confirmations %r, reference %r" % (txc, w_tx))
    ok_obs = all(len(o) == len(w_obs) for o in observed)
    ctx.prove("observed-commands-delivered-to-every-subscriber", ok_obs,
              detail="delivered %r, reference %r" % ([len(o) for o in observed], w_obs))
    if ok_obs:
        for o in observed:
            for c, w in zip(o, w_obs):
                fr = interp.get_attr(c, "frame")
                ctx.prove("observed-command-carries-the-frame-bits", And(fr._bits == 8 * w[1], fr._data == w[2]))
    if w_dev and w_dev[0][0] == "devinfo":
        ok = len(lcmd) == 1
        ctx.prove("device-info-delivered", ok)
        if ok:
            d, w = lcmd[0], w_dev[0]
            ctx.prove("device-info-fields", And(interp.get_attr(d, "gtin") == w[1], interp.get_attr(d, "id") == w[2],
                                                interp.get_attr(d, "pcb_ver") == w[3], interp.get_attr(d, "assembly_ver") == w[4],
                                                interp.get_attr(d, "article_num") == w[5]))
    elif w_dev:
        ok = len(lcmd) == 1
        ctx.prove("settings-delivered", ok)
        if ok:
            ctx.prove("settings-fields", And(interp.get_attr(lcmd[0], "mode") == w_dev[0][1],
                                             interp.get_attr(lcmd[0], "event_filter") == w_dev[0][2]))
    else:
        ctx.prove("no-device-message", len(lcmd) == 0)
    ctx.prove("gateway-replies", len(info) == len(w_rep) and And([And(interp.get_attr(a, "id") == w[1], interp.get_attr(a, "code") == w[2])
                                                                  for a, w in zip(info, w_rep)]),
              detail="replies %r, reference %r" % (info, w_rep))


# ----------------------------------------------------------------------------- SCI
def sci_proto(ctx, world, state, buffer, prev_rx=0, dmap=None):
    parent, kids = dist_queue(ctx)
    p = ctx.new(SCI, _rx_state=state, _buffer=ctx.track(list(buffer)), _rx_expected_len=None, _rx_received_len=0,
                rx_idle=world.event(state == SS.WAIT_STATUS, "rx_idle"), _queue_rx_dali=parent,
                _queue_rx_raw_dali=world.queue("raw"), _queue_rx_info=world.queue("info"), _prev_rx_enable_dt=prev_rx,
                _prev_tx_enable_dt=0, _dev_inst_map=dmap, _dev_info=None)
    return p, kids


def sci_units(unit):
    order = [SS.WAIT_STATUS, SS.WAIT_DATA_HI, SS.WAIT_DATA_MI, SS.WAIT_DATA_LO, SS.WAIT_CHECKSUM]
    for k in range(4):
        def r_sci_step(ctx, interp, fn, k=k):
            world = World(ctx, interp)
            install(interp, world)
            b = ctx.int("byte", 0, 255)
            buf = [ctx.int("s%d" % i, 0, 255) for i in range(k)] + [None] * (5 - k)
            p, kids = sci_proto(ctx, world, order[k], buf)
            before = list(buf)
            e = call_byte(ctx, interp, SCI, p, b)
            ctx.cover()
            ctx.prove("never-raises", e is None)
            if e is None:
                ctx.prove("byte-stored-and-state-advances", And(p._buffer[k] == b, p._rx_state is order[k + 1]))
                ctx.prove("earlier-bytes-untouched", And([p._buffer[i] == before[i] for i in range(k)]))
                ctx.prove("nothing-delivered", nothing(p, kids))
        unit("sci/state=%s" % order[k].name, r_sci_step)

    def r_sci_check(ctx, interp, fn):
        world = World(ctx, interp)
        install(interp, world)
        fb = [ctx.int("s%d" % i, 0, 255) for i in range(4)]
        chk = ctx.int("checksum", 0, 255)
        p, kids = sci_proto(ctx, world, SS.WAIT_CHECKSUM, fb + [None])
        good = chk == DF.xor_all(fb)
        code = fb[0] & 0x0F
        known = code <= 8
        e = call_byte(ctx, interp, SCI, p, chk)
        ctx.cover()
        if not interp.test(And(good, known)):
            ctx.prove("bad-checksum-or-unknown-status-never-raises", e is None)
            if e is None:
                ctx.prove("frame-dropped", nothing(p, kids))
                ctx.prove("reception-resumes", p._rx_state is SS.WAIT_STATUS)
            return
        c = ctx.choose_int(code, "status code")
        ctx.prove("well-formed-frame-never-raises", e is None, detail="raised %s at %s" % ((e.cls.__name__, e.where) if e else ("", "")))
        if e is not None:
            return
        if c == DF.SCI_ERROR and not interp.test(Or([fb[3] == k for k in sorted(DF.SCI_KNOWN_ERRORS)])):
            return      # unknown error code: reported and dropped
        want = DF.sci_items(fb + [chk])
        check_items(ctx, interp, p, kids, want, world)
        ctx.prove("reception-resumes", And(p._rx_state is SS.WAIT_STATUS, p._rx_received_len == 0))
    unit("sci/state=WAIT_CHECKSUM", r_sci_check)


# checks whose proof units establish the callee contracts applied here (re-verified by this check, see main.dependency_units)
DEPENDENCIES = ['C04', 'C05', 'C01']

META = {
    "level": "proof",
    "bounds": {"LUBA": "every receiver state satisfying the representation invariant (payload length 1..20, any number of "
               "bytes received, symbolic content) x every byte; complete frames of every payload length 1..20 with symbolic "
               "command, payload and checksum", "SCI": "every state x every byte; every 5-byte frame",
               "chunking": "chunks of 0..3 symbolic bytes from three start states (data_received = fold of _process_byte)"},
    "assumptions": [
        "oracle: specs/deframe.py (reference deframers written from the protocol grammars; trusted)",
        "frames whose payload is malformed for their type are set aside, as the property says",
        "the step from 'per-byte refinement + data_received is a fold' to 'any stream, any chunking' is induction over the "
        "stream, not mechanised",
        "decoding of observed commands in context (device type memory) is property C20; here only the frame bits are compared",
    ],
    "undecided_clauses": [],
    "trusted_base": ["specs/deframe.py", "pyvc/aio.py"],
}
