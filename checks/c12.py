"""C12 - Event messages: scheme fields and instance-type resolution are exact."""
from pyvc.engine import Unit
from pyvc.spec import And, Or, Not, ite, Implies, is_instance, type_of
from pyvc.path import RaiseEx
from pyvc.values import values_equal
from pyvc import models
from dali import frame as F, address as A, command as C
from dali.device import helpers as H
import dali.device.general as DG
import dali.device.pushbutton as PB, dali.device.occupancy as OCC, dali.device.light as LIGHT  # noqa
import dali.gear.general  # noqa
import contracts.frame as CF
import contracts.helpers  # noqa
from specs import events as EV
from checks.c01 import USE, mk_map
from checks.c02 import state_of
from checks.c04 import sym_addr, sym_inst

GET_TYPE = "dali.device.helpers:DeviceInstanceTypeMapper.get_type"
USE_REAL_MAP = [u for u in USE if u != GET_TYPE]


def event_frame(ctx, top):
    d = ctx.int("data", top << 20, (top << 20) | 0xFFFFF)
    ctx.assume(((d >> 16) & 1) == 0)
    return ctx.new(F.ForwardFrame, _bits=24, _data=d, _error=False)


def attr(interp, o, name):
    return interp.get_attr(o, name)


def check_event(ctx, interp, r, data, map_type, label=""):
    """the decoded object r reports exactly what the standard's layout gives for `data`"""
    want = EV.scheme_fields(data, map_type)
    if want is None:
        ctx.prove(label + "reserved-scheme-is-not-an-event", not is_instance(r, DG._Event))
        return
    ctx.prove(label + "is-an-event", is_instance(r, DG._Event), detail="decoded %s" % type_of(r).__name__)
    if not is_instance(r, DG._Event):
        return
    name = EV.event_class_name(want["instance_type"], want["event_info"])
    ctx.prove(label + "event-class", type_of(r).__name__ == name,
              detail="scheme %s: decoded %s, the tables give %s" % (want["scheme"], type_of(r).__name__, name))
    sa = attr(interp, r, "short_address")
    if want["short_address"] is None:
        ctx.prove(label + "short-address-absent", sa is None)
    else:
        ctx.prove(label + "short-address", sa is not None and is_instance(sa, A.DeviceShort)
                  and interp.truth(interp.eq(attr(interp, sa, "address"), want["short_address"])))
    for f in ("instance_number", "instance_group", "device_group"):
        v = attr(interp, r, f)
        if want[f] is None:
            ctx.prove(label + f + "-absent", v is None)
        else:
            ctx.prove(label + f, v is not None and interp.truth(interp.eq(v, want[f])))
    if want["instance_type"] is not None:
        ctx.prove(label + "instance-type", interp.truth(interp.eq(attr(interp, r, "instance_type"), want["instance_type"])))
    info = want["event_info"]
    fr = attr(interp, r, "frame")
    ctx.prove(label + "frame-carries-the-event-information", (fr._data & 0x3FF) == info)
    if name == "OccupancyEvent":
        fl = EV.occupancy_flags(info)
        ctx.prove(label + "occupancy-movement", attr(interp, r, "movement") == fl["movement"])
        ctx.prove(label + "occupancy-occupied", attr(interp, r, "occupied") == fl["occupied"])
        ctx.prove(label + "occupancy-repeat", attr(interp, r, "repeat") == fl["repeat"])
        st = attr(interp, r, "sensor_type")
        ctx.prove(label + "occupancy-sensor-type", st == ("movement" if fl["sensor_is_movement"] else "presence"))
    elif name == "LightEvent":
        ctx.prove(label + "illuminance", attr(interp, r, "illuminance") == info)
        ctx.prove(label + "event-data", attr(interp, r, "event_data") == info)
    elif name in ("UnknownEvent", "AmbiguousInstanceType"):
        ctx.prove(label + "event-data-carried", attr(interp, r, "event_data") == info)


def decode(ctx, interp, f, dmap):
    try:
        return interp.call(C.from_frame, (f,), {"devicetype": 0, "dev_inst_map": dmap})
    except RaiseEx as e:
        ctx.fail("never-raises:%s" % e.cls.__name__, detail="decoding raised %s at %s" % (e.cls.__name__, e.where))
        return None


def units(tier):
    CF.WMAX = 64
    U = []

    def unit(name, runner, use=USE):
        U.append(Unit("C12/" + name, "C12", None, None, use=use, width=72, kind="custom", runner=runner,
                      max_paths=100000))

    for top in range(16):
        def r_nomap(ctx, interp, fn, top=top):
            f = event_frame(ctx, top)
            r = decode(ctx, interp, f, None)
            if r is not None:
                ctx.cover()
                check_event(ctx, interp, r, f._data, None)
        unit("decode/no-map/top=%x" % top, r_nomap)
    for top in range(8):
        for mode in ("entry", "no-entry"):
            def r_map(ctx, interp, fn, top=top, mode=mode):
                f = event_frame(ctx, top)
                t = ctx.int("maptype", 0, 31) if mode == "entry" else None
                r = decode(ctx, interp, f, mk_map(ctx, t))
                if r is not None:
                    ctx.cover()
                    check_event(ctx, interp, r, f._data, t)
            unit("decode/map-%s/top=%x" % (mode, top), r_map)

        def r_retry(ctx, interp, fn, top=top):
            f = event_frame(ctx, top)
            ctx.assume(((f._data >> 15) & 1) == 1)       # device/instance scheme
            t = ctx.int("maptype", 0, 31)
            m = mk_map(ctx, t)
            first = decode(ctx, interp, f, None)
            if first is None:
                return
            ok = is_instance(first, DG.AmbiguousInstanceType)
            ctx.prove("ambiguous-without-map", ok)
            if not ok:
                return
            try:
                again = interp.call(interp.get_attr(first, "retry_decode"), (m,), {})
            except RaiseEx as e:
                ctx.fail("retry-never-raises:%s" % e.cls.__name__, detail="at %s" % e.where)
                return
            direct = decode(ctx, interp, f, m)
            ctx.cover()
            ctx.prove("retry-gives-an-event", again is not None)
            if again is not None and direct is not None:
                ctx.prove("retry-same-class-as-direct-decode", type_of(again) is type_of(direct))
                ctx.prove("retry-identical-to-direct-decode", values_equal(state_of(again), state_of(direct)))
            m2 = mk_map(ctx, None)
            ctx.prove("retry-without-entry-gives-nothing",
                      interp.call(interp.get_attr(first, "retry_decode"), (m2,), {}) is None)
        unit("retry-decode/top=%x" % top, r_retry)

    # ---- the instance-type map itself: add_type / get_type over the real code with symbolic keys
    def key_kinds(ctx, p):
        return {
            "int": (lambda: (ctx.int(p + "short", 0, 63), ctx.int(p + "inum", 0, 31))),
            "obj": (lambda: (sym_addr(ctx, A.DeviceShort, p + "s"), sym_inst(ctx, A.InstanceNumber, p + "i"))),
        }

    def num(x):
        if is_instance(x, A.DeviceShort):
            return x.address
        if is_instance(x, A.InstanceNumber):
            return x._value
        return x

    for k1 in ("int", "obj"):
        for k2 in ("int", "obj"):
            for tk in ("int", "module"):
                def r_mapper(ctx, interp, fn, k1=k1, k2=k2, tk=tk):
                    store = {} if ctx.native else models.AssocDict()
                    m = ctx.new(H.DeviceInstanceTypeMapper, _mapping=store)
                    a, i = key_kinds(ctx, "a")[k1]()
                    b, j = key_kinds(ctx, "b")[k2]()
                    if tk == "int":
                        t = ctx.int("itype", 0, 31)
                        targ = t
                    else:
                        import dali.device.occupancy as mod
                        targ, t = mod, mod.instance_type
                    before = interp.call(interp.get_attr(m, "get_type"), (), {"short_address": b, "instance_number": j})
                    ctx.prove("empty-map-has-no-entry", before is None)
                    interp.call(interp.get_attr(m, "add_type"), (),
                                {"short_address": a, "instance_number": i, "instance_type": targ})
                    got = interp.call(interp.get_attr(m, "get_type"), (), {"short_address": a, "instance_number": i})
                    ctx.cover()
                    ctx.prove("lookup-after-add", got is not None and interp.truth(interp.eq(got, t)))
                    other = interp.call(interp.get_attr(m, "get_type"), (), {"short_address": b, "instance_number": j})
                    same = And(num(a) == num(b), num(i) == num(j))
                    if interp.test(same):
                        ctx.prove("same-pair-any-argument-form", other is not None and interp.truth(interp.eq(other, t)))
                    else:
                        ctx.prove("other-pairs-unaffected", other is None)
                unit("mapper/%s-%s-%s" % (k1, k2, tk), r_mapper, use=USE_REAL_MAP)
    return U


def extra_checks(tier, seed):
    """E: the live event registries agree with the transcribed tables"""
    import time
    t0 = time.time()
    bad = []
    live_pb = {code: cls.__name__ for code, cls in PB._PushbuttonEvent._event_classes.items()}
    if live_pb != EV.PUSHBUTTON_EVENTS:
        bad.append("push-button event codes %r != table %r" % (live_pb, EV.PUSHBUTTON_EVENTS))
    types = {k: v.__name__ for k, v in DG._Event._instance_types.items() if k is not None}
    want = {EV.PUSHBUTTON_TYPE: "_PushbuttonEvent", EV.OCCUPANCY_TYPE: "OccupancyEvent", EV.LIGHT_TYPE: "LightEvent"}
    if types != want:
        bad.append("instance-type registry %r != %r" % (types, want))
    return [{"name": "C12/registry/event-registries-match-the-tables", "status": "failed" if bad else "discharged",
             "cases": len(live_pb) + len(types), "kind": "exhaustive", "seconds": time.time() - t0,
             "detail": "; ".join(bad), "witness": {"mismatch": bad}, "replay": {"mismatch": bad}},
            held_events_check(tier, seed)]


# ----------------------------------------------------------------------------- bounded stand-in: events held while others decode
# The proof units decode one frame from a state in which nothing was decoded before.  "Re-decoding an ambiguous event LATER
# gives the same result as decoding the frame with that map" also says that an event object keeps what it was decoded from
# while other frames are decoded in between (decoded objects that share a frame object would not).  BOUNDED, native: events
# are decoded in batches, held, and then observed / re-decoded, and compared with the decode of each frame on its own.
def _obs(ev):
    if ev is None:
        return None
    f = getattr(ev, "frame", None)
    out = [type(ev).__name__, None if f is None else (len(f), f.as_integer)]
    for a in ("short_address", "instance_number", "instance_group", "device_group", "instance_type", "event_data"):
        try:
            v = getattr(ev, a, "<absent>")
            # (address objects have no __repr__: take the class and the number, not the object's identity)
            out.append((a, (type(v).__name__, getattr(v, "address", getattr(v, "group", None)))
                        if type(v).__module__ == "dali.address" else repr(v)))
        except Exception as e:      # noqa: BLE001
            out.append((a, "raised " + type(e).__name__))
    try:
        out.append(("str", str(ev)))
    except Exception as e:      # noqa: BLE001
        out.append(("str", "raised " + type(e).__name__))
    return tuple(out)


def held_events_check(tier, seed):
    import random
    import time
    from dali import frame as FR
    from dali.command import Command
    from dali.device.helpers import DeviceInstanceTypeMapper
    t0 = time.time()
    rng = random.Random(1000 + int(seed or 0))
    nbatches, batch = (400, 6) if tier != "thorough" else (6000, 8)

    def ev_frame():
        v = rng.getrandbits(24) & ~(1 << 16)
        if rng.random() < 0.6:
            v = (v & ~(1 << 23)) | (1 << 15)        # device / instance scheme: the one that needs the map
        return v

    def dec(v, m):
        return Command.from_frame(FR.ForwardFrame(24, v), dev_inst_map=m)
    bad = []
    n = 0
    for _ in range(nbatches):
        vals = [ev_frame() for _ in range(batch)]
        m = DeviceInstanceTypeMapper()
        for v in vals:
            if rng.random() < 0.7:
                m.add_type(short_address=(v >> 17) & 0x3F, instance_number=(v >> 10) & 0x1F,
                           instance_type=rng.choice([1, 3, 4, 20]))
        held = [dec(v, None) for v in vals]
        # everything that is read from the held objects is read BEFORE anything else is decoded again
        held_obs = [_obs(ev) for ev in held]
        retried = []
        for ev in held:
            retry = getattr(ev, "retry_decode", None)
            if retry is not None and type(ev).__name__ == "AmbiguousInstanceType":
                try:
                    retried.append(_obs(retry(m)))
                except Exception as e:      # noqa: BLE001
                    retried.append("raised " + type(e).__name__)
            else:
                retried.append("<not ambiguous>")
        for v, ev, seen, again in zip(vals, held, held_obs, retried):
            n += 1
            alone = _obs(dec(v, None))
            if seen != alone:
                bad.append((v, "an event decoded from 0x%06x and held while %d other frames were decoded now reads %r, "
                               "decoded on its own it reads %r" % (v, batch - 1, seen, alone)))
                continue
            if again != "<not ambiguous>":
                direct = _obs(dec(v, m))
                direct = direct if direct is None or direct[0] != "AmbiguousInstanceType" else None
                if again != direct:
                    bad.append((v, "retry_decode of the held ambiguous event of 0x%06x gives %r, decoding the frame with the "
                                   "map gives %r" % (v, again, direct)))
    name = "C12/bounded/held-events-keep-their-frame-and-retry-decode-like-a-direct-decode"
    return {"name": name, "status": "failed" if bad else "discharged", "cases": n, "kind": "bounded-native",
            "seconds": time.time() - t0,
            "detail": bad[0][1][:600] if bad else "%d batches of %d event frames decoded, held, observed and re-decoded" % (nbatches, batch),
            "witness": {"frame": bad[0][0]} if bad else {},
            "replay": {"how": "decode the listed frames without a map in one process, keep the objects, then observe / retry_decode",
                       "failing": [b[1][:400] for b in bad[:10]], "total_failing": len(bad)}}


def provides(keys, units):
    """the get_type ghost contract (contracts/helpers.py) is carried by the mapper units: the real add_type / get_type
    over a dictionary with symbolic keys"""
    if "dali.device.helpers:DeviceInstanceTypeMapper.get_type" in keys:
        return [u for u in units if "/mapper/" in u.name]
    return []


# checks whose proof units establish the callee contracts applied here (re-verified by this check, see main.dependency_units)
DEPENDENCIES = ['C04', 'C05']

META = {
    "level": "proof",
    "bounds": {"held events (BOUNDED stand-in)": "400 batches of 6 random event frames (thorough: 6000 x 8) decoded without a map, "
               "held, then observed and retry_decode'd against a random map; compared with decoding each frame on its own",
               "event frames": "all 2^23 24-bit frames with bit 16 clear (symbolic), with no map, with a map answering any "
               "type 0..31 and with a map without entry", "map contents": "one add_type through int / address-object / "
               "module arguments followed by lookups of the same and of an arbitrary other pair (all symbolic)"},
    "assumptions": [
        "the oracle is specs/events.py, transcribed from IEC 62386-103 Table 3 and parts 301/303/304 (trusted)",
        "Frame/Address operations through their contracts; decode bodies inlined",
        "in the decode units the map is abstracted by the get_type contract (arbitrary fixed answer); the real "
        "add_type/get_type are verified separately over a dictionary with symbolic keys (association-list model)",
    ],
    "undecided_clauses": [],
    "trusted_base": ["specs/events.py", "contracts/frame.py", "contracts/address.py", "contracts/helpers.py",
                     "association-list model of dict for symbolic keys"],
}
