"""Shared builders for the driver properties (C15-C20)."""
import logging
from pyvc.aio import World, install, MEvent, MLock, MSemaphore, MQueue, MTransport
from pyvc.models import AssocDict
from pyvc.values import SBytes, mk_bytes
from pyvc.spec import And, Or, Not, ite, type_of, is_instance
from pyvc import sym
from dali import frame as F, command as C
from dali.gear import general as G, colour as COL
from dali.device import general as D
from dali.driver import hid as HID

FK = "dali.frame:"
# sample command classes: only .frame, .sendtwice, .response, .is_query and .devicetype matter to a driver
SAMPLE_16 = [G.Off, G.Reset, G.QueryActualLevel, G.QueryControlGearPresent, G.QueryStatus, COL.QueryColourValue,
             COL.StoreColourTemperatureTcLimit, G.QueryShortAddress]
SAMPLE_24 = [D.IdentifyDevice, D.QueryDeviceStatus, D.DTR0, D.QueryInstanceEnabled, D.QueryEventScheme]


class SeqSource:
    """the driver's sequence-number generator, abstracted by its contract: next value in 1..255"""

    def __init__(self, value):
        self.value = value
        self.taken = 0

    def next_value(self):
        self.taken += 1
        return self.value


def mk_command(ctx, cls, bits, p="f"):
    fr = ctx.new(F.ForwardFrame, _bits=bits, _data=ctx.int(p + "data", 0, (1 << bits) - 1), _error=False)
    return ctx.new(cls, _data=fr), fr


def expected_kind(cls):
    if cls.response is None:
        return "-"
    return "r"


def bytes_equal(data, want):
    """written data (bytes-like with symbolic elements) equals the expected list of byte values"""
    items = list(data.items) if isinstance(data, SBytes) else list(data)
    if len(items) != len(want):
        return False
    return And([a == b for a, b in zip(items, want)])


FLAG_VARIANTS = [("plain", False, None), ("twice", True, None), ("query", False, C.NumericResponse),
                 ("yesno", False, C.YesNoResponse), ("generic", False, C.Response)]


def abstract_command(ctx, bits, twice, response, devicetype=0, p="f"):
    """a command seen only through what a driver reads: frame (fully symbolic), sendtwice, response, devicetype;
    it renders as text like any generic Command"""
    fr = ctx.new(F.ForwardFrame, _bits=bits, _data=ctx.int(p + "data", 0, (1 << bits) - 1), _error=False)
    return ctx.new(C.Command, _data=fr, sendtwice=twice, response=response, devicetype=devicetype), fr


def mk_report(ctx, data):
    """a byte string received from a gateway (symbolic bytes / real bytes)"""
    from pyvc.values import SBytes
    return bytes(data) if getattr(ctx, "native", False) else SBytes(data)


def entries(mapping):
    """(key, value) pairs of a driver's in-flight table (association list symbolically, dict natively)"""
    return list(mapping.live_entries()) if hasattr(mapping, "live_entries") else list(mapping.items())


def has_key(interp, mapping, key):
    return mapping.lookup(interp, key)[0] if hasattr(mapping, "lookup") else key in mapping


class Attrs:
    """attribute access on an object under proof, in both modes (SObj field map / real instance)"""

    def __init__(self, interp, obj):
        self.interp, self.obj = interp, obj

    def __setitem__(self, k, v):
        self.interp.set_attr(self.obj, k, v)

    def __getitem__(self, k):
        return self.interp.get_attr(self.obj, k)


# driver objects are built by their real constructors, then put into the state a proof unit describes
from pyvc.values import register_init_built          # noqa: E402
from dali.driver import hid as _HID, serial as _SER    # noqa: E402
register_init_built(_SER.DriverLubaRs232.LubaProtocol)
register_init_built(_SER.DriverSCIRS232.SCIRS232Protocol)
register_init_built(_SER.DistributorQueue)
register_init_built(_SER.DriverLubaRs232, "luba232:/dev/ttyS0")
register_init_built(_SER.DriverSCIRS232, "scirs232:/dev/ttyS0")
register_init_built(_HID.hid, "/dev/hidraw0")
register_init_built(_HID.tridonic, "/dev/hidraw0")
register_init_built(_HID.hasseb, "/dev/hidraw0")
register_init_built(_HID._callback, None)
