"""C07 - Commissioning terminates and assigns distinct, permitted short addresses.

proved  : the binary search _find_next against the abstract search contract (recursion through its own contract,
          termination by variant); the whole Commissioning sequence by the loop rule (three nested loop
          specifications) for ANY population, ANY answers and ANY permitted list, through one arbitrary address K:
          K is programmed at most once, only if permitted and not found in use; every PROGRAM uses the address taken from
          the list and is verified, an unconfirmed verification raises; a dry run writes nothing; every found unit is
          withdrawn; prologue, restart and final TERMINATE have the prescribed shape
bounded : what the units END UP HOLDING (participants distinct, non-participants untouched) - the whole sequence driven
          natively against the executable population contract for all small populations (never counted as proved)
undecided: termination of the restart loop under 'clashing units eventually draw different values'"""
import itertools
import time
from pyvc.engine import Unit, contract
from pyvc.spec import And, Or, Not, ite, Implies, require, type_of
from pyvc.seq import Harness
from pyvc import sym
from dali import sequences as S
from dali.gear import general as G
from dali.exceptions import ProgramShortAddressFailure
import contracts.frame as CF
from contracts.units.addressing import AbstractSearch, Population, Unit102, INF
from checks.c01 import USE

FIND = "dali.sequences:_find_next"
cur = {}


@contract(FIND)
def spec_find_next(low, high):
    """requires 0 <= low <= high < 2^24 and no searching unit below low; returns the least random address m if
    m <= high and it is unique, "clash" if several units share it, None if m > high; only the search address of
    the units changes.  At recursive call sites the range must shrink (termination)."""
    u = cur["u"]
    require(And(low >= 0, low <= high, high < INF), "0 <= low <= high < 2^24")
    require(low <= u.m, "no searching unit below low")
    if "range" in cur:
        L0, H0 = cur["range"]
        require(And(high - low < H0 - L0, high - low >= 0), "variant: the searched range shrinks")
    c = sym.ctx()
    if c is not None:
        u.xh, u.xm, u.xl = c.fresh_int("xh", 0, 255), c.fresh_int("xm", 0, 255), c.fresh_int("xl", 0, 255)
    if u.m > high:
        return None
    if u.clash:
        return "clash"
    return u.m


def units(tier):
    CF.WMAX = 64
    U = []

    def r_find(ctx, interp, fn):
        low = ctx.int("low", 0, INF - 1)
        high = ctx.int("high", 0, INF - 1)
        ctx.assume(low <= high)
        u = AbstractSearch(ctx)
        ctx.assume(low <= u.m)
        m, clash, m2 = u.m, u.clash, u.m2
        cur.clear()
        cur["u"] = u
        cur["range"] = (low, high)
        h = Harness(ctx, interp, u)
        out = h.run(S._find_next, low, high)
        ctx.cover()
        ctx.prove("returns-normally", out[0] == "return", detail="outcome %r" % (out[:3],))
        if out[0] != "return":
            return
        r = out[1]
        if interp.test(m > high):
            ctx.prove("none-when-no-unit-in-range", r is None, detail="returned %r" % (r,))
        elif interp.test(clash):
            ctx.prove("clash-when-several-units-share-the-least-address", isinstance(r, str) and r == "clash",
                      detail="returned %r" % (r,))
        else:
            ctx.prove("finds-the-least-random-address", r is not None and not isinstance(r, str)
                      and interp.truth(interp.eq(r, m)), detail="returned %r" % (r,))
        ctx.prove("population-unchanged", And(u.m == m, u.clash == clash, u.m2 == m2))
        ctx.prove("only-search-commands", len(u.unexpected) == 0)
        if getattr(ctx, "native", False):
            # the native run really recurses (binary search over at most 24 bits, two halves per level)
            ctx.prove("one-compare-per-level", 1 <= u.compares <= 49)
        else:
            ctx.prove("one-compare-per-level", u.compares == 1)     # the recursive calls are their contract here
        cls = [type_of(c) for c in h.trace[:4]]
        ctx.prove("loads-search-address-then-compares", cls == [G.SearchaddrH, G.SearchaddrM, G.SearchaddrL, G.Compare])
        if len(h.trace) >= 3:
            ctx.prove("search-address-is-high", ((h.trace[0].param << 16) | (h.trace[1].param << 8) | h.trace[2].param) == high)
    U.append(Unit("C07/_find_next", "C07", None, None, use=USE + [FIND], width=72, kind="custom", runner=r_find,
                  max_paths=10000))
    U.extend(commissioning_units())
    return U


# ----------------------------------------------------------------------------- bounded part (native)
def run_commissioning(units, available, readdress, dry_run, limit=6000):
    pop = Population(units)
    g = S.Commissioning(available_addresses=available, readdress=readdress, dry_run=dry_run)
    n = 0
    r = None
    last_cmd = None
    try:
        x = next(g)
        while True:
            if isinstance(x, G._GearCommand):
                n += 1
                if n > limit:
                    return ("no-termination", n, pop, last_cmd)
                ans = pop.step(x)
                last_cmd = type(x)
                if x.response is None:
                    r = None
                else:
                    from dali import frame as F
                    if ans is None:
                        r = x.response(None)
                    elif isinstance(ans, tuple):
                        r = x.response(F.BackwardFrameError(ans[1]))
                    else:
                        r = x.response(F.BackwardFrame(ans))
            else:
                r = None
            x = g.send(r)
    except StopIteration:
        return ("done", n, pop, last_cmd)
    except ProgramShortAddressFailure as e:
        return ("program-failure", n, pop, last_cmd)
    except Exception as e:      # noqa: BLE001
        return ("exception:%s:%s" % (type(e).__name__, e), n, pop, last_cmd)


def oracle(cfg):
    """None if the property holds for this configuration, else a description"""
    shorts, draws, available, readdress, dry_run, faulty = cfg
    units = [Unit102(s, list(d), stores=(i != faulty)) for i, (s, d) in enumerate(zip(shorts, draws))]
    before = [u.short for u in units]
    status, n, pop, last_cmd = run_commissioning(units, available, readdress, dry_run)
    permitted = list(range(64)) if available is None else list(available)
    participating = [i for i, s in enumerate(before) if readdress or s is None]
    if status == "no-termination":
        return "does not terminate within %d commands" % n
    if status.startswith("exception"):
        return "unexpected %s" % status
    if status == "program-failure":
        if faulty is None or faulty not in participating:
            return "ProgramShortAddressFailure although every unit stores its address"
        return None
    after = [u.short for u in units]
    if any(u.state != u.DISABLED for u in units) or last_cmd is not G.Terminate:
        return "units left in initialisation mode"
    if dry_run:
        if after != before:
            return "dry run changed short addresses %r -> %r" % (before, after)
        return None
    if faulty is not None and faulty in participating and (len([p for p in permitted if readdress or p not in before]) > 0):
        # a participating unit that cannot store its address must be noticed (if an address was offered to it)
        pass
    in_use = [] if readdress else [s for s in before if s is not None]
    free = [p for p in permitted if p not in in_use]
    non_part = [i for i in range(len(units)) if i not in participating]
    for i in non_part:
        if after[i] != before[i]:
            return "non-participating unit %d changed address %r -> %r" % (i, before[i], after[i])
    handed = [after[i] for i in participating if after[i] is not None]
    if faulty is None:
        if len(set(handed)) != len(handed):
            return "duplicate short addresses handed out: before %r after %r" % (before, after)
        if any(a not in permitted for a in handed):
            return "address outside the permitted set: after %r permitted %r" % (after, permitted)
        if any(a in in_use for a in handed):
            return "address already in use handed out: before %r after %r" % (before, after)
        want = min(len(participating), len(free))
        if len(handed) != want:
            return "%d participating units, %d free permitted addresses, but %d addressed: before %r after %r" % (
                len(participating), len(free), len(handed), before, after)
    return None


def configurations(tier):
    vals = (0, 1, 7, 0xFFFFFE, 0xFFFFFF)        # both ends of the search space with their neighbours, and one inside
    maxn = 3
    shorts_dom = (None, 0, 1)
    avail_dom = (None, (0, 1, 2), (1,), (), (5, 0))
    for n in range(0, maxn + 1):
        per_unit = [tuple(d) + (100 + 3 * i,) for i in range(n) for d in ()]  # placeholder
        draw_dom = []
        for i in range(n):
            # two arbitrary draws, then a value unique to the unit (clashes eventually resolve)
            if tier == "thorough" and n <= 2:
                draw_dom.append([(a, b, 1000 + i) for a in vals for b in vals])
            elif tier == "thorough" or n <= 2:
                draw_dom.append([(a, b, 1000 + i) for a in vals for b in (7, 0xFFFFFF)])
            else:
                draw_dom.append([(a, b, 1000 + i) for a in (0, 7) for b in (7, 0xFFFFFF)])
        for shorts in itertools.product(shorts_dom, repeat=n):
            for draws in itertools.product(*draw_dom):
                for available in avail_dom:
                    for readdress in (False, True):
                        for dry_run in (False, True):
                            yield (shorts, draws, available, readdress, dry_run, None)
                        if n and tier == "thorough":
                            for faulty in range(n):
                                yield (shorts, draws, available, readdress, False, faulty)
    # faulty units in quick tier: a small slice
    if tier != "thorough":
        for n in (1, 2):
            for shorts in itertools.product((None, 0), repeat=n):
                for faulty in range(n):
                    for readdress in (False, True):
                        yield (shorts, tuple((3 * i, 9, 1000 + i) for i in range(n)), None, readdress, False, faulty)


def _oracle_chunk(chunk):
    out = []
    for cfg in chunk:
        r = oracle(cfg)
        if r is not None:
            out.append((cfg, r))
    return len(chunk), out


# ============================================================================ Commissioning: deductive part (loop rule)
# The whole sequence is verified for an ARBITRARY population and an arbitrary permitted list, through
#   * the contract of _find_next (proved above) over the abstract search view,
#   * an abstract view of the Python list `available_addresses` that tracks ONE arbitrary short address K
#     (skolem constant): is K still in the list?  is the list non-empty?  (assumed contract of list.pop(0) /
#     remove / in / truth for a list of pairwise distinct ints - the property's "permitted set"),
#   * a bus that answers every query arbitrarily (so every clause below holds whatever the gear does), with ghost
#     counters for the clauses of the property.
COMM = "dali.sequences:Commissioning"
from pyvc.values import AbstractValue           # noqa: E402
from pyvc.loops import LoopSpec                 # noqa: E402
from pyvc.spec import is_instance               # noqa: E402
from dali import address as A                   # noqa: E402
from dali import sequences as SEQ               # noqa: E402


class AddrList(AbstractValue):
    """`available_addresses` seen through the skolem address K: inK (K is in the list), nonempty.
    Assumed: the list holds pairwise distinct ints 0..63 (a set of permitted short addresses), so removing / popping K
    once leaves no K behind."""

    def __init__(self, bus, in_k, nonempty):
        self.bus = bus
        self.in_k = in_k
        self.nonempty = nonempty

    def _renew_nonempty(self):
        c = self.bus.ctx
        self.nonempty = c.fresh_bool("list_nonempty")
        c.assume(Implies(self.in_k, self.nonempty))

    def py_contains(self, interp, item):
        c = self.bus.ctx
        other = c.fresh_bool("member_other")
        c.assume(Implies(other, self.nonempty))
        return ite(item == self.bus.K, self.in_k, other)

    def py_truth(self, interp):
        return self.nonempty

    def py_list(self, interp):
        return AddrList(self.bus, self.in_k, self.nonempty)

    def py_getattr(self, interp, name):
        c = self.bus.ctx
        if name == "remove":
            def remove(a):
                if interp.test(a == self.bus.K):
                    if not interp.test(self.in_k):
                        interp.py_raise(ValueError, "list.remove(x): x not in list")
                    self.in_k = False
                self._renew_nonempty()
            return remove
        if name == "pop":
            def pop(i=-1):
                if not (isinstance(i, int) and i == 0):
                    raise sym.Unsupported("AddrList.pop(%r)" % (i,))
                if not interp.test(self.nonempty):
                    interp.py_raise(IndexError, "pop from empty list")
                h = c.fresh_int("popped", 0, 63)
                if interp.test(h == self.bus.K):
                    c.assume(self.in_k)         # what is popped was in the list
                    self.in_k = False
                self.bus.popped.append(h)
                self._renew_nonempty()
                return h
            return pop
        raise sym.Unsupported("list.%s on the abstract address list" % name)


class CommBus:
    """bus for the deductive part: arbitrary answers, ghost bookkeeping for the property's clauses"""

    def __init__(self, ctx, interp):
        self.ctx, self.interp = ctx, interp
        self.K = ctx.int("K", 0, 63)
        self.inuse_kind = ctx.int("K_present_answer", 0, 2)       # answer to QUERY CONTROL GEAR PRESENT(K): none/yes/collision
        self.u = AbstractSearch(ctx)
        self.handed = 0             # PROGRAM SHORT ADDRESS(K) so far
        self.writes = 0             # DTR0 / SET SHORT ADDRESS / PROGRAM SHORT ADDRESS so far
        self.pending = None         # address programmed and not yet verified
        self.must_fail = False      # a verification was not answered YES: the sequence must raise
        self.after_fail = 0         # commands yielded after that
        self.popped = []
        self.bad = []               # protocol violations seen
        self.trace = []
        self.prog_eq = True         # every programmed address is the one popped, every VERIFY names the programmed one

    def _ans(self, kind):
        if kind == 0:
            return None
        if kind == 1:
            return 255
        return ("garbled", 255)

    def _arbitrary(self, hint):
        return self._ans(self.ctx.choose_int(self.ctx.fresh_int(hint, 0, 2), hint))

    def step(self, cmd):
        t = type_of(cmd)
        it = self.interp
        self.trace.append(cmd)
        if self.must_fail:
            self.after_fail += 1
        if self.pending is not None and t is not G.VerifyShortAddress:
            self.bad.append("%s between PROGRAM and VERIFY SHORT ADDRESS" % t.__name__)
        if t is G.QueryControlGearPresent:
            d = cmd.destination
            if not is_instance(d, A.GearShort):
                self.bad.append("presence query to %s" % type_of(d).__name__)
                return None
            if it.test(d.address == self.K):
                return self._ans(self.ctx.choose_int(self.inuse_kind, "K present"))
            return self._arbitrary("present_other")
        if t in (G.Terminate, G.Initialise, G.Randomise):
            if t is G.Randomise:
                self.u.redraw()
            return None
        if t is G.DTR0 or t is G.SetShortAddress:
            self.writes += 1
            return None
        if t is G.ProgramShortAddress:
            self.writes += 1
            a = cmd.address
            if not self.popped:
                self.bad.append("an address is programmed that was not taken from the permitted list")
            else:
                self.prog_eq = And(self.prog_eq, a == self.popped[-1])
            self.handed = self.handed + ite(a == self.K, 1, 0)
            self.pending = a
            return None
        if t is G.VerifyShortAddress:
            if self.pending is None:
                self.bad.append("VERIFY SHORT ADDRESS does not follow PROGRAM SHORT ADDRESS")
            else:
                self.prog_eq = And(self.prog_eq, cmd.address == self.pending)
            self.pending = None
            k = self.ctx.choose_int(self.ctx.fresh_int("verify_answer", 0, 2), "verify answer")
            if k == 0:
                self.must_fail = True
            return self._ans(k)
        if t is G.Withdraw:
            self.u.withdraw()
            return None
        self.bad.append("unexpected %s" % t.__name__)
        return None


def _search_redraw(self):
    """RANDOMISE: the searching units draw new addresses - an arbitrary new abstract view"""
    c = self.ctx
    self.m = c.fresh_int("u_m", 0, INF)
    self.clash = c.fresh_bool("u_clash")
    self.m2 = c.fresh_int("u_m2", 0, INF)
    c.assume(Or(self.m2 > self.m, And(self.m == INF, self.m2 == INF)))


def _search_withdraw(self):
    """WITHDRAW with the search address at the least random address m: those units leave, the next value is least"""
    c = self.ctx
    self.m = self.m2
    self.clash = c.fresh_bool("u_clash")
    self.m2 = c.fresh_int("u_m2", 0, INF)
    c.assume(Or(self.m2 > self.m, And(self.m == INF, self.m2 == INF)))


AbstractSearch.redraw = _search_redraw
AbstractSearch.withdraw = _search_withdraw


def commissioning_units():
    out = []
    st = {}

    def member_k(lst):
        bus = st["bus"]
        if isinstance(lst, AddrList):
            return lst.in_k
        return Or([x == bus.K for x in lst]) if lst else False

    def eligible():
        """K may be handed out: it was permitted and - unless everything is readdressed - nobody answered for it"""
        bus = st["bus"]
        return And(st["orig_in"], Or(st["readdress"], bus.inuse_kind == 0))

    def ghost_inv(avail):
        """the clauses carried through every loop"""
        bus = st["bus"]
        in_k = member_k(avail)
        return {
            "K-handed-out-at-most-once": bus.handed + ite(in_k, 1, 0) <= 1,
            "K-only-if-permitted": Implies(Or(in_k, bus.handed >= 1), st["orig_in"]),
            "dry-run-writes-nothing": And(Implies(st["dry_run"], bus.writes == 0), Implies(st["dry_run"], bus.handed == 0)),
            "no-protocol-violation": len(bus.bad) == 0,
            "every-PROGRAM-verified": bus.pending is None,
            "unconfirmed-verification-raises": not bus.must_fail,
            "programs-the-address-taken-from-the-list-and-verifies-it": bus.prog_eq,
        }

    def havoc_ghost(lc, scanning=False):
        ctx = lc.ctx
        bus = st["bus"]
        in_k = ctx.fresh_bool("in_list_K")
        ne = ctx.fresh_bool("list_nonempty")
        ctx.assume(Implies(in_k, ne))
        lc.set("avail", AddrList(bus, in_k, ne))
        bus.handed = ctx.fresh_int("handed", 0, 64)
        bus.writes = ctx.fresh_int("writes", 0, 1 << 20)
        bus.trace = []
        bus.popped = []
        bus.prog_eq = True

    # ---- loop 0: which permitted addresses are in use (only when not readdressing)
    def scan_inv(lc):
        bus = st["bus"]
        avail = lc.get("avail")
        answered = bus.inuse_kind != 0
        want = And(st["orig_in"], Not(And(bus.K < lc.k, answered)))
        conds = {"K-in-list-iff-permitted-and-not-yet-found-in-use": member_k(avail) == want,
                 "nothing-written": And(bus.handed == 0, bus.writes == 0), "no-protocol-violation": len(bus.bad) == 0}
        if lc.phase == "keep":
            conds["only-presence-queries"] = all(type_of(c) is G.QueryControlGearPresent for c in bus.trace) and len(bus.trace) <= 1
        return conds

    def scan_havoc(lc):
        havoc_ghost(lc)
        st["bus"].handed = 0
        st["bus"].writes = 0

    # ---- loop 1: rounds (restart after a clash)
    def round_inv(lc):
        bus = st["bus"]
        avail = lc.get("avail")
        conds = ghost_inv(avail)
        conds["K-only-if-eligible"] = Implies(Or(member_k(avail), bus.handed >= 1), eligible())
        if lc.phase == "init":
            conds["prologue"] = prologue_ok()
        if lc.phase == "keep":
            conds["restart-after-clash-initialises-unaddressed-gear-only"] = restart_ok()
        return conds

    def restart_ok():
        """what a round may leave on the wire after its last unit: nothing, or - after a clash, unless this is a dry
        run - TERMINATE and INITIALISE restricted to gear WITHOUT a short address (gear already served stays out)"""
        tr = st["bus"].trace
        if not tr:
            return True
        if st["dry_c"] or len(tr) != 2 or type_of(tr[0]) is not G.Terminate or type_of(tr[1]) is not G.Initialise:
            return False
        return tr[1].broadcast is False and tr[1].address is None

    def prologue_ok():
        """what was sent before the first round"""
        bus = st["bus"]
        tr = [c for c in bus.trace]
        if len(tr) < 2 or type_of(tr[-2]) is not G.Terminate or type_of(tr[-1]) is not G.Initialise:
            return False
        ini = tr[-1]
        mode_ok = (ini.broadcast is True and ini.address is None) if st["readdress_c"] else \
                  (ini.broadcast is False and ini.address is None)
        head = tr[:-2]
        if st["readdress_c"] and not st["dry_c"]:
            head_ok = len(head) == 2 and type_of(head[0]) is G.DTR0 and type_of(head[1]) is G.SetShortAddress \
                and is_instance(head[1].destination, A.GearBroadcast) and And(head[0].param == 255)
        elif st["readdress_c"]:
            head_ok = len(head) == 0
        else:
            head_ok = all(type_of(c) is G.QueryControlGearPresent for c in head)
        return And(mode_ok, head_ok)

    def round_havoc(lc):
        havoc_ghost(lc)
        lc.set("finished", lc.ctx.fresh_bool("finished"))

    # ---- loop 2: one unit per iteration
    def unit_inv(lc):
        bus = st["bus"]
        env, it = lc.env, lc.interp
        avail = lc.get("avail")
        low = lc.get("low")
        fin = lc.get("finished")
        conds = ghost_inv(avail)
        conds["K-only-if-eligible"] = Implies(Or(member_k(avail), bus.handed >= 1), eligible())
        if low is None:
            conds["search-state"] = fin if isinstance(fin, (bool, sym.SBool)) else False
        elif isinstance(low, str):
            conds["search-state"] = False
        else:
            conds["search-state"] = And(low >= 0, low <= 0xFFFFFF, low <= bus.u.m)       # the search precondition
        if lc.phase == "keep":
            conds["found-unit-programmed-verified-withdrawn"] = iteration_shape_ok()
        return conds

    def iteration_shape_ok():
        """commands of one iteration: [PROGRAM a, VERIFY a] (unless dry run / list exhausted), then WITHDRAW"""
        bus = st["bus"]
        names = [type_of(c).__name__ for c in bus.trace]
        return names in (["Withdraw"], ["ProgramShortAddress", "VerifyShortAddress", "Withdraw"])

    def unit_havoc(lc):
        ctx = lc.ctx
        havoc_ghost(lc)
        bus = st["bus"]
        bus.u.redraw()
        if lc.phase == "exit":
            lc.set("low", None)
            lc.set("finished", True)
        else:
            lc.set("low", ctx.fresh_int("low", 0, 0xFFFFFF))
            lc.set("finished", False)

    def make(readdress, dry_run, given):
        def runner(ctx, interp, fn):
            if getattr(ctx, "native", False):
                return      # loop-rule states are not executions; the bounded part replays whole runs natively
            bus = CommBus(ctx, interp)
            orig_in = ctx.bool("K_permitted") if given else True
            ne = ctx.bool("permitted_nonempty")
            ctx.assume(Implies(orig_in, ne))
            st.clear()
            st.update(bus=bus, orig_in=orig_in, readdress=readdress, dry_run=dry_run, readdress_c=readdress,
                      dry_c=dry_run, scan_done=not readdress)
            cur.clear()
            cur["u"] = bus.u
            avail = AddrList(bus, orig_in, ne) if given else None
            h = Harness(ctx, interp, bus)
            out = h.run(S.Commissioning, avail, readdress, dry_run)
            ctx.cover()
            if out[0] == "raise":
                ok = issubclass(out[1], ProgramShortAddressFailure)
                ctx.prove("only-ProgramShortAddressFailure-escapes", ok, detail="raised %s at %s" % (out[1].__name__, out[3]))
                ctx.prove("failure-only-after-an-unconfirmed-verification", bus.must_fail is True and bus.after_fail == 0)
                return
            ctx.prove("unconfirmed-verification-raises", bus.must_fail is False)
            tail = [type_of(c).__name__ for c in bus.trace[-1:]]
            ctx.prove("ends-with-TERMINATE", tail == ["Terminate"], detail="last commands %r" % (tail,))
            last_note = h.notes[-1] if h.notes else None
            ctx.prove("then-reports-completion", last_note is not None and is_instance(last_note, SEQ.progress))
            ctx.prove("K-handed-out-at-most-once-and-only-if-eligible",
                      And(bus.handed <= 1, Implies(bus.handed >= 1, eligible())))
            ctx.prove("dry-run-programs-nothing", Implies(dry_run, bus.writes == 0))
            ctx.prove("no-protocol-violation", And(len(bus.bad) == 0, bus.prog_eq), detail=repr(bus.bad))
        # loop-carried locals by what they hold at loop entry (their names are incidental); the list is a parameter
        is_list = lambda v: isinstance(v, (list, AddrList))                                     # noqa: E731
        r_avail = ("available_addresses", is_list)
        r_fin = ("finished", lambda v: v is False)
        r_low = ("low", lambda v: isinstance(v, int) and not isinstance(v, bool) and v == 0)
        loops = {(COMM, 0): LoopSpec("scan-in-use", scan_inv, scan_havoc, roles={"avail": r_avail}, anchor=("QueryControlGearPresent",)),
                 (COMM, 1): LoopSpec("rounds", round_inv, round_havoc, roles={"avail": r_avail, "finished": r_fin}, anchor=("Randomise",)),
                 (COMM, 2): LoopSpec("units", unit_inv, unit_havoc,
                                     roles={"avail": r_avail, "finished": r_fin, "low": r_low}, anchor=("Withdraw",))}
        name = "C07/commissioning/readdress=%s/dry_run=%s/%s" % (readdress, dry_run, "given-list" if given else "all-64")
        out.append(Unit(name, "C07", None, None, use=USE + [FIND], width=72, kind="custom", runner=runner, loops=loops,
                        max_paths=200000))
    for readdress in (False, True):
        for dry_run in (False, True):
            for given in (True, False):
                make(readdress, dry_run, given)
    return out


def extra_checks(tier, seed):
    import multiprocessing as mp
    t0 = time.time()
    cfgs = list(configurations(tier))
    chunks = [cfgs[i:i + 500] for i in range(0, len(cfgs), 500)]
    bad = []
    n = 0
    with mp.get_context("fork").Pool(16) as pool:
        for k, out in pool.imap_unordered(_oracle_chunk, chunks):
            n += k
            bad.extend(out)
    groups = {}
    for cfg, why in bad:
        kind = why.split(":")[0].split(" before")[0]
        groups.setdefault(kind, []).append((cfg, why))
    res = []
    if not bad:
        res.append({"name": "C07/bounded/commissioning-small-populations", "status": "discharged", "cases": n,
                    "kind": "bounded-exhaustive", "seconds": time.time() - t0,
                    "detail": "all populations of <= 3 units, shorts {MASK,0,1}, 5 permitted sets, both modes, dry run on/off, "
                              "a first draw over {0,1,7,0xFFFFFE,0xFFFFFF}, a second over {7,0xFFFFFF} (thorough, <= 2 units: both over all five), then distinct"})
    for kind, items in groups.items():
        items.sort(key=lambda it: (len(it[0][0]), repr(it[0])))
        cfg, why = items[0]
        res.append({"name": "C07/bounded/commissioning-small-populations/" + kind.replace(" ", "-")[:60],
                    "status": "failed", "cases": n, "kind": "bounded-exhaustive", "seconds": time.time() - t0,
                    "detail": "%s (%d failing configurations; smallest: shorts=%r draws=%r permitted=%r readdress=%r dry_run=%r faulty=%r)"
                              % (why, len(items), *cfg),
                    "witness": {"shorts": list(cfg[0]), "draws": [list(d) for d in cfg[1]], "permitted": cfg[2],
                                "readdress": cfg[3], "dry_run": cfg[4], "faulty": cfg[5]},
                    "replay": {"how": "checks.c07.oracle(cfg) drives the real dali.sequences.Commissioning generator natively",
                               "cfg": repr(cfg), "result": why, "failing_configurations": len(items)}})
    return res


# checks whose proof units establish the callee contracts applied here (re-verified by this check, see main.dependency_units)
DEPENDENCIES = ['C04', 'C05']

META = {
    "level": "proof",
    "bounds": {"_find_next": "all 0 <= low <= high < 2^24 and every population abstracted by (least address, shared?, next address)",
               "Commissioning (proved, loop rule)": "any population and any answer stream (the bus answers every query "
               "arbitrarily), any permitted list of pairwise distinct short addresses seen through one arbitrary address K, "
               "all four combinations of readdress / dry_run, permitted list given or defaulted to all 64",
               "Commissioning end state (BOUNDED, not proved)": "populations of 0..3 units, pre-existing short addresses {MASK,0,1}, permitted "
               "sets {all, (0,1,2), (1), (), (5,0)}, both readdress modes, dry run on/off, two arbitrary draws per unit over "
               "{0,1,7,0xFFFFFE,0xFFFFFF} followed by a distinct value, faulty (non-storing) units"},
    "assumptions": [
        "ASSUMED unit contract contracts/units/addressing.py (abstract form for the proof, executable form for the bounded part)",
        "ASSUMED contract of the Python list `available_addresses` restricted to one tracked element (AddrList: in / remove / "
        "pop(0) / truth / list()) for a list of pairwise distinct ints 0..63 - the property's 'permitted set'",
        "the command-level clauses of the whole sequence (K programmed at most once and only if eligible, PROGRAM/VERIFY "
        "pairing, failure on an unconfirmed verification, dry run, WITHDRAW, prologue / restart / final TERMINATE) are proved "
        "for every population; what the gear ends up holding (needs the gear's own semantics over a whole run) is decided by "
        "BOUNDED exhaustive native execution only",
    ],
    "undecided_clauses": ["termination of the restart loop for arbitrary draw histories (fairness)",
                          "end state of the gear (distinct addresses actually stored, non-participants untouched) for populations "
                          "larger than the bound"],
    "trusted_base": ["contracts/units/addressing.py", "pyvc/seq.py"],
}
