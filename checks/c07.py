"""C07 - Commissioning terminates and assigns distinct, permitted short addresses.

proved  : the binary search _find_next against the abstract search contract (recursion through its own contract,
          termination by variant)
bounded : the whole Commissioning sequence driven natively against the executable population contract for all
          small populations (never counted as proved)
undecided: termination of the restart loop under 'clashing units eventually draw different values'"""
import itertools
import time
from pyvc.engine import Unit, contract
from pyvc.spec import And, Or, Not, ite, Implies, require, type_of
from pyvc.seq import Harness
from pyvc import sym
from dali import sequences as S
from dali.gear import general as G
from dali.exceptions import ProgramShortAddressFailure
import contracts.frame as CF
from contracts.units.addressing import AbstractSearch, Population, Unit102, INF
from checks.c01 import USE

FIND = "dali.sequences:_find_next"
cur = {}


@contract(FIND)
def spec_find_next(low, high):
    """requires 0 <= low <= high < 2^24 and no searching unit below low; returns the least random address m if
    m <= high and it is unique, "clash" if several units share it, None if m > high; only the search address of
    the units changes.  At recursive call sites the range must shrink (termination)."""
    u = cur["u"]
    require(And(low >= 0, low <= high, high < INF), "0 <= low <= high < 2^24")
    require(low <= u.m, "no searching unit below low")
    if "range" in cur:
        L0, H0 = cur["range"]
        require(And(high - low < H0 - L0, high - low >= 0), "variant: the searched range shrinks")
    c = sym.ctx()
    if c is not None:
        u.xh, u.xm, u.xl = c.fresh_int("xh", 0, 255), c.fresh_int("xm", 0, 255), c.fresh_int("xl", 0, 255)
    if u.m > high:
        return None
    if u.clash:
        return "clash"
    return u.m


def units(tier):
    CF.WMAX = 64
    U = []

    def r_find(ctx, interp, fn):
        low = ctx.int("low", 0, INF - 1)
        high = ctx.int("high", 0, INF - 1)
        ctx.assume(low <= high)
        u = AbstractSearch(ctx)
        ctx.assume(low <= u.m)
        m, clash, m2 = u.m, u.clash, u.m2
        cur.clear()
        cur["u"] = u
        cur["range"] = (low, high)
        h = Harness(ctx, interp, u)
        out = h.run(S._find_next, low, high)
        ctx.cover()
        ctx.prove("returns-normally", out[0] == "return", detail="outcome %r" % (out[:3],))
        if out[0] != "return":
            return
        r = out[1]
        if interp.test(m > high):
            ctx.prove("none-when-no-unit-in-range", r is None, detail="returned %r" % (r,))
        elif interp.test(clash):
            ctx.prove("clash-when-several-units-share-the-least-address", isinstance(r, str) and r == "clash",
                      detail="returned %r" % (r,))
        else:
            ctx.prove("finds-the-least-random-address", r is not None and not isinstance(r, str)
                      and interp.truth(interp.eq(r, m)), detail="returned %r" % (r,))
        ctx.prove("population-unchanged", And(u.m == m, u.clash == clash, u.m2 == m2))
        ctx.prove("only-search-commands", len(u.unexpected) == 0)
        if getattr(ctx, "native", False):
            # the native run really recurses (binary search over at most 24 bits, two halves per level)
            ctx.prove("one-compare-per-level", 1 <= u.compares <= 49)
        else:
            ctx.prove("one-compare-per-level", u.compares == 1)     # the recursive calls are their contract here
        cls = [type_of(c) for c in h.trace[:4]]
        ctx.prove("loads-search-address-then-compares", cls == [G.SearchaddrH, G.SearchaddrM, G.SearchaddrL, G.Compare])
        if len(h.trace) >= 3:
            ctx.prove("search-address-is-high", ((h.trace[0].param << 16) | (h.trace[1].param << 8) | h.trace[2].param) == high)
    U.append(Unit("C07/_find_next", "C07", None, None, use=USE + [FIND], width=72, kind="custom", runner=r_find,
                  max_paths=10000))
    return U


# ----------------------------------------------------------------------------- bounded part (native)
def run_commissioning(units, available, readdress, dry_run, limit=6000):
    pop = Population(units)
    g = S.Commissioning(available_addresses=available, readdress=readdress, dry_run=dry_run)
    n = 0
    r = None
    last_cmd = None
    try:
        x = next(g)
        while True:
            if isinstance(x, G._GearCommand):
                n += 1
                if n > limit:
                    return ("no-termination", n, pop, last_cmd)
                ans = pop.step(x)
                last_cmd = type(x)
                if x.response is None:
                    r = None
                else:
                    from dali import frame as F
                    if ans is None:
                        r = x.response(None)
                    elif isinstance(ans, tuple):
                        r = x.response(F.BackwardFrameError(ans[1]))
                    else:
                        r = x.response(F.BackwardFrame(ans))
            else:
                r = None
            x = g.send(r)
    except StopIteration:
        return ("done", n, pop, last_cmd)
    except ProgramShortAddressFailure as e:
        return ("program-failure", n, pop, last_cmd)
    except Exception as e:      # noqa: BLE001
        return ("exception:%s:%s" % (type(e).__name__, e), n, pop, last_cmd)


def oracle(cfg):
    """None if the property holds for this configuration, else a description"""
    shorts, draws, available, readdress, dry_run, faulty = cfg
    units = [Unit102(s, list(d), stores=(i != faulty)) for i, (s, d) in enumerate(zip(shorts, draws))]
    before = [u.short for u in units]
    status, n, pop, last_cmd = run_commissioning(units, available, readdress, dry_run)
    permitted = list(range(64)) if available is None else list(available)
    participating = [i for i, s in enumerate(before) if readdress or s is None]
    if status == "no-termination":
        return "does not terminate within %d commands" % n
    if status.startswith("exception"):
        return "unexpected %s" % status
    if status == "program-failure":
        if faulty is None or faulty not in participating:
            return "ProgramShortAddressFailure although every unit stores its address"
        return None
    after = [u.short for u in units]
    if any(u.state != u.DISABLED for u in units) or last_cmd is not G.Terminate:
        return "units left in initialisation mode"
    if dry_run:
        if after != before:
            return "dry run changed short addresses %r -> %r" % (before, after)
        return None
    if faulty is not None and faulty in participating and (len([p for p in permitted if readdress or p not in before]) > 0):
        # a participating unit that cannot store its address must be noticed (if an address was offered to it)
        pass
    in_use = [] if readdress else [s for s in before if s is not None]
    free = [p for p in permitted if p not in in_use]
    non_part = [i for i in range(len(units)) if i not in participating]
    for i in non_part:
        if after[i] != before[i]:
            return "non-participating unit %d changed address %r -> %r" % (i, before[i], after[i])
    handed = [after[i] for i in participating if after[i] is not None]
    if faulty is None:
        if len(set(handed)) != len(handed):
            return "duplicate short addresses handed out: before %r after %r" % (before, after)
        if any(a not in permitted for a in handed):
            return "address outside the permitted set: after %r permitted %r" % (after, permitted)
        if any(a in in_use for a in handed):
            return "address already in use handed out: before %r after %r" % (before, after)
        want = min(len(participating), len(free))
        if len(handed) != want:
            return "%d participating units, %d free permitted addresses, but %d addressed: before %r after %r" % (
                len(participating), len(free), len(handed), before, after)
    return None


def configurations(tier):
    vals = (0, 7, 0xFFFFFF)
    maxn = 3
    shorts_dom = (None, 0, 1)
    avail_dom = (None, (0, 1, 2), (1,), (), (5, 0))
    for n in range(0, maxn + 1):
        per_unit = [tuple(d) + (100 + 3 * i,) for i in range(n) for d in ()]  # placeholder
        draw_dom = []
        for i in range(n):
            # two arbitrary draws, then a value unique to the unit (clashes eventually resolve)
            draw_dom.append([(a, b, 1000 + i) for a in vals for b in vals] if (tier == "thorough" or n <= 2)
                            else [(a, b, 1000 + i) for a in (0, 7) for b in (7, 0xFFFFFF)])
        for shorts in itertools.product(shorts_dom, repeat=n):
            for draws in itertools.product(*draw_dom):
                for available in avail_dom:
                    for readdress in (False, True):
                        for dry_run in (False, True):
                            yield (shorts, draws, available, readdress, dry_run, None)
                        if n and tier == "thorough":
                            for faulty in range(n):
                                yield (shorts, draws, available, readdress, False, faulty)
    # faulty units in quick tier: a small slice
    if tier != "thorough":
        for n in (1, 2):
            for shorts in itertools.product((None, 0), repeat=n):
                for faulty in range(n):
                    for readdress in (False, True):
                        yield (shorts, tuple((3 * i, 9, 1000 + i) for i in range(n)), None, readdress, False, faulty)


def _oracle_chunk(chunk):
    out = []
    for cfg in chunk:
        r = oracle(cfg)
        if r is not None:
            out.append((cfg, r))
    return len(chunk), out


def extra_checks(tier, seed):
    import multiprocessing as mp
    t0 = time.time()
    cfgs = list(configurations(tier))
    chunks = [cfgs[i:i + 500] for i in range(0, len(cfgs), 500)]
    bad = []
    n = 0
    with mp.get_context("fork").Pool(16) as pool:
        for k, out in pool.imap_unordered(_oracle_chunk, chunks):
            n += k
            bad.extend(out)
    groups = {}
    for cfg, why in bad:
        kind = why.split(":")[0].split(" before")[0]
        groups.setdefault(kind, []).append((cfg, why))
    res = []
    if not bad:
        res.append({"name": "C07/bounded/commissioning-small-populations", "status": "discharged", "cases": n,
                    "kind": "bounded-exhaustive", "seconds": time.time() - t0,
                    "detail": "all populations of <= 3 units, shorts {MASK,0,1}, 5 permitted sets, both modes, dry run on/off, "
                              "two arbitrary draws over {0,7,0xFFFFFF} then distinct"})
    for kind, items in groups.items():
        items.sort(key=lambda it: (len(it[0][0]), repr(it[0])))
        cfg, why = items[0]
        res.append({"name": "C07/bounded/commissioning-small-populations/" + kind.replace(" ", "-")[:60],
                    "status": "failed", "cases": n, "kind": "bounded-exhaustive", "seconds": time.time() - t0,
                    "detail": "%s (%d failing configurations; smallest: shorts=%r draws=%r permitted=%r readdress=%r dry_run=%r faulty=%r)"
                              % (why, len(items), *cfg),
                    "witness": {"shorts": list(cfg[0]), "draws": [list(d) for d in cfg[1]], "permitted": cfg[2],
                                "readdress": cfg[3], "dry_run": cfg[4], "faulty": cfg[5]},
                    "replay": {"how": "checks.c07.oracle(cfg) drives the real dali.sequences.Commissioning generator natively",
                               "cfg": repr(cfg), "result": why, "failing_configurations": len(items)}})
    return res


# checks whose proof units establish the callee contracts applied here (re-verified by this check, see main.dependency_units)
DEPENDENCIES = ['C04', 'C05']

META = {
    "level": "proof",
    "bounds": {"_find_next": "all 0 <= low <= high < 2^24 and every population abstracted by (least address, shared?, next address)",
               "Commissioning (BOUNDED, not proved)": "populations of 0..3 units, pre-existing short addresses {MASK,0,1}, permitted "
               "sets {all, (0,1,2), (1), (), (5,0)}, both readdress modes, dry run on/off, two arbitrary draws per unit over "
               "{0,7,0xFFFFFF} followed by a distinct value, faulty (non-storing) units"},
    "assumptions": [
        "ASSUMED unit contract contracts/units/addressing.py (abstract form for the proof, executable form for the bounded part)",
        "the clauses about the whole Commissioning sequence (distinct / permitted addresses, non-participants untouched, dry "
        "run, final TERMINATE, ProgramShortAddressFailure) are decided by BOUNDED exhaustive native execution only",
    ],
    "undecided_clauses": ["termination of the restart loop for arbitrary draw histories (fairness)",
                          "Commissioning for populations larger than the bound"],
    "trusted_base": ["contracts/units/addressing.py", "pyvc/seq.py"],
}
