#!/usr/bin/env python3
"""Regenerates MANIFEST.json from the table below (keeps it schema-valid)."""
import json, os
HERE = os.path.dirname(os.path.dirname(os.path.abspath(__file__)))
props = [json.loads(l) for l in open(os.path.join(HERE, "properties.jsonl"))]

TB = ("every check also re-verifies the callee contracts it applies (<prop>/dep:* obligations) and refuses to pass if an "
      "obligation of the pinned tree is no longer generated (obligations.lock.json); thorough tier: every obligation "
      "re-discharged by cvc5 and every path's witness replayed on the real code by CPython; "
      "trusted: pyvc (self-built VC generator + builtin models), z3/cvc5, the specification functions in /verif/contracts "
      "(written from the property statement), CPython's execution of the package's metaclasses at import; "
      "ints are W-bit vectors with discharged no-overflow obligations, integer arguments range over [-2^(W-2), 2^(W-2))")

CLAIMED = {
 "C05": dict(
    category="proof",
    text="Every Frame operation (constructors, len, ==, !=, bit/slice read and write, in, +, integer/byte/packed views, "
         "pack_len, str, ForwardFrame flags) is verified path by path against an executable specification function over the "
         "abstract view (bits, data): result, raised exception class and final object state must coincide for all widths "
         "1..64 (thorough: 1..256), all stored values, all indices and all written values, plus wrong-type operands; "
         "mutators are proved to preserve the representation invariant 0 <= data < 2^bits, which covers arbitrary operation "
         "histories by induction; property-level lemmas (list-of-bits semantics of slice/bit writes and reads, view "
         "round trips, concatenation, equality) are proved over the contracts only.",
    design_ref="DESIGN.md 6 (C05), 3",
    technique="contract-based deductive verification: VCs generated from the real AST by symbolic execution, "
              "refinement against spec functions, discharged by z3 (QF_BV)",
    note=TB + "; frame widths above the bound are not covered; __str__ proved total only"),
 "C04": dict(
    category="proof",
    text="Every address class (8 kinds) and instance class (11 kinds): constructor, from_frame, add_to_frame, ==, str, "
         "the Address.from_frame scan and instance_from_frame are each verified against specification functions that "
         "transcribe the standard's address-byte and instance-byte partition, for all frames of every width 1..64 "
         "(refusal with IncompatibleFrame / None and frame unchanged for wrong sizes), all numbers, all pairs of kinds "
         "for equality and wrong-type constructor arguments; callers are checked against the Frame contracts. Lemmas over "
         "the contracts: write-then-read round trip with locality (only the field's bits change) for every kind, at most "
         "one kind per frame and the scan returns it, every instance byte has exactly one kind. BOUNDED stand-in (history): every address byte x selector bit and instance byte decoded in four orders in forked processes, the orders compared with each other.",
    design_ref="DESIGN.md 6 (C04)",
    technique="contract-based deductive verification: refinement of each real function against a spec function + lemmas over "
              "contracts, z3 QF_BV",
    note=TB + "; partition tables in contracts/address.py are transcribed from the property statement and trusted"),
 "C01": dict(
    category="proof",
    text="Command.from_frame is executed symbolically (real AST) for a fully symbolic 16-bit frame under any integer device "
         "type, a fully symbolic 24-bit frame with no map and with a map resolving to None or to any integer, and frames of "
         "symbolic length 1..64; on every one of the ~11k feasible paths (the registry lookups fork over all live classes) it "
         "is proved that no exception escapes, the result is a Command whose frame is a ForwardFrame with the same width and "
         "bits, str() of it terminates without exception, the input frame is unchanged and no object that existed before "
         "the call (registries, map, frame) is stored to. BOUNDED stand-in next to the purity proof: ~10^5 ordered pairs from a "
         "pool of frames around the two command lengths, second decode == decode in a pristine forked process (gives an actual "
         "pair of frames when decoding keeps state).",
    design_ref="DESIGN.md 6 (C01)",
    technique="contract-based deductive verification: symbolic execution of the real decode paths against Frame/Address "
              "contracts, postconditions from the property, z3 QF_BV",
    note=TB + "; command-layer bodies (from_frame/__init__/__str__ of the 14 implementations) are inlined, Frame/Address/"
         "Instance/DeviceInstanceTypeMapper.get_type are used through contracts; text content not specified; frames > 64 bits "
         "not covered"),
 "C02": dict(
    category="proof",
    text="For each of the live command/event classes (taken from the registry at run time) and each legal argument family "
         "(every destination kind, instance kind, parameter, event scheme and event data, all numbers symbolic) the real "
         "constructor followed by the real decoder is executed symbolically and the decoded object is proved to be of the same "
         "class with a structurally identical attribute map, and str() total; for every illegal family (out-of-range on both "
         "sides, wrong address kind, wrong type, wrong arity, forbidden event field combinations, oversized event data) the "
         "constructor is proved to raise. An exhaustive registry check ensures no class is skipped.",
    design_ref="DESIGN.md 6 (C02)",
    technique="contract-based deductive verification: decode-after-encode lemma per class executed on the real code against "
              "Frame/Address contracts, z3 QF_BV",
    note=TB + "; constructor and decoder bodies are inlined per class, Frame/Address/Instance through contracts; same text is "
         "derived from structural equality, not proved on strings"),
 "C06": dict(
    category="proof",
    text="For each of the 34 response classes reachable from a live command class and each bus outcome (None, "
         "BackwardFrame(b), BackwardFrameError(b), b symbolic) the real raw_value, value, __str__, status, error and "
         "__getattr__ (every named bit plus an unknown name) are verified against specification functions written from the "
         "property: pass-through, yes/no, numeric with MASK, bitmap names and bits, generic/enumerated responses with "
         "MissingResponse/ResponseError/ValueError, and str() never raising MissingResponse/ResponseError; constructors are "
         "proved to raise TypeError for every non-frame argument kind. The metaclass-built bit dictionaries are checked "
         "exhaustively against the declared bit lists. BOUNDED stand-in (history): every observation of every class x 513 "
         "outcomes natively in five evaluation orders, one of them after a caller modified earlier results in place.",
    design_ref="DESIGN.md 6 (C06), 0.4 round 7",
    technique="contract-based deductive verification: refinement of each real response method against a spec function, "
              "z3 QF_BV",
    note=TB + "; Frame through contracts; text content unspecified (str proved total)"),
 "C12": dict(
    category="proof",
    text="Every 24-bit event frame (all 2^23, symbolic) is decoded by the real code with no map, with a map answering any type "
         "and with a map without entry, and the decoded object is proved to report exactly the source fields, instance type, "
         "event class, 10 bits of event information and (occupancy, light) decoded data that an independent transcription of "
         "IEC 62386-103 Table 3 and parts 301/303/304 gives; ambiguous events re-decoded with a map are proved structurally "
         "identical to a direct decode; the real add_type/get_type are verified for int / address-object / module arguments "
         "over a dictionary with symbolic keys. The live event registries are compared exhaustively with the tables. BOUNDED stand-in: "
         "events decoded in batches, held while others are decoded, then observed and retry_decode'd, against decoding each "
         "frame on its own.",
    design_ref="DESIGN.md 6 (C12)",
    technique="contract-based deductive verification: symbolic execution of the real decoder against a table-driven spec "
              "function, z3 QF_BV",
    note=TB + "; specs/events.py is the trusted oracle; Frame/Address through contracts, decoder bodies inlined"),
 "C11": dict(
    category="proof",
    text="For every declared memory value (all banks, taken from the live declarations) and every byte string of its "
         "length (bytes symbolic) the real from_list and the real check_raw/raw_to_value pair are verified against a "
         "specification function written from the property and the DiiA/IEC encodings: never raises, MASK/TMASK exactly at "
         "the sign- and scale-byte-aware all-ones patterns, Invalid for range/scale/boolean/non-ASCII violations, otherwise "
         "the documented number, scaled number, temperature, boolean, string; number->raw->number and string->raw->string "
         "are proved to be the identity over the full range / every length; version texts are compared natively on their "
         "complete finite domain; the declared memory map, overlap-freedom, lockability and mask patterns are compared "
         "exhaustively with an independently transcribed layout table. BOUNDED stand-in: number->raw->number natively on "
         "boundary and random numbers of every plain numeric value (decides when an implementation leaves integer arithmetic, "
         "where the deductive unit is undecided). The declaration-time MASK/TMASK computation of the metaclass is checked "
         "exhaustively for every kind of declaration (width 1..6 x signed/unsigned x mask length 0/-1) on probe values in a "
         "scratch bank.",
    design_ref="DESIGN.md 6 (C11), 0.4 round 7",
    technique="contract-based deductive verification: refinement against spec functions (z3 QF_BV) + exhaustive checks of the "
              "finite declaration tables",
    note=TB + "; specs/memory_layout.py is the trusted oracle of the layout clause; Decimal/float scaling compared "
         "structurally"),
 "C14": dict(
    category="proof",
    text="The three real DT8 generator sequences are executed symbolically with every `yield` interpreted as a call of an "
         "assumed IEC 62386-209 Tc-unit contract whose entire state (DTR0/1/2, temporary/actual Tc, limits, reported value) "
         "is symbolic: for all tc in 0..65535 and every destination kind the unit is proved to end with exactly the "
         "requested Tc / limit (other limits unchanged), the yielded commands are proved to be DTR0(low), DTR1(high), "
         "[DTR2(selector)], command, [Activate] addressed as requested; for all 83 selectors and all reported values the "
         "query returns exactly the 16-bit value, and None under MASK or silence/framing error on either answer; "
         "out-of-range / wrong-type tc and non-enum selectors are proved to raise before anything is yielded.",
    design_ref="DESIGN.md 6 (C14), 3.7",
    technique="contract-based deductive verification: generator verified as a procedure against an assumed unit contract, "
              "z3 QF_BV",
    note=TB + "; the unit contract contracts/units/gear209.py is assumed (written from the standard), not verified"),
 "C08": dict(
    category="proof",
    text="The real QueryDeviceTypes, QueryGroups and SetGroups generators are executed symbolically against an assumed "
         "IEC 62386-102 unit contract: device-type lists of every length 0..8 with symbolic ascending values are returned "
         "exactly; all 2^16 group masks are reported exactly; for all 2^16 x 2^16 (current, requested) pairs SetGroups leaves "
         "membership equal to the request, and for short/int destinations ADD/REMOVE is yielded for a group exactly when "
         "needed (conditional yields merged by if-conversion, so no enumeration); one silence or framing error at any step, "
         "and every adversarial answer stream of length 1..5, ends in DALISequenceError or in data that is strictly ascending "
         "and built from clean answers only, within a bounded number of commands; against answer streams of ANY length "
         "QueryDeviceTypes is proved to terminate (loop variant 255 - last_seen) and to return only strictly ascending types "
         "(loop invariant over two arbitrary positions).",
    design_ref="DESIGN.md 6 (C08), 3.7",
    technique="contract-based deductive verification: generators verified as procedures against an assumed unit contract, "
              "z3 QF_BV",
    note=TB + "; unit contract contracts/units/gear102.py assumed; exact-result units: device-type list length up to 8, "
         "adversarial prefixes up to 5; termination and ordering for streams of any length by the loop rule"),
 "C13": dict(
    category="proof",
    text="The real SetEventSchemes, SetEventFilters, QueryEventFilters and query_input_value generators are executed "
         "symbolically against an assumed IEC 62386-103 instance contract with every register symbolic (stale DTRs "
         "included): resolutions 1..32 with symbolic value and padding reassemble exactly; 8-, 16- and 24-bit filter enums "
         "(library and user-defined) with every flag combination are stored and read back exactly; schemes likewise, invalid "
         "ones rejected before any command; one silence or framing error at any step yields None or DALISequenceError. The "
         "discovery scan is verified with the loop rule on both of its loops: for an arbitrary device A and instance I the "
         "map entry equals the instance type iff A was scanned, answered cleanly, is healthy, has instance I, I is enabled and "
         "its type was read, and is unchanged otherwise; the scan is bracketed by START/STOP QUIESCENT MODE to broadcast. "
         "BOUNDED stand-in next to the loop rule: the scan of one device with <= 3 instances and of two devices with <= 1, "
         "both loops unrolled.",
    design_ref="DESIGN.md 6 (C13), 3.6, 3.7",
    technique="contract-based deductive verification: generators verified as procedures against an assumed unit contract; "
              "loop invariants (initiation / arbitrary iteration / exit) for the scan; z3 QF_BV",
    note=TB + "; unit contracts contracts/units/device103.py and the ScanBus abstraction in checks/c13.py are assumed; "
         "numberOfInstances <= 32; 'healthy' = short address not MASK and not in reset state"),
 "C09": dict(
    category="proof",
    text="The real read_raw / read of every declared memory value and read_all of every bank are executed symbolically "
         "against an assumed IEC 62386-102 9.10 memory-access contract whose whole image, last accessible location and one "
         "unimplemented location are symbolic, for gear and device addressing: read_raw returns exactly the bytes at the "
         "declared locations, raises MemoryLocationNotImplemented exactly when a location is beyond the last accessible one "
         "or unimplemented, ResponseError on a framing error; read interprets them by the C11 specification; read_all is "
         "verified with the loop rule over a list of symbolic length (invariant: entry j is the unit's byte or None, DTR0 = j, "
         "write-enable cleared after the first read, image unchanged) and reports exactly the fully implemented values, each "
         "equal to the interpretation of the (latched) snapshot bytes; afterwards every location other than the lock byte "
         "is unchanged and the bank is not left latched. BOUNDED stand-in next to the loop rule: the same obligations with the "
         "loop unrolled for concrete last accessible locations 0..9 on every bank (no loop specification involved).",
    design_ref="DESIGN.md 6 (C09), 3.6, 3.7",
    technique="contract-based deductive verification: generators as procedures against an assumed unit contract, loop "
              "invariant for the whole-bank read, callee contract (uninterpreted result) for from_list; z3 QF_BV",
    note=TB + "; unit contract contracts/units/memory.py assumed (single bank, at most one hole, lock byte implemented)"),
 "C10": dict(
    category="proof",
    text="The real write_raw of every declared memory value (and write for plain numbers and strings) is executed "
         "symbolically against the assumed memory-access contract with symbolic image, DTR0/1, write-enable, lock byte, last "
         "location, hole, protection flag and the property's unit variants (DTR0 not advancing, non-standard unlock value, "
         "wrong echo, wrong stored byte) plus one silence/framing error on any answer: every normal return is proved to have "
         "stored exactly the bytes at exactly the value's locations, changed no other location and left a lockable bank's lock "
         "byte at 0xFF; every other outcome is one of MemoryLocationNotWriteable / MemoryWriteFailure / ResponseError; "
         "read-only values and wrong lengths are refused with an empty command trace; a conforming unit always succeeds.",
    design_ref="DESIGN.md 6 (C10), 3.7",
    technique="contract-based deductive verification: generator as procedure against an assumed unit contract with fault "
              "and variant flags, z3 QF_BV",
    note=TB + "; unit contract contracts/units/memory.py assumed; with ignore_feedback=True only the conforming unit is claimed (returns, stores exactly the data, re-locks); the DTR0-not-advancing "
         "variant is applied to values up to 8 bytes"),
 "C07": dict(
    category="proof",
    text="PROVED: the binary search _find_next is verified for all 0 <= low <= high < 2^24 against an abstract search "
         "contract (least random address m among the searching units, whether it is shared, next distinct address): it "
         "returns m when unique, 'clash' when shared, None when m > high, leaves the population unchanged, loads the search "
         "address with high, and terminates (recursive calls go through the function's own contract whose precondition "
         "includes a strictly shrinking range). PROVED by the loop rule (three nested loop specifications, a bus that answers "
         "every query arbitrarily, the permitted list seen through one arbitrary address K), for every population: K is "
         "programmed at most once and only if it is permitted and was not found in use; every PROGRAM SHORT ADDRESS uses the "
         "address taken from the list and is followed by VERIFY of the same address, an unconfirmed verification raises "
         "ProgramShortAddressFailure and nothing more is sent; a dry run writes nothing; every found unit is withdrawn and the "
         "search precondition is maintained; prologue, restart after a clash and the final TERMINATE have the prescribed "
         "shape. BOUNDED (not proved): what the gear ends up holding - the whole sequence is driven natively against the "
         "executable population contract for every population of <= 3 units, pre-existing addresses, five permitted sets, both "
         "modes, dry run, two draws per unit over both ends of the search space and their neighbours plus faulty units, checking distinct / permitted / unused stored "
         "addresses and untouched non-participants.",
    design_ref="DESIGN.md 6 (C07)",
    technique="contract-based deductive verification: _find_next (recursion via its own contract + variant) and the whole "
              "Commissioning generator (loop rule with invariants, callee contract of _find_next), z3 QF_BV; bounded exhaustive "
              "native execution for the stored end state (labelled bounded)",
    note=TB + "; unit contracts contracts/units/addressing.py and the one-element view of the Python list (AddrList) assumed; "
         "the stored end state of the gear is decided only by the bounded stand-in (<= 3 units); termination of the restart "
         "loop under fairness is undecided"),
 "C03": dict(
    category="proof",
    text="An independently transcribed command table of IEC 62386 parts 102, 103, 202, 205, 206, 207, 209 (and 301/303/304, "
         "marked unverified) with an independent table-driven encoder is compared with the library: for every verified row "
         "and every destination kind, instance kind and parameter value (all symbolic) the real constructor's frame is "
         "proved bit-identical to the standard's encoding and the standard's frame is proved to decode to the command of "
         "that name under its device type; send-twice flags, answer kinds (none / yes-no / 8-bit) and device types are "
         "compared exhaustively, and every implemented command class must have a table row. BOUNDED stand-in: three commands per table row x case are built, held and read afterwards against the table (a frame object shared between commands shows up there).",
    design_ref="DESIGN.md 6 (C03)",
    technique="contract-based deductive verification: constructor output proved equal to a table-driven spec encoder "
              "(z3 QF_BV) + exhaustive comparison of the finite flag tables",
    note=TB + "; specs/iec62386.py is the trusted oracle, written from memory of the standard offline; rows/flags listed as "
         "unverified in the evidence (part 202 send-twice column, REFERENCE SYSTEM POWER and START AUTO CALIBRATION "
         "send-twice, parts 301/303/304 opcodes) are excluded"),
 "C18": dict(
    category="proof",
    text="For each gateway the bytes handed to its write primitive are proved equal to the packet grammar transcribed from "
         "the vendor documents, for fully symbolic 16- and 24-bit frames and every send-twice/answer combination: Tridonic HID "
         "64-byte report (template, mode code, sequence-number generator by loop invariant: 1..255, never repeated), hasseb "
         "HID two-byte writes, LUBA frame with XOR checksum, SCI five-byte frame, daliserver request and reply decoding, "
         "legacy Tridonic / hasseb / UniPi construct and extract; unsupported frame lengths are proved to be refused before "
         "any write. The async send paths are executed against assumed contracts of asyncio/os/transport primitives. "
         "BOUNDED: the ATX LED hat's ASCII line format (string formatting) by exhaustive enumeration.",
    design_ref="DESIGN.md 6 (C18), 3.9",
    technique="contract-based deductive verification: packet grammar as the precondition of the write primitive at its call "
              "site, z3 QF_BV; loop invariant for the sequence-number generator; bounded enumeration for the ATX hat",
    note=TB + "; specs/gateways.py (vendor formats) and pyvc/aio.py (asyncio/os contracts) are assumed; SCI data-byte "
         "alignment unverified (either accepted); ATX hat only bounded"),
 "C19": dict(
    category="proof",
    text="Per-byte refinement of both serial receivers against reference deframers written from the protocol grammars: for "
         "every receiver state satisfying the representation invariant (LUBA: payload length 1..20, any progress, symbolic "
         "buffer; SCI: every position) and every byte, the real _process_byte is proved to raise nothing, to re-establish the "
         "invariant (list indices in bounds included) and, when the byte completes a frame, to deliver exactly the items the "
         "reference assigns to it (backward-frame values, transmit confirmations, observed commands with the frame bits, "
         "device info / settings / gateway replies) or to drop it (bad checksum, unknown type, length that cannot fit) and "
         "resume; data_received is proved to be the fold of _process_byte, which gives chunking independence by induction. A "
         "LUBA frame-sent event yields one confirmation with the frame id and the frame decoded under the device type of the "
         "previous TRANSMITTED frame; the device-type memories of the transmitted and the observed stream do not disturb each other.",
    design_ref="DESIGN.md 6 (C19)",
    technique="contract-based deductive verification: representation invariant + refinement of the byte step function "
              "against a reference deframer, callee contract for Command.from_frame; z3 QF_BV",
    note=TB + "; specs/deframe.py is the trusted oracle; payload-malformed frames set aside as the property says; induction "
         "over the stream is argued, not mechanised"),
 "C20": dict(
    category="proof",
    text="Serial receive paths (LUBA, SCI): for every observed 16-/24-bit frame and every remembered device type, every "
         "subscriber queue is proved to receive exactly one report whose command carries the observed bits and was decoded "
         "by from_frame under exactly the device type of the immediately preceding enable-device-type frame (memory := param "
         "for EDT, 0 otherwise) and the driver's instance map; the argument handed to from_frame is proved to be a "
         "ForwardFrame. DistributorQueue and the HID callback registry: every subscriber at the time gets every report, "
         "unsubscribing stops delivery to that subscriber only. Tridonic watcher: one iteration of the real loop is verified, "
         "with the loop rule, against a reference transducer written from the property, for every pending state (none / "
         "send-twice command / query), every well-formed gateway report and the timer outcome as an input: queries paired "
         "with their answer or 'no answer', send-twice commands reported once as good or flagged failed, each forward frame "
         "reported exactly once and decoded in context.",
    design_ref="DESIGN.md 6 (C20), 3.9",
    technique="contract-based deductive verification: step-function refinement via the loop rule, callee contract for "
              "Command.from_frame, assumed asyncio contracts; z3 QF_BV",
    note=TB + "; the timer is an input (which of 'timeout' / 'report' happens first is not decided: real time is out of "
         "reach); callbacks are recorded at call_soon, their later execution by the event loop is assumed"),
 "C16": dict(
    category="proof",
    text="Sequential part: the real Tridonic _send_raw is executed against every sequence of up to four well-formed gateway "
         "reports for its sequence number (transmission echoes, 8-bit value, no frame, framing error, loss of the gateway) and "
         "proved to return None exactly for commands without answer and otherwise an instance of the command's own response "
         "class wrapping nothing / BackwardFrame(value) / a framing-error frame according to the last outcome report, with the "
         "in-flight slot released; _handle_read is proved to route a response report to the command registered under its "
         "sequence number and to no other; hasseb status bytes and LUBA / SCI send() (silent bus, answer, 0..2 stale answers "
         "queued beforehand, timeouts) likewise; daliserver replies in C18.",
    design_ref="DESIGN.md 6 (C16), 3.9",
    technique="contract-based deductive verification: coroutines executed sequentially against assumed asyncio contracts with "
              "the gateway's reports as environment input; z3 QF_BV",
    note=TB + "; pairing across concurrently running callers rests on the routing invariant + assumed mutual exclusion of "
         "asyncio primitives (not proved); ATX LED hat driver not covered"),
 "C15": dict(
    category="proof",
    text="SEQUENTIAL PART ONLY. For hid.send, hid.power_supply, hid.run_sequence and the serial run_sequence, executed "
         "symbolically against assumed contracts of asyncio.Lock and of the gateway-level send, it is proved on every exit "
         "path (return, CommunicationError with exceptions on or off, an exception raised by the sequence, CancelledError "
         "injected at every await) that the transaction-lock token is balanced, that the gateway is only used while this task "
         "holds the token, that every command with a device type is immediately preceded inside the same critical section by "
         "EnableDeviceType of exactly that type, that a whole sequence runs inside one critical section, that every yielded "
         "command is sent once and in order and that a started sequence is closed - for sequences of ANY length (loop rule on "
         "run_sequence's loop: one arbitrary step per arbitrary iteration) and, replayable natively, for every sequence of up "
         "to three yields. The lock model knows that another task may hold the lock while this one does not: a release "
         "without the token (asyncio.Lock does not check ownership) is an obligation of its own.",
    design_ref="DESIGN.md 0.1, 0.2, 6 (C15), 3.9, 7",
    technique="contract-based deductive verification: lock as a ghost token, exceptional postconditions on all exits incl. "
              "injected cancellation; z3",
    note=TB + "; NOT decided: 'every caller eventually completes' (liveness) and the all-interleavings claim itself, which "
         "is reduced to these per-task obligations + the assumed mutual exclusion of asyncio.Lock (reduction not mechanised); "
         "the per-gateway command serialisation (semaphore / tx lock) is covered by C16/C17 units"),
 "C17": dict(
    category="proof",
    text="SEQUENTIAL PART ONLY. Exceptional postconditions of the real Tridonic _send_raw (write error, device lost while "
         "waiting, CancelledError at every await): CommunicationError raised, semaphore released, in-flight slot released, "
         "'disconnected' reported and reconnection scheduled; _shutdown_device wakes every waiter with a failure and leaves no "
         "slot; disconnect / _reader / connect bookkeeping; _reconnect for limit None or 0..10 and any attempt count: sleeps "
         "exactly the configured interval, gives up and reports 'failed' exactly when the limit is exceeded, otherwise "
         "re-opens, resets the count, repeats the handshake write and installs the reader, or schedules another attempt; the "
         "version -> serial -> connected handshake; LUBA / SCI send under a silent gateway: every wait carries the documented "
         "timeout, the outcome is TimeoutError or 'no answer', transaction and transmit locks released.",
    design_ref="DESIGN.md 6 (C17), 3.9, 7",
    technique="contract-based deductive verification: exceptional postconditions on every exit incl. injected faults and "
              "cancellation, against assumed asyncio/os contracts; z3",
    note=TB + "; NOT decided: 'nobody hangs', the fault x schedule quantifier, wall-clock bounds (time-outs are inputs; only "
         "the value handed to sleep / wait_for is checked), end-to-end transparent retry after reconnection"),
}

NA_REASON = "check under construction in this round (no obligations built yet); see DESIGN.md section 6"

def main():
    checks = []
    for pid, c in CLAIMED.items():
        checks.append({
            "property_id": pid,
            "quick_cmd": "./check %s --tier quick" % pid,
            "thorough_cmd": "./check %s --tier thorough" % pid,
            "evidence_file": "/verif/evidence/%s.json" % pid,
            "replay_cmd_template": "./check %s --replay {path}" % pid,
            "engine": "pyvc",
            "level_claimed": {"category": c["category"], "text": c["text"], "design_ref": c["design_ref"]},
            "level_note": c["note"],
            "technique": c["technique"],
        })
    m = {
        "version": 1,
        "setup_cmd": "./setup.sh",
        "hooks": {"guard": "SDE1000_PYTHON_DALI_VERIF",
                  "enable": "no hooks: contracts are sidecar files under /verif/contracts; the repository source is read "
                            "(ast) on every run, never patched",
                  "baseline_off_cmd": "cd /repo && /venv/bin/python -m pytest -ra -q -p no:cacheprovider --timeout=900 "
                                      "--continue-on-collection-errors",
                  "source_commits": [], "add_only": True},
        "engines": [{"name": "pyvc", "path": "/verif/pyvc", "serves_properties": sorted(CLAIMED),
                     "kind_free_text": "verification-condition generator: symbolic AST interpreter over the real /repo "
                                       "source + sidecar contracts (executable spec functions), obligations discharged by "
                                       "z3, cvc5 as second back end"}],
        "checks": checks,
        "not_applicable": [{"property_id": p["id"], "reason": NA.get(p["id"], NA_REASON)}
                           for p in props if p["id"] not in CLAIMED],
        "notes": "See DESIGN.md. Exit codes: 0 held, 1 violation, 2 undecided, 3 checker error.",
    }
    json.dump(m, open(os.path.join(HERE, "MANIFEST.json"), "w"), indent=1)

NA = {}
if __name__ == "__main__":
    main()
