#!/usr/bin/env python3
"""evaluate agent-made harmless refactorings in /tmp/wt-<P>/seeded/patch.diff: scratch copy + the property's check; must exit 0"""
import os, shutil, subprocess, sys, tempfile
HERE = os.path.dirname(os.path.dirname(os.path.abspath(__file__)))
props = sys.argv[1:] or ["C%02d" % i for i in range(1, 21)]
for p in props:
    pd = os.environ.get("WT_PREFIX", "/tmp/wt-") + "%s/seeded/patch.diff" % p
    if not os.path.exists(pd) or os.path.getsize(pd) == 0:
        print("%s: no patch" % p); continue
    tmp = tempfile.mkdtemp(prefix="pyvc-h-")
    try:
        shutil.copytree("/repo/dali", os.path.join(tmp, "dali"))
        r = subprocess.run(["patch", "-p1", "-s", "-d", tmp, "-i", pd], capture_output=True, text=True)
        if r.returncode:
            print("%s: patch does not apply %s" % (p, r.stdout[-200:])); continue
        # the repo's own tests on the copy
        t = subprocess.run(["/venv/bin/python", "-m", "pytest", "-q", "-p", "no:cacheprovider", "--timeout=900",
                            "--continue-on-collection-errors", "-x", "-q"], cwd=tmp, capture_output=True, text=True,
                           env=dict(os.environ, PYTHONPATH=tmp))
        tests = t.stdout.strip().splitlines()[-1] if t.stdout.strip() else "?"
        env = dict(os.environ, PYVC_ROOT=tmp, PYTHONPATH=tmp, PYTHONDONTWRITEBYTECODE="1", PYVC_REPLAY_DIR=os.path.join(tmp, "replays"),
                   PYVC_UNIT_BUDGET_S="600")
        r = subprocess.run([os.path.join(HERE, ".venv/bin/python"), "-m", "pyvc.main", p, "--no-evidence"], cwd=HERE, env=env,
                           capture_output=True, text=True)
        n = sum(1 for l in open(pd) if l.startswith(("+", "-")) and not l.startswith(("+++", "---")))
        print("%s: %s rc=%d (%d changed lines; tests: %s)" % (p, "quiet" if r.returncode == 0 else "ALARM", r.returncode, n, tests))
        if r.returncode:
            for l in r.stdout.splitlines():
                if l.startswith(("VIOLATION", "UNDECIDED", "CHECKER", "FAILED")):
                    print("    " + l[:260])
    finally:
        shutil.rmtree(tmp, ignore_errors=True)
