#!/bin/sh
# tools/eval_round.sh <round-name> [props...]: evaluate /tmp/wt-<P>/seeded for each property, one after the other
R=$1; shift
PROPS=${*:-C01 C02 C03 C04 C05 C06 C07 C08 C09 C10 C11 C12 C13 C14 C15 C16 C17 C18 C19 C20}
for p in $PROPS; do
  [ -f /tmp/wt-$p/seeded/patch.diff ] || { echo "######## $p : no patch yet"; continue; }
  echo "######## $p"
  (PYVC_UNIT_BUDGET_S=300 timeout 1800 tools/try_seed.sh $p /tmp/wt-$p/seeded $p-$R 2>&1 | grep -E "exit=|passed|failed|VIOLATION|^C[0-9]+ tier|patch does not|UNDEC|CHECKER" | cut -c1-240 | head -7)
  git -C /repo checkout -- .
done
