#!/bin/sh
# usage: scratch_run.sh <patch.diff> <pyvc.main args...>  : run a check on a scratch copy of /repo/dali with the patch applied
set -e
P="$1"; shift
T=$(mktemp -d /tmp/pyvc-s-XXXXXX)
cp -r /repo/dali "$T/dali"
patch -p1 -s -d "$T" -i "$P"
cd /verif
PYVC_ROOT="$T" PYTHONPATH="$T" PYTHONDONTWRITEBYTECODE=1 PYVC_REPLAY_DIR="$T/replays" PYVC_UNIT_BUDGET_S=${PYVC_UNIT_BUDGET_S:-600} \
  .venv/bin/python -m pyvc.main "$@" --no-evidence || echo "rc=$?"
[ -n "$KEEP" ] && echo "kept $T" || rm -rf "$T"
