#!/bin/sh
# tools/try_check_scratch.sh <PROP> <patch.diff> [extra pyvc args]: the property's check on a scratch copy with the patch
P=$1; D=$2; shift 2
T=$(mktemp -d /tmp/pyvc-s-XXXXXX)
cp -r /repo/dali "$T/dali"
patch -p1 -s -d "$T" -i "$(realpath $D)" || { rm -rf "$T"; exit 8; }
cd /verif
PYVC_ROOT="$T" PYTHONPATH="$T" PYTHONDONTWRITEBYTECODE=1 PYVC_REPLAY_DIR="$T/replays" PYVC_UNIT_BUDGET_S=${PYVC_UNIT_BUDGET_S:-600} \
  .venv/bin/python -m pyvc.main $P --no-evidence "$@" > /tmp/try-$P.log 2>&1; rc=$?
grep -E "VIOLATION|^$P tier|UNDECIDED|CHECKER|Traceback|Error" /tmp/try-$P.log | cut -c1-360 | head -${HEADN:-8}
echo "rc=$rc"
rm -rf "$T"
