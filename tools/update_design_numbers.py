#!/usr/bin/env python3
"""rewrite the 'units / paths / obligations' column of DESIGN.md section 0.2 from the evidence files"""
import json, re, os
HERE = os.path.dirname(os.path.dirname(os.path.abspath(__file__)))
p = os.path.join(HERE, "DESIGN.md")
s = open(p).read()
for i in range(1, 21):
    pid = "C%02d" % i
    f = os.path.join(HERE, "evidence", pid + ".json")
    if not os.path.exists(f):
        continue
    c = json.load(open(f))["coverage"]
    cell = "%d / %d / %d" % (c["proof_units"], c["paths"], c["obligations"])
    s = re.sub(r"^\| %s \| [0-9]+ / [0-9]+ / [0-9]+ \|" % pid, "| %s | %s |" % (pid, cell), s, flags=re.M)
open(p, "w").write(s)
