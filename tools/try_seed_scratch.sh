#!/bin/sh
# tools/try_seed_scratch.sh <PROP> <seed-dir containing patch.diff and demo.py> [<name>]
# like try_seed.sh, but /repo's working tree is never touched: the patch is applied in a scratch worktree outside /repo
# and /verif, and the property's check is pointed at that worktree (PYVC_ROOT + PYTHONPATH shadowing).
set -u
PROP=$1; SRC=$2; NAME=${3:-$PROP}
WT=/tmp/seedcheck-$NAME
git -C /repo worktree remove --force $WT 2>/dev/null
git -C /repo worktree add -q --detach $WT HEAD || exit 9
mkdir -p $WT/seeded
sed "s#/tmp/wt[0-9]*-[A-Za-z0-9_]*#$WT#g" $SRC/demo.py > $WT/seeded/demo.py
echo "== demo WITHOUT patch"; (cd $WT && PYTHONPATH=$WT timeout 300 /venv/bin/python seeded/demo.py >/tmp/seed-$NAME-clean.log 2>&1; echo "exit=$?")
(cd $WT && git apply $SRC/patch.diff) || { echo "patch does not apply"; git -C /repo worktree remove --force $WT; exit 8; }
echo "== tests WITH patch"; (cd $WT && /venv/bin/python -m pytest -q -p no:cacheprovider --timeout=900 --continue-on-collection-errors 2>&1 | tail -1)
echo "== demo WITH patch"; (cd $WT && PYTHONPATH=$WT timeout 300 /venv/bin/python seeded/demo.py >/tmp/seed-$NAME-patched.log 2>&1; echo "exit=$?"; tail -2 /tmp/seed-$NAME-patched.log)
echo "== check on the patched copy"
(cd /verif && PYVC_ROOT=$WT PYTHONPATH=$WT PYTHONDONTWRITEBYTECODE=1 PYVC_REPLAY_DIR=$WT/replays PYVC_UNIT_BUDGET_S=${PYVC_UNIT_BUDGET_S:-600} \
   .venv/bin/python -m pyvc.main $PROP --no-evidence > /tmp/seed-$NAME-check.log 2>&1; echo "check rc=$?"; grep -E "VIOLATION|^$PROP tier|UNDECIDED|CHECKER" /tmp/seed-$NAME-check.log | cut -c1-330 | head -8)
git -C /repo worktree remove --force $WT
rm -f /tmp/seed-$NAME-clean.log /tmp/seed-$NAME-patched.log
