#!/bin/sh
# tools/keep_seed.sh <PROP> <seed-dir> <name> "<needs>" "<caught-by / result>"
PROP=$1; SRC=$2; NAME=$3; NEEDS=$4; RESULT=$5
D=/verif/seeded/$NAME
mkdir -p $D
cp $SRC/patch.diff $D/patch.diff
sed "s#/tmp/wt-[A-Za-z0-9_-]*#/tmp/seedcheck-$NAME#g" $SRC/demo.py > $D/demo.py
[ -f $SRC/notes.md ] && cp $SRC/notes.md $D/notes.md
python3 - "$PROP" "$NAME" "$NEEDS" "$RESULT" <<'PY'
import json,sys
prop,name,needs,result=sys.argv[1:5]
json.dump({"property":prop,"name":name,"breaks":prop,"needs_to_manifest":needs,
 "what_was_run":["tools/try_seed.sh %s <seed dir> %s : scratch worktree /tmp/seedcheck-%s: demo exits 0 without the patch; existing suite 110 passed with the patch; demo exits non-zero with the patch; then git -C /repo apply patch.diff; ./check %s; git -C /repo checkout -- ."%(prop,name,name,prop)],
 "check_result":result,"origin":"independent sub-agent given only the property text and a scratch worktree"},
 open("/verif/seeded/%s/meta.json"%name,"w"),indent=1)
PY
echo kept $D
