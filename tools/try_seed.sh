#!/bin/sh
# tools/try_seed.sh <PROP> <seed-dir containing patch.diff and demo.py> [<name>]
# 1. confirms in a scratch worktree (outside /repo and /verif): existing tests pass with the patch, the demo fails with it
#    and passes without it;  2. applies the patch to /repo, runs the property's quick check, reverts /repo.
set -u
PROP=$1; SRC=$2; NAME=${3:-$PROP}
WT=/tmp/seedcheck-$NAME
git -C /repo worktree remove --force $WT 2>/dev/null
git -C /repo worktree add -q --detach $WT HEAD || exit 9
mkdir -p $WT/seeded && cp $SRC/demo.py $WT/seeded/ 2>/dev/null
sed "s#/tmp/wt-[A-Za-z0-9_-]*#$WT#g" $SRC/demo.py > $WT/seeded/demo.py
echo "== demo WITHOUT patch"; (cd $WT && PYTHONPATH=$WT /venv/bin/python seeded/demo.py >/tmp/seed-$NAME-clean.log 2>&1; echo "exit=$?")
(cd $WT && git apply $SRC/patch.diff) || { echo "patch does not apply"; exit 8; }
echo "== tests WITH patch"; (cd $WT && /venv/bin/python -m pytest -q -p no:cacheprovider --timeout=900 --continue-on-collection-errors 2>&1 | tail -1)
echo "== demo WITH patch"; (cd $WT && PYTHONPATH=$WT /venv/bin/python seeded/demo.py >/tmp/seed-$NAME-patched.log 2>&1; echo "exit=$?"; tail -2 /tmp/seed-$NAME-patched.log)
git -C /repo worktree remove --force $WT
echo "== check on /repo WITH patch"
git -C /repo apply $SRC/patch.diff || { echo "patch does not apply to /repo"; exit 7; }
(cd /verif && ./check $PROP --no-evidence 2>&1 | grep -E "VIOLATION|^$PROP|UNDECIDED|CHECKER" | head -6)
git -C /repo checkout -- .
git -C /repo status --short | head -3
