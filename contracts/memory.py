"""Specification functions for dali/memory: interpretation of raw bytes (C11) and, with the unit model
of contracts/units, the access sequences (C09, C10)."""
from decimal import Decimal
from pyvc.spec import (And, Or, Not, ite, is_int, throw, require, ANY_STR, AnyOf, type_of, concretize)
from pyvc import sym
from dali.memory import location as L

FLAG = L.FlagValue


def value_kind(cls):
    names = [k.__name__ for k in cls.__mro__]
    if "ScaledNumericValue" in names:
        return "scaled"
    if "StringValue" in names:
        return "string"
    if "BinaryValue" in names:
        return "binary"
    if "TemperatureValue" in names:
        return "temperature"
    if "VersionNumberValue" in names:
        return "version"
    if "FixedScaleNumericValue" in names:
        return "fixed"
    if cls.__name__ == "CCT":
        return "cct"
    if cls.__name__ == "LightDistributionType":
        return "ldt"
    if "NumericValue" in names:
        return "numeric"
    return "raw"


def unsigned(body):
    v = 0
    for b in body:
        v = (v << 8) | b
    return v


def signed(body):
    n = len(body)
    u = unsigned(body)
    if n == 0:
        return u
    return ite(u >= (1 << (8 * n - 1)), u - (1 << (8 * n)), u)


LDT_NAMES = {0: "not specified", 1: "Type I", 2: "Type II", 3: "Type III", 4: "Type IV", 5: "Type V"}


def all_ones(cls, n):
    """the 'not implemented' pattern: all ones (largest positive value for signed quantities)"""
    return (1 << (8 * n - 1)) - 1 if cls.signed else (1 << (8 * n)) - 1


def spec_interpret(cls, raw, text_exact=False):
    """meaning of the raw bytes of a memory value: a value or MASK / TMASK / Invalid (never raises)"""
    raw = list(raw)
    kind = value_kind(cls)
    body = raw
    if kind == "scaled":
        # first byte: signed power of ten, valid -6..6
        if And(raw[0] > 6, raw[0] < 0xFA):
            return FLAG.Invalid
        body = raw[1:]
    n = len(body)
    u = unsigned(body) if (cls.mask_supported or cls.tmask_supported or kind not in ("string", "raw")) else None
    if cls.mask_supported:
        if u == all_ones(cls, n):
            return FLAG.MASK
    if cls.tmask_supported:
        if u == all_ones(cls, n) - 1:
            return FLAG.TMASK
    if kind == "string":
        codes = []
        for b in body:
            if b == 0:
                break
            codes.append(b)
        if codes and Or([c >= 128 for c in codes]):
            return FLAG.Invalid
        return text_of(codes)
    if kind == "binary":
        if raw[0] == 1:
            return True
        if raw[0] == 0:
            return False
        return FLAG.Invalid
    if kind == "ldt":
        for k, name in LDT_NAMES.items():
            if raw[0] == k:
                return name
        return "reserved"
    if kind == "raw":
        return bytes_of(raw)
    v = signed(body) if cls.signed else u
    if kind == "cct" and u == 0xFFFE:
        return "Part 209 implemented"
    if cls.min_value is not None:
        if v < cls.min_value:
            return FLAG.Invalid
    if cls.max_value is not None:
        if v > cls.max_value:
            return FLAG.Invalid
    if kind in ("numeric", "cct"):
        return v
    if kind == "fixed":
        return cls.scaling_factor * v
    if kind == "temperature":
        return u - 60
    if kind == "scaled":
        e = concretize(signed(raw[:1]))
        return u * pow(Decimal(10), e)
    if kind == "version":
        if not text_exact:
            return ANY_STR
        if n == 1:
            if u == 0xFF:
                return "not implemented"
            return "%d.%d" % (u >> 2, u & 3)
        return ".".join("%d" % b for b in body)
    raise KeyError(kind)


def text_of(codes):
    if any(sym.is_sym(c) for c in codes):
        from pyvc.models import SText
        return SText(codes)
    return "".join(chr(c) for c in codes)


def bytes_of(items):
    from pyvc.values import mk_bytes
    return mk_bytes(items)


def spec_from_list(cls, list_):
    """value extracted from a list holding the whole bank (None = location not implemented)"""
    raw = []
    for loc in cls.locations:
        a = loc.address
        if a >= len(list_) or list_[a] is None:
            throw(L.MemoryLocationNotImplemented)
        raw.append(list_[a])
    return spec_interpret(cls, raw)


def spec_check_then_value(cls, raw):
    return spec_interpret(cls, list(raw))


def spec_numeric_to_raw(cls, value):
    """big-endian encoding of a number on len(locations) bytes (MASK/TMASK literals where supported)"""
    n = len(cls.locations)
    if cls.mask_supported and isinstance(value, str) and value == "MASK":
        return all_ones(cls, n).to_bytes(n, "big")
    if cls.tmask_supported and isinstance(value, str) and value == "TMASK":
        return (all_ones(cls, n) - 1).to_bytes(n, "big")
    if not is_int(value):
        throw(ValueError)
    lo, hi = (-(1 << (8 * n - 1)), (1 << (8 * n - 1)) - 1) if cls.signed else (0, (1 << (8 * n)) - 1)
    if Or(value < lo, value > hi):
        throw(OverflowError)
    return bytes_of([(value >> (8 * (n - 1 - i))) & 0xFF for i in range(n)])


# ----------------------------------------------------------------------------- call-site contract of from_list
from pyvc.engine import contract            # noqa: E402
from pyvc.values import Deferred            # noqa: E402


@contract("dali.memory.location:MemoryValue.from_list")
def from_list_contract(cls, list_):
    """value extracted from a whole-bank list: MemoryLocationNotImplemented if one of the locations is beyond
    the list or None; otherwise 'the interpretation of these bytes by cls', kept uninterpreted
    (Deferred("interpret", cls, bytes)) - its meaning is spec_interpret, against which from_list is verified
    in C11."""
    from pyvc.models import SymList
    raw = []
    bad = []
    for loc in cls.locations:
        a = loc.address
        if isinstance(list_, SymList):
            in_range = a < list_.total()
            if sym.is_sym(list_.length) or a < list_.length:
                is_none, v = list_.elem_fn(a)
                below = a < list_.length
                # indices at or beyond `length` are only reachable through the appended part (empty here)
                if list_.appended:
                    raise sym.Unsupported("from_list contract on a symbolic list with appended items")
                bad.append(Or(Not(in_range), And(below, is_none), Not(below)))
                raw.append(v)
            else:
                bad.append(True)
                raw.append(0)
        else:
            if a >= len(list_) or list_[a] is None:
                bad.append(True)
                raw.append(0)
            else:
                bad.append(False)
                raw.append(list_[a])
    if Or(bad):
        throw(L.MemoryLocationNotImplemented)
    return Deferred("interpret", cls, list(raw))
