"""Contracts for dali/device/helpers.py used by the decode proofs."""
from pyvc.engine import contract
from pyvc.spec import And, Or, Not, ite, is_int, throw, require

K = "dali.device.helpers:"


@contract(K + "DeviceInstanceTypeMapper.get_type")
def mapper_get_type(self, *, short_address, instance_number):
    """abstract map: one arbitrary-but-fixed answer per decode (ghost field set by the proof unit)"""
    return self._ghost_type
