"""Contracts for the response classes of dali/command.py and their subclasses (property C06).

bus outcome of a query:  raw is None (no answer) | BackwardFrame(b) clean | BackwardFrameError(b) garbled
"""
from pyvc.engine import contract
from pyvc.spec import (And, Or, Not, ite, is_int, is_bool, throw, require, ANY_STR, AnyOf, new_object,
                       is_instance, type_of, Alternatives)
from dali import command as C, frame as F
from dali.exceptions import MissingResponse, ResponseError

K = "dali.command:"


def kind_of(cls):
    if issubclass(cls, C.YesNoResponse):
        return "yesno"
    if issubclass(cls, C.NumericResponseMask):
        return "nummask"
    if issubclass(cls, C.NumericResponse):
        return "num"
    if issubclass(cls, C.BitmapResponse):
        return "bitmap"
    if issubclass(cls, C.EnumResponse):
        return "enum"
    return "generic"


def missing(self):
    return self._value is None


def garbled(self):
    return self._value is not None and self._value._error


def clean(self):
    return self._value is not None and not self._value._error


def code(self):
    return self._value._data


@contract(K + "Response.__init__")
def response_init(self, val):
    if val is not None and not is_instance(val, F.BackwardFrame):
        throw(TypeError)
    self._value = val


@contract(K + "Response.raw_value")
def response_raw_value(self):
    return self._value


def spec_value(self):
    """what `.value` denotes, by response kind (property C06)"""
    k = kind_of(type_of(self))
    if k == "yesno":
        return not missing(self)
    if k in ("num", "nummask"):
        if not clean(self):
            return AnyOf(str)               # a non-integer marker
        if k == "nummask" and code(self) == 255:
            return "MASK"
        return code(self)
    if k == "bitmap":
        if missing(self):
            throw(MissingResponse)
        if garbled(self):
            throw(ResponseError)
        return self._value
    if k == "enum":
        if type_of(self).__name__ == "QueryAssignedColourResponse":
            return spec_assigned_colour_value(self)
        if missing(self):
            return None
        if garbled(self):
            throw(ResponseError)
        for m in type_of(self).enumerator:
            if code(self) == m.value:
                return m
        throw(ValueError)
    # generic: hands back the frame itself; a garbled answer is not tolerated
    if missing(self):
        if type_of(self)._expected:
            throw(MissingResponse)
        return None
    if garbled(self) and not type_of(self)._error_acceptable:
        throw(ResponseError)
    return self._value


def spec_assigned_colour_value(self):
    """Part 209 cmd 252: number of the assigned colour, MASK for unsupported channels; the class documents
    'MASK' / an error marker for codes outside the table"""
    if missing(self):
        return None
    c = code(self)
    if c == 255:
        return "MASK"
    if garbled(self):
        return Alternatives(("raise", (ResponseError,)), ("return", AnyOf(str)))
    for m in type_of(self).enumerator:
        if c == m.value:
            return m
    return Alternatives(("raise", (ValueError,)), ("return", AnyOf(str)))


def spec_str(self):
    """rendering never raises MissingResponse / ResponseError; an enumerated response may reject an
    undefined code with ValueError"""
    k = kind_of(type_of(self))
    if k == "enum" and clean(self):
        defined = Or([code(self) == m.value for m in type_of(self).enumerator])
        if not defined:
            return Alternatives(("raise", (ValueError,)), ("return", ANY_STR))
    return ANY_STR


def bit_names(cls):
    return list(cls.bits)


def mangle(name):
    return name.replace(" ", "_").replace("-", "")


def spec_status(self):
    if missing(self):
        throw(MissingResponse)
    if garbled(self):
        return ["response received with framing error"]
    out = []
    for i, b in enumerate(bit_names(type_of(self))):
        if b and i < 8:
            if ((code(self) >> i) & 1) == 1:
                out.append(b)
    return out


def spec_bitmap_error(self):
    if missing(self):
        return False
    return self._value._error


def spec_named_bit(self, name):
    props = {mangle(b): i for i, b in enumerate(bit_names(type_of(self))) if b}
    if name not in props:
        throw(AttributeError)
    if not clean(self):
        return None
    i = props[name]
    if i > 7:
        throw(IndexError)
    return ((code(self) >> i) & 1) != 0


def spec_query_status_error(self):
    """QueryStatusResponse.error: ballast status or lamp failure or missing short address (Python `or`)"""
    v = None
    for nm in ("ballast_status", "lamp_failure", "missing_short_address"):
        v = spec_named_bit(self, nm)
        if v:
            return v
    return v


# ----------------------------------------------------------------------------- canonical representation
# A response object with the view (_value = None | backward frame) is produced by the class's real constructor, so that
# the proof units run on the representation the code really uses.  The contracts above read `_value`; a class whose
# constructor no longer produces that field has another representation, and nothing can be concluded from them.
from pyvc.values import register_canon, SObj as _SObj        # noqa: E402


def _rebuild_response(interp, cls, view):
    from pyvc import sym as _sym
    raw = view["_value"]
    if _sym.ctx() is None:
        return cls(raw)
    o = _SObj(cls, {}, fresh=True)
    init = interp.find_in_mro(cls, "__init__")
    interp.call(init, (o, raw), {})
    if "_value" not in o.fields:
        raise _sym.Unsupported("%s.__init__ does not set _value: the response contracts are written over another "
                               "representation of the class" % cls.__name__)
    return o


register_canon(C.Response, ("_value",), _rebuild_response)
