"""Assumed contract of the addressing part of IEC 62386-102 control gear (9.14, 11.7), in two forms.

AbstractSearch  - the population seen through its least random address among the units taking part in the
                  search (initialisationState ENABLED): m (INF if none), whether several units share m (clash),
                  and the next distinct value m2.  Used for the *proved* part (binary search).
Population      - an explicit list of units (executable), used natively for the bounded part.

initialisationState per unit: DISABLED / ENABLED / WITHDRAWN.
INITIALISE(b): units selected by b (all / without short address / with short address a) -> ENABLED.
TERMINATE: all -> DISABLED.   RANDOMISE: every unit that is not DISABLED draws a new random address.
COMPARE: YES from every ENABLED unit with random address <= search address (several YES = framing error).
WITHDRAW: ENABLED units with random address == search address -> WITHDRAWN.
PROGRAM SHORT ADDRESS(a): units that are not DISABLED with random == search address store a (MASK deletes).
VERIFY SHORT ADDRESS(a): YES from units that are not DISABLED with random == search and short address == a.
QUERY CONTROL GEAR PRESENT(short a): YES from units with short address a.
SET SHORT ADDRESS(dest) with DTR0: 255 deletes the short address of the addressed units.
Trusted; not verified."""
from pyvc.spec import And, Or, Not, ite, type_of, is_instance
from dali.gear import general as G
from dali import address as A

INF = 1 << 24


class AbstractSearch:
    def __init__(self, ctx, low=0):
        self.ctx = ctx
        self.m = ctx.int("u_m", 0, INF)
        self.clash = ctx.bool("u_clash")
        self.m2 = ctx.int("u_m2", 0, INF)
        ctx.assume(Or(self.m2 > self.m, And(self.m == INF, self.m2 == INF)))
        self.xh = ctx.int("u_xh", 0, 255)
        self.xm = ctx.int("u_xm", 0, 255)
        self.xl = ctx.int("u_xl", 0, 255)
        self.unexpected = []
        self.compares = 0

    def x(self):
        return (self.xh << 16) | (self.xm << 8) | self.xl

    def step(self, cmd):
        t = type_of(cmd)
        if t is G.SearchaddrH:
            self.xh = cmd.param
            return None
        if t is G.SearchaddrM:
            self.xm = cmd.param
            return None
        if t is G.SearchaddrL:
            self.xl = cmd.param
            return None
        if t is G.Compare:
            self.compares += 1
            x = self.x()
            if not bool(self.m <= x):
                return None
            several = Or(self.clash, self.m2 <= x)
            if bool(several):
                return ("garbled", 255)
            return 255
        self.unexpected.append(t.__name__)
        return None


class Unit102:
    DISABLED, ENABLED, WITHDRAWN = 0, 1, 2

    def __init__(self, short, draws, stores=True):
        self.short = short          # 0..63 or None (MASK)
        self.draws = list(draws)    # successive random addresses this unit will draw
        self.random = 0xFFFFFF
        self.state = self.DISABLED
        self.stores = stores        # False: a faulty unit that does not store a programmed address

    def randomise(self):
        if self.draws:
            self.random = self.draws.pop(0)


class Population:
    """explicit bus of control gear (executable form of the contract)"""

    def __init__(self, units):
        self.units = units
        self.x = [0, 0, 0]
        self.dtr0 = 0
        self.log = []

    def search(self):
        return (self.x[0] << 16) | (self.x[1] << 8) | self.x[2]

    def _answer(self, n):
        if n == 0:
            return None
        if n == 1:
            return 255
        return ("garbled", 255)

    def step(self, cmd):
        t = type(cmd)
        self.log.append(t.__name__)
        U = self.units
        if t is G.DTR0:
            self.dtr0 = cmd.param
            return None
        if t is G.SetShortAddress:
            d = cmd.destination
            for u in U:
                hit = isinstance(d, A.GearBroadcast) or (isinstance(d, A.GearShort) and u.short == d.address) or \
                    (isinstance(d, A.GearBroadcastUnaddressed) and u.short is None)
                if hit:
                    if self.dtr0 == 255:
                        u.short = None
                    elif self.dtr0 & 0x81 == 0x01:
                        u.short = self.dtr0 >> 1
            return None
        if t is G.QueryControlGearPresent:
            return self._answer(sum(1 for u in U if u.short is not None and u.short == cmd.destination.address))
        if t is G.Terminate:
            for u in U:
                u.state = u.DISABLED
            return None
        if t is G.Initialise:
            for u in U:
                if cmd.broadcast or (cmd.address is None and u.short is None) or \
                        (cmd.address is not None and u.short == cmd.address):
                    u.state = u.ENABLED
            return None
        if t is G.Randomise:
            for u in U:
                if u.state != u.DISABLED:
                    u.randomise()
            return None
        if t is G.SearchaddrH:
            self.x[0] = cmd.param
            return None
        if t is G.SearchaddrM:
            self.x[1] = cmd.param
            return None
        if t is G.SearchaddrL:
            self.x[2] = cmd.param
            return None
        if t is G.Compare:
            return self._answer(sum(1 for u in U if u.state == u.ENABLED and u.random <= self.search()))
        if t is G.Withdraw:
            for u in U:
                if u.state == u.ENABLED and u.random == self.search():
                    u.state = u.WITHDRAWN
            return None
        if t is G.ProgramShortAddress:
            for u in U:
                if u.state != u.DISABLED and u.random == self.search() and u.stores:
                    u.short = None if cmd.address == "MASK" else cmd.address
            return None
        if t is G.VerifyShortAddress:
            return self._answer(sum(1 for u in U if u.state != u.DISABLED and u.random == self.search()
                                    and u.short is not None and u.short == cmd.address))
        raise AssertionError("unexpected command %s" % t.__name__)
