"""Assumed contract of the memory-bank access of an IEC 62386 bus unit (102:2014 9.10 and 11.x; 103 is
identical with the 24-bit commands).  Trusted; not verified.

State: DTR0, DTR1, writeEnableState, one memory bank (number `bank`) with image M[0..255], last accessible
location M[0], at most one unimplemented location (`hole`) below it, location access types from the bank
declaration, lock byte at location 2 (banks >= 1), optional latch snapshot.
  - every command other than WRITE MEMORY LOCATION(-NO REPLY), DTR0/1/2, QUERY CONTENT DTR0/1/2 disables writing
  - READ MEMORY LOCATION: answers (snapshot if latched else M)[DTR0] if the location is accessible, else nothing;
    DTR0 is incremented (saturating at 255)
  - WRITE MEMORY LOCATION(v): only when writing is enabled; stores v if the location is accessible, writable and
    (for lockable locations) the lock byte is 0x55, and answers v; otherwise answers nothing; DTR0 incremented
  - lock byte: RAM-RW; in a latching bank writing 0xAA takes a snapshot, any other value releases it
Variant flags (property C10): DTR0 failing to advance at any subset of steps, unlock value other than 0x55,
echo of a different byte, storing a different byte."""
from pyvc.spec import And, Or, Not, ite, type_of, is_instance
from pyvc import sym
from dali.gear import general as G
from dali.device import general as D
from dali.memory.location import MemoryType

WRITABLE = (MemoryType.RAM_RW, MemoryType.NVM_RW, MemoryType.NVM_RW_L, MemoryType.NVM_RW_P)


def select(items, idx):
    """items[idx] for a (possibly symbolic) index; out-of-range indices read an unspecified entry"""
    if not sym.is_sym(idx):
        return items[idx] if idx < len(items) else items[-1]
    r = items[-1]
    for i in range(len(items) - 2, -1, -1):
        r = ite(idx == i, items[i], r)
    return r


def store(items, idx, v, cond=True):
    """items[idx] := v under cond (in place)"""
    if not sym.is_sym(idx):
        if idx < len(items):
            items[idx] = ite(cond, v, items[idx])
        return
    for i in range(len(items)):
        items[i] = ite(And(cond, idx == i), v, items[i])


class MemoryUnit:
    def __init__(self, ctx, bankobj, device=False, variants=False, holes=True):
        self.ctx = ctx
        self.bankobj = bankobj
        self.bank = bankobj.address
        self.device = device
        self.latching = bankobj.has_latch
        self.dtr0 = ctx.int("u_dtr0", 0, 255)
        self.dtr1 = ctx.int("u_dtr1", 0, 255)
        self.we = ctx.bool("u_we")
        declared = [a for a, e in bankobj.locations.items() if e is not None]
        self.size = min(256, max(declared) + 3)      # image covers the declared map plus two further locations
        self.M = [ctx.int("m%d" % a, 0, 255 if a else self.size - 1) for a in range(self.size)]
        self.last = self.M[0]
        if self.bank != 0:
            ctx.assume(self.last >= 2)      # a bank with a lock byte implements it (102: 9.10.2)
        self.hole = ctx.int("u_hole", 3, 255) if holes else 255     # 255 = no hole (location 255 never exists)
        self.latched = False
        self.S = list(self.M)
        self.types = {}
        for a in range(255):
            e = bankobj.locations.get(a)
            self.types[a] = e.memory_location.type_ if e is not None else None
        self.protected = ctx.bool("u_protected")
        # variants of a non-conforming / faulty unit
        self.stuck_dtr0 = ctx.bool("v_stuck_dtr0") if (variants and variants != "no-stuck") else False
        self.unlock_value = ctx.int("v_unlock_value", 0, 255) if variants else 0x55
        self.echo_wrong = ctx.bool("v_echo_wrong") if variants else False
        self.stores_wrong = ctx.bool("v_stores_wrong") if variants else False
        self.unexpected = []
        self.writes = []            # (location, value, stored?) in order

    # ---- helpers
    def accessible(self, a):
        return And(a <= self.last, a != self.hole, a <= 254, a < self.size)

    def writable_type(self, a):
        """location a has a writable access type (lockable ones need the unlock value in the lock byte)"""
        conds = []
        for loc, t in self.types.items():
            if t is None:
                continue
            if t in WRITABLE:
                c = (a == loc)
                if t is MemoryType.NVM_RW_L:
                    c = And(c, self.M[2] == self.unlock_value)
                if t is MemoryType.NVM_RW_P:
                    c = And(c, Not(self.protected))
                conds.append(c)
        return Or(conds) if conds else False

    def inc(self):
        """DTR0 auto-increment; a faulty unit (variant) may fail to advance at any individual step"""
        if self.stuck_dtr0 is False:
            self.dtr0 = ite(self.dtr0 < 255, self.dtr0 + 1, 255)
        else:
            stick = And(self.stuck_dtr0, self.ctx.fresh_bool("v_stick_at_step"))
            self.dtr0 = ite(stick, self.dtr0, ite(self.dtr0 < 255, self.dtr0 + 1, 255))

    def step(self, cmd):
        t = type_of(cmd)
        GD = (G, D)
        if t in (G.DTR0, D.DTR0):
            self.dtr0 = cmd.param
            return None
        if t in (G.DTR1, D.DTR1):
            self.dtr1 = cmd.param
            return None
        if t in (G.DTR2, D.DTR2):
            return None
        if t in (G.QueryContentDTR0, D.QueryContentDTR0):
            return self.dtr0
        if t in (G.WriteMemoryLocation, D.WriteMemoryLocation, G.WriteMemoryLocationNoReply, D.WriteMemoryLocationNoReply):
            reply = t in (G.WriteMemoryLocation, D.WriteMemoryLocation)
            v = cmd.param
            selected = And(self.we, self.dtr1 == self.bank)
            a = self.dtr0
            ok = And(selected, self.accessible(a), self.writable_type(a))
            stored_v = ite(self.stores_wrong, v ^ 1, v) if self.stores_wrong is not False else v
            self.writes.append((a, v, ok))
            was_lock = And(ok, a == 2)
            if self.latching:
                take = And(was_lock, stored_v == 0xAA)
                for i in range(self.size):
                    self.S[i] = ite(take, self.M[i], self.S[i])
                self.latched = ite(was_lock, stored_v == 0xAA, self.latched)
            store(self.M, a, stored_v, ok)
            self.last = self.M[0]
            # DTR0 advances whenever the command is executed
            before = self.dtr0
            self.inc()
            self.dtr0 = ite(selected, self.dtr0, before)
            if not reply:
                return None
            echo = ite(self.echo_wrong, v ^ 0x80, stored_v) if self.echo_wrong is not False else stored_v
            if bool(ok):
                return echo
            return None
        # every other command disables writing
        self.we = False
        if t in (G.EnableWriteMemory, D.EnableWriteMemory):
            self.we = True
            return None
        if t in (G.ReadMemoryLocation, D.ReadMemoryLocation):
            a = self.dtr0
            selected = self.dtr1 == self.bank
            ok = And(selected, self.accessible(a))
            val = select(self.S, a) if self.latching else select(self.M, a)
            if self.latching:
                val = ite(self.latched, select(self.S, a), select(self.M, a))
            before = self.dtr0
            self.inc()
            self.dtr0 = ite(selected, self.dtr0, before)
            if bool(ok):
                return val
            return None
        self.unexpected.append(t.__name__)
        return None
