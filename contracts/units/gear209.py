"""Assumed contract of an IEC 62386-209 (device type 8) control gear with colour temperature Tc.
Written from 62386-209:2011 11.3.4 (commands 231, 226, 242 with DTR2 selector, 250) and 62386-102 (DTR loads,
QUERY CONTENT DTR0).  Trusted; not verified.  `addressed(cmd)` decides whether the observed unit reacts."""
from pyvc.spec import And, Or, Not, ite, type_of, is_instance
from dali.gear import general as G, colour as COL


class TcUnit:
    def __init__(self, ctx, reacts_to):
        self.ctx = ctx
        self.reacts_to = reacts_to                    # predicate on the destination object
        self.dtr0 = ctx.int("u_dtr0", 0, 255)
        self.dtr1 = ctx.int("u_dtr1", 0, 255)
        self.dtr2 = ctx.int("u_dtr2", 0, 255)
        self.temporary_tc = ctx.int("u_temp_tc", 0, 65535)
        self.actual_tc = ctx.int("u_actual_tc", 0, 65535)
        self.limits = [ctx.int("u_limit%d" % i, 0, 65535) for i in range(4)]
        self.level = ctx.int("u_level", 0, 254)
        # value reported by QUERY COLOUR VALUE for the selector in DTR0: arbitrary 16 bits
        self.reported = ctx.int("u_reported", 0, 65535)
        self.unexpected = []

    def step(self, cmd):
        t = type_of(cmd)
        if t is G.DTR0:
            self.dtr0 = cmd.param
            return None
        if t is G.DTR1:
            self.dtr1 = cmd.param
            return None
        if t is G.DTR2:
            self.dtr2 = cmd.param
            return None
        if t is G.QueryContentDTR0:
            return self.dtr0 if self.reacts_to(cmd.destination) else None
        if t is G.QueryActualLevel:
            return self.level if self.reacts_to(cmd.destination) else None
        if not self.reacts_to(cmd.destination):
            return None
        if t is COL.SetTemporaryColourTemperature:
            self.temporary_tc = (self.dtr1 << 8) | self.dtr0
            return None
        if t is COL.Activate:
            self.actual_tc = self.temporary_tc
            return None
        if t is COL.StoreColourTemperatureTcLimit:
            v = (self.dtr1 << 8) | self.dtr0
            for i in range(4):
                self.limits[i] = ite(self.dtr2 == i, v, self.limits[i])
            return None
        if t is COL.QueryColourValue:
            self.selector_used = self.dtr0
            msb = (self.reported >> 8) & 0xFF
            self.dtr0 = self.reported & 0xFF
            self.dtr1 = msb
            return msb
        self.unexpected.append(t.__name__)
        return None
