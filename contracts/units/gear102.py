"""Assumed contract of an IEC 62386-102 control gear (group membership, device-type list, addressing).
Written from 62386-102:2014 (11.4 groups: cmds 96-127, 192/193; 11.5 QUERY DEVICE TYPE cmd 153 and QUERY NEXT
DEVICE TYPE cmd 167; 9.14/11.7 initialisation and addressing).  Trusted; not verified."""
from pyvc.spec import And, Or, Not, ite, type_of, is_instance
from dali.gear import general as G


class GroupsAndTypesUnit:
    """one control gear: 16-bit group mask, ascending list of device types (concrete length, symbolic values)"""

    def __init__(self, ctx, ntypes=0, reacts_to=lambda d: True):
        self.reacts_to = reacts_to
        self.groups = ctx.int("u_groups", 0, 0xFFFF)
        self.types = []
        prev = None
        for i in range(ntypes):
            t = ctx.int("u_type%d" % i, 0, 253)
            if prev is not None:
                ctx.assume(t > prev)
            prev = t
            self.types.append(t)
        self.cursor = None          # index of the next type to report, None when no enumeration is running
        self.unexpected = []

    def step(self, cmd):
        t = type_of(cmd)
        if not self.reacts_to(cmd.destination):
            return None
        if t is G.QueryDeviceType:
            self.cursor = None
            if len(self.types) == 0:
                return 254
            if len(self.types) == 1:
                return self.types[0]
            self.cursor = 0
            return 255
        if t is G.QueryNextDeviceType:
            if self.cursor is None:
                return None
            if self.cursor < len(self.types):
                v = self.types[self.cursor]
                self.cursor += 1
                return v
            self.cursor = None
            return 254
        self.cursor = None
        if t is G.QueryGroupsZeroToSeven:
            return self.groups & 0xFF
        if t is G.QueryGroupsEightToFifteen:
            return (self.groups >> 8) & 0xFF
        if t is G.AddToGroup:
            self.groups = self.groups | (1 << cmd.param)
            return None
        if t is G.RemoveFromGroup:
            self.groups = self.groups & ~(1 << cmd.param)
            return None
        self.unexpected.append(t.__name__)
        return None


class AdversarialAnswers:
    """a unit that answers anything: a finite prefix of arbitrary answers (value / silence / framing error),
    afterwards `tail` for ever"""

    def __init__(self, ctx, n, tail=254):
        self.answers = []
        for i in range(n):
            kind = ctx.int("adv_kind%d" % i, 0, 2)      # 0 clean value, 1 silence, 2 framing error
            val = ctx.int("adv_val%d" % i, 0, 255)
            self.answers.append((kind, val))
        self.tail = tail
        self.k = 0
        self.given = []             # (kind, value) actually delivered

    def step(self, cmd):
        if cmd.response is None:
            return None
        if self.k < len(self.answers):
            kind, val = self.answers[self.k]
            self.k += 1
            if kind == 1:
                self.given.append((1, None))
                return None
            if kind == 2:
                self.given.append((2, val))
                return ("garbled", val)
            self.given.append((0, val))
            return val
        self.given.append((0, self.tail))
        return self.tail
