"""Assumed contract of an IEC 62386-103 control device with instances (event filter, event scheme, input value).
Written from 62386-103:2014 9.7 (input value, resolution), 9.6 (event filter, event scheme), 11.x command tables.
Trusted; not verified."""
from pyvc.spec import And, Or, Not, ite, type_of, is_instance
from dali.device import general as D


class InstanceUnit:
    """one instance of one control device; every register symbolic"""

    def __init__(self, ctx, filter_width=24, resolution=8):
        self.dtr0 = ctx.int("u_dtr0", 0, 255)
        self.dtr1 = ctx.int("u_dtr1", 0, 255)
        self.dtr2 = ctx.int("u_dtr2", 0, 255)
        self.filter_width = filter_width
        self.filter = ctx.int("u_filter", 0, (1 << filter_width) - 1)
        self.scheme = ctx.int("u_scheme", 0, 4)
        self.resolution = resolution
        nbytes = (resolution + 7) // 8
        self.value = ctx.int("u_value", 0, (1 << resolution) - 1)
        pad_bits = 8 * nbytes - resolution
        # the unused low bits of the last byte are not specified by this contract
        self.padding = ctx.int("u_padding", 0, (1 << pad_bits) - 1) if pad_bits else 0
        self.presented = (self.value << pad_bits) | self.padding
        self.nbytes = nbytes
        self.latch_pos = None
        self.unexpected = []

    def step(self, cmd):
        t = type_of(cmd)
        if t is D.DTR0:
            self.dtr0 = cmd.param
            return None
        if t is D.DTR1:
            self.dtr1 = cmd.param
            return None
        if t is D.DTR2:
            self.dtr2 = cmd.param
            return None
        if t is D.DTR1DTR0:
            self.dtr1, self.dtr0 = cmd.param_1, cmd.param_2
            return None
        if t is D.DTR2DTR1:
            self.dtr2, self.dtr1 = cmd.param_1, cmd.param_2
            return None
        if t is D.SetEventFilter:
            v = (self.dtr2 << 16) | (self.dtr1 << 8) | self.dtr0
            self.filter = v & ((1 << self.filter_width) - 1)
            return None
        if t is D.QueryEventFilterZeroToSeven:
            return self.filter & 0xFF
        if t is D.QueryEventFilterEightToFifteen:
            return (self.filter >> 8) & 0xFF
        if t is D.QueryEventFilterSixteenToTwentyThree:
            return (self.filter >> 16) & 0xFF
        if t is D.SetEventScheme:
            self.scheme = ite(self.dtr0 <= 4, self.dtr0, self.scheme)
            return None
        if t is D.QueryEventScheme:
            return self.scheme
        if t is D.QueryResolution:
            return self.resolution
        if t is D.QueryInputValue:
            self.latch_pos = 1
            return (self.presented >> (8 * (self.nbytes - 1))) & 0xFF
        if t is D.QueryInputValueLatch:
            if self.latch_pos is None or self.latch_pos >= self.nbytes:
                self.unexpected.append("QueryInputValueLatch beyond the latched value")
                return None
            k = self.latch_pos
            self.latch_pos += 1
            return (self.presented >> (8 * (self.nbytes - 1 - k))) & 0xFF
        self.unexpected.append(t.__name__)
        return None
