"""Contracts for dali/address.py, stated over the Frame view (bits, data) from the
address-byte partition of IEC 62386-102 7.2 / -103 7.2.1 as quoted in property C04:

  16-bit frame, bits 15:9    0AAAAAA short A | 100AAAA group A | 1111111 broadcast | 1111110 unaddressed
  24-bit frame, bit 16 set,  0AAAAAA short A | 10GGGGG group G | 1111111 broadcast | 1111110 unaddressed
  bits 23:17
  instance byte (bits 15:8)  000nnnnn number | 100nnnnn group | 110nnnnn type | 001nnnnn feature number |
                             101nnnnn feature group | 011nnnnn feature type | FD feature broadcast |
                             FF broadcast | FC feature on device | FE device | anything else reserved
"""
from pyvc.engine import contract
from pyvc.spec import (And, Or, Not, ite, is_int, is_bool, throw, require, ANY_STR, new_object,
                       is_instance, type_of)
from dali import address as A
from dali.exceptions import IncompatibleFrame
from contracts.frame import wf

K = "dali.address:"

# kind table: class -> (frame size, shift of the 7-bit address field, field name or None, lo, hi, encode, match, decode)
#   encode(n) -> 7-bit pattern; match(a) -> does pattern a denote this kind; decode(a) -> number
ADDR = {
    A.GearShort: dict(size=16, shift=9, field="address", hi=63, enc=lambda n: n, match=lambda a: a < 0x40, dec=lambda a: a),
    A.GearGroup: dict(size=16, shift=9, field="group", hi=15, enc=lambda n: 0x40 | n,
                      match=lambda a: And(a >= 0x40, a <= 0x4F), dec=lambda a: a & 0x0F),
    A.GearBroadcast: dict(size=16, shift=9, field=None, enc=lambda n: 0x7F, match=lambda a: a == 0x7F),
    A.GearBroadcastUnaddressed: dict(size=16, shift=9, field=None, enc=lambda n: 0x7E, match=lambda a: a == 0x7E),
    A.DeviceShort: dict(size=24, shift=17, field="address", hi=63, enc=lambda n: n, match=lambda a: a < 0x40,
                        dec=lambda a: a),
    A.DeviceGroup: dict(size=24, shift=17, field="group", hi=31, enc=lambda n: 0x40 | n,
                        match=lambda a: And(a >= 0x40, a <= 0x5F), dec=lambda a: a & 0x1F),
    A.DeviceBroadcast: dict(size=24, shift=17, field=None, enc=lambda n: 0x7F, match=lambda a: a == 0x7F),
    A.DeviceBroadcastUnaddressed: dict(size=24, shift=17, field=None, enc=lambda n: 0x7E, match=lambda a: a == 0x7E),
}


def addr_number(a):
    k = ADDR[type_of(a)]
    return getattr(a, k["field"]) if k["field"] else 0


def addr_wf(a):
    k = ADDR[type_of(a)]
    if k["field"] is None:
        return True
    n = getattr(a, k["field"])
    return And(n >= 0, n <= k["hi"])


def spec_from_frame(cls, f):
    """the standard's partition restricted to one kind"""
    k = ADDR[cls]
    if f._bits != k["size"]:
        return None
    if k["size"] == 24:
        if ((f._data >> 16) & 1) == 0:
            return None
    a = (f._data >> k["shift"]) & 0x7F
    if k["match"](a):
        if k["field"] is None:
            return new_object(cls)
        return new_object(cls, **{k["field"]: k["dec"](a)})
    return None


def spec_add_to_frame(self, f):
    k = ADDR[type_of(self)]
    if f._bits != k["size"]:
        throw(IncompatibleFrame)
    field = 0x7F << k["shift"]
    f._data = (f._data & ~field) | (k["enc"](addr_number(self)) << k["shift"])


def _register_address_contracts():
    for cls, k in ADDR.items():
        name = cls.__name__

        def mk_from(cls=cls):
            def from_frame(cls_arg, f):
                require(wf(f))
                return spec_from_frame(cls, f)
            return from_frame

        def mk_add(cls=cls):
            def add_to_frame(self, f):
                require(wf(f))
                require(addr_wf(self))
                return spec_add_to_frame(self, f)
            return add_to_frame

        def mk_eq(cls=cls, k=k):
            def eq(self, other):
                if not is_instance(other, cls):
                    return False
                if k["field"] is None:
                    return True
                return getattr(other, k["field"]) == getattr(self, k["field"])
            return eq

        def mk_init(cls=cls, k=k):
            def init(self, n):
                if not is_int(n):
                    throw(ValueError)
                if Or(n < 0, n > k["hi"]):
                    throw(ValueError)
                setattr(self, k["field"], n)
            return init

        contract(K + name + ".from_frame")(mk_from())
        contract(K + name + ".add_to_frame")(mk_add())
        contract(K + name + ".__eq__")(mk_eq())
        contract(K + name + ".__str__")(lambda self: ANY_STR)
        if k["field"] is not None:
            contract(K + name + ".__init__")(mk_init())


_register_address_contracts()


def spec_address_of(f):
    """the whole partition: at most one kind per frame"""
    if f._bits == 16:
        a = (f._data >> 9) & 0x7F
        if a < 0x40:
            return new_object(A.GearShort, address=a)
        if a < 0x50:
            return new_object(A.GearGroup, group=a & 0x0F)
        if a == 0x7F:
            return new_object(A.GearBroadcast)
        if a == 0x7E:
            return new_object(A.GearBroadcastUnaddressed)
        return None
    if f._bits == 24:
        if ((f._data >> 16) & 1) == 0:
            return None
        a = (f._data >> 17) & 0x7F
        if a < 0x40:
            return new_object(A.DeviceShort, address=a)
        if a < 0x60:
            return new_object(A.DeviceGroup, group=a & 0x1F)
        if a == 0x7F:
            return new_object(A.DeviceBroadcast)
        if a == 0x7E:
            return new_object(A.DeviceBroadcastUnaddressed)
        return None
    return None


@contract(K + "Address.from_frame")
def address_from_frame(cls, f):
    require(wf(f))
    if cls is not A.Address:
        return None
    return spec_address_of(f)


@contract(K + "Address.add_to_frame")
def address_add_to_frame(self, f):
    throw(IncompatibleFrame)


@contract(K + "Address.__str__")
def address_str(self):
    return ANY_STR


# ----------------------------------------------------------------------------- instance bytes
INST_FLAGS = {A.InstanceNumber: 0x00, A.InstanceGroup: 0x80, A.InstanceType: 0xC0,
              A.FeatureInstanceNumber: 0x20, A.FeatureInstanceGroup: 0xA0, A.FeatureInstanceType: 0x60}
INST_VALS = {A.FeatureInstanceBroadcast: 0xFD, A.InstanceBroadcast: 0xFF, A.FeatureDevice: 0xFC, A.Device: 0xFE}


def instance_byte(inst):
    c = type_of(inst)
    if c in INST_FLAGS:
        return INST_FLAGS[c] | inst._value
    if c in INST_VALS:
        return INST_VALS[c]
    if c is A.ReservedInstance:
        return inst._value
    raise KeyError(c)


def instance_wf(inst):
    c = type_of(inst)
    if c in INST_FLAGS:
        return And(inst._value >= 0, inst._value <= 31)
    if c is A.ReservedInstance:
        return And(inst._value >= 0, inst._value <= 255)
    return True


def spec_instance_add_to_frame(self, f):
    if f._bits != 24:
        throw(IncompatibleFrame)
    f._data = (f._data & ~(0xFF << 8)) | (instance_byte(self) << 8)


def spec_instance_of_byte(b):
    top = (b >> 5) & 7
    n = b & 0x1F
    for cls, fl in INST_FLAGS.items():
        if top == (fl >> 5):
            return new_object(cls, _value=n)
    for cls, v in INST_VALS.items():
        if b == v:
            return new_object(cls)
    return new_object(A.ReservedInstance, _value=b)


@contract(K + "instance_from_frame")
def instance_from_frame(f):
    require(wf(f))
    if f._bits != 24:
        return None
    return spec_instance_of_byte((f._data >> 8) & 0xFF)


@contract(K + "_AddressedInstance.add_to_frame")
def addressed_instance_add(self, f):
    require(wf(f))
    require(instance_wf(self))
    spec_instance_add_to_frame(self, f)


@contract(K + "_UnaddressedInstance.add_to_frame")
def unaddressed_instance_add(self, f):
    require(wf(f))
    spec_instance_add_to_frame(self, f)


@contract(K + "ReservedInstance.add_to_frame")
def reserved_instance_add(self, f):
    require(wf(f))
    require(instance_wf(self))
    spec_instance_add_to_frame(self, f)


@contract(K + "_AddressedInstance.__init__")
def addressed_instance_init(self, value):
    if not is_int(value):
        throw(ValueError)
    if Or(value < 0, value > 31):
        throw(ValueError)
    self._value = value


@contract(K + "_UnaddressedInstance.__init__")
def unaddressed_instance_init(self):
    return None


@contract(K + "ReservedInstance.__init__")
def reserved_instance_init(self, value):
    self._value = value


def has_value(x):
    return type_of(x) in INST_FLAGS or type_of(x) is A.ReservedInstance


@contract(K + "Instance.__eq__")
def instance_eq(self, other):
    """property C04: equality holds exactly when kind and number agree"""
    if not is_instance(other, type_of(self)):
        return False
    if has_value(self):
        if not has_value(other):
            return False
        return self._value == other._value
    return not has_value(other)


@contract(K + "Instance.value")
def instance_value(self):
    if has_value(self):
        return self._value
    return None


@contract(K + "_AddressedInstance.__str__")
def addressed_instance_str(self):
    return ANY_STR


@contract(K + "_UnaddressedInstance.__str__")
def unaddressed_instance_str(self):
    return ANY_STR


@contract(K + "ReservedInstance.__str__")
def reserved_instance_str(self):
    require(is_int(self._value))
    return ANY_STR
