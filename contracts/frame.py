"""Contracts (executable specification functions) for dali/frame.py.

Abstract view of a Frame: (bits, data) with the representation invariant
    wf:  1 <= bits  and  0 <= data < 2**bits
i.e. the list-of-bits model with bit i = (data >> i) & 1.  Every specification
below is stated over that view, from the property statement (C05), not from the
code's mask arithmetic.  The functions run on symbolic proxies (proof) and on
real Frame objects (native replay).
"""
from pyvc.engine import contract
from pyvc.spec import (And, Or, Not, ite, is_int, is_bool, pow2, shl, smin, smax, throw, require,
                       ANY_STR, concretize, new_object, is_instance, seq_items, is_seq_of_ints, const_true)
from dali import frame as F

WMAX = 64       # bound on frame widths covered by the proofs (quick: 64, thorough: 256)


def wf(self):
    return And(self._bits >= 1, self._bits <= WMAX, self._data >= 0, self._data < pow2(self._bits))


def is_frame(x):
    return is_instance(x, F.Frame)


# ----------------------------------------------------------------------------- construction
def bytes_value(data):
    """big-endian number denoted by a sequence of byte values"""
    v = 0
    for b in seq_items(data):
        v = (v << 8) | b
    return v


@contract("dali.frame:Frame.__init__")
def frame_init(self, bits, data=0):
    if not is_int(bits):
        throw(TypeError)
    if bits < 1:
        throw(ValueError)
    require(bits <= WMAX, "width within the verified bound")
    if is_int(data):
        d = data
    else:
        if not is_seq_of_ints(data):
            throw(TypeError)
        for b in seq_items(data):
            if Or(b < 0, b > 255):
                throw(ValueError)
        d = bytes_value(data)
    if d < 0:
        throw(ValueError)
    if d >= pow2(bits):
        throw(ValueError)
    self._bits = bits
    self._data = d
    self._error = False


@contract("dali.frame:BackwardFrame.__init__")
def backward_init(self, data):
    frame_init(self, 8, data)


@contract("dali.frame:BackwardFrameError.__init__")
def backward_error_init(self, data):
    frame_init(self, 8, data)
    self._error = True


# ----------------------------------------------------------------------------- observers
@contract("dali.frame:Frame.error")
def frame_error(self):
    return self._error


@contract("dali.frame:Frame.__len__")
def frame_len(self):
    return self._bits


@contract("dali.frame:Frame.__eq__")
def frame_eq(self, other):
    if not is_frame(other):
        return False
    return And(self._bits == other._bits, self._data == other._data)


@contract("dali.frame:Frame.__ne__")
def frame_ne(self, other):
    return Not(frame_eq(self, other))


@contract("dali.frame:Frame.as_integer")
def frame_as_integer(self):
    return self._data


def _slice_bounds(self, key):
    """(hi, lo) of a slice key, or the documented exception."""
    if Not(And(is_int(key.start), is_int(key.stop))):
        throw(TypeError)
    if Not(Or(key.step is None, key.step == 1)):
        throw(TypeError)
    hi = smax(key.start, key.stop)
    lo = smin(key.start, key.stop)
    if Or(lo < 0, hi >= self._bits):
        throw(IndexError)
    return hi, lo


@contract("dali.frame:Frame._readslice")
def frame_readslice(self, key):
    require(wf(self))
    return _slice_bounds(self, key)


@contract("dali.frame:Frame.__getitem__")
def frame_getitem(self, key):
    require(wf(self))
    if isinstance(key, slice):
        hi, lo = _slice_bounds(self, key)
        return (self._data >> lo) & (pow2(hi - lo + 1) - 1)
    if is_int(key):
        if Or(key < 0, key >= self._bits):
            throw(IndexError)
        return ((self._data >> key) & 1) != 0
    throw(TypeError)


@contract("dali.frame:Frame.__setitem__")
def frame_setitem(self, key, value):
    require(wf(self))
    if isinstance(key, slice):
        if Not(And(is_int(key.start), is_int(key.stop))):
            throw(TypeError)
        if Not(Or(key.step is None, key.step == 1)):
            throw(TypeError)
        hi = smax(key.start, key.stop)
        lo = smin(key.start, key.stop)
        if Or(lo < 0, hi >= self._bits):
            # two documented errors at once: either may be reported
            if is_int(value):
                throw(IndexError)
            throw(IndexError, TypeError)
        if not is_int(value):
            throw(TypeError)
        width = hi - lo + 1
        if Or(value < 0, value >= pow2(width)):
            throw(ValueError)
        field = (pow2(width) - 1) << lo
        self._data = (self._data & ~field) | (value << lo)
        return None
    if is_int(key):
        if Or(key < 0, key >= self._bits):
            throw(IndexError)
        t = truthy(value)
        self._data = ite(t, self._data | pow2(key), self._data & ~pow2(key))
        return None
    throw(TypeError)


def truthy(v):
    """truth value of a plain value (ints, bools, None, containers)"""
    if is_bool(v):
        return v
    if is_int(v):
        return v != 0
    return bool(v)


@contract("dali.frame:Frame.__contains__")
def frame_contains(self, item):
    require(wf(self))
    if is_bool(item):
        return ite(item, self._data != 0, self._data != pow2(self._bits) - 1)
    return False


@contract("dali.frame:Frame.__add__")
def frame_add(self, other):
    require(wf(self))
    if not is_frame(other):
        throw(TypeError)
    require(wf(other))
    require(self._bits + other._bits <= WMAX, "sum of widths within the verified bound")
    return new_object(F.Frame, _bits=self._bits + other._bits,
                      _data=shl(self._data, other._bits) | other._data, _error=False)


def _big_endian(data, n):
    return [(data >> (8 * (n - 1 - i))) & 0xFF for i in range(n)]


@contract("dali.frame:Frame.pack")
def frame_pack(self):
    require(wf(self))
    n = concretize((self._bits + 7) // 8)
    return bytes_of(_big_endian(self._data, n))


@contract("dali.frame:Frame.as_byte_sequence")
def frame_as_byte_sequence(self):
    require(wf(self))
    n = concretize((self._bits + 7) // 8)
    return _big_endian(self._data, n)


@contract("dali.frame:Frame.pack_len")
def frame_pack_len(self, l):
    require(wf(self))
    if not is_int(l):
        throw(TypeError)
    if Or(l < -(1 << 63), l >= (1 << 63)):
        throw(OverflowError)        # a length that is not a machine-size integer cannot be honoured either
    if l < 0:
        throw(ValueError)
    require(l <= WMAX // 8 + 2, "length within the verified bound")
    n = concretize(l)
    if self._data >= pow2(8 * n):
        throw(OverflowError)
    return bytes_of(_big_endian(self._data, n))


@contract("dali.frame:Frame.__str__")
def frame_str(self):
    require(wf(self))
    return ANY_STR


@contract("dali.frame:BackwardFrame.__str__")
def backward_str(self):
    return ANY_STR


@contract("dali.frame:ForwardFrame.is_reserved")
def ff_is_reserved(self):
    return Or(self._bits == 20, self._bits == 32)


@contract("dali.frame:ForwardFrame.is_proprietary")
def ff_is_proprietary(self):
    return Not(Or(self._bits == 16, self._bits == 20, self._bits == 24, self._bits == 32))


def bytes_of(items):
    from pyvc.values import mk_bytes
    return mk_bytes(items)


# ----------------------------------------------------------------------------- canonical representation
from pyvc.values import register_canon, SObj as _SObj        # noqa: E402


def _rebuild_frame(interp, cls, view):
    """a Frame of class cls with this (bits, data, error) view, built by the real Frame.__init__"""
    from pyvc import sym as _sym
    if _sym.ctx() is None:
        o = cls.__new__(cls)
        F.Frame.__init__(o, view["_bits"], view["_data"])
        o._error = view["_error"]
        return o
    o = _SObj(cls, {}, fresh=True)
    saved = interp.contracts
    interp.contracts = {k: v for k, v in saved.items() if k != "dali.frame:Frame.__init__"}
    try:
        interp.call_repo_function(F.Frame.__init__, (o, view["_bits"], view["_data"]), {}, force_body=True)
    finally:
        interp.contracts = saved
    missing = [f for f in ("_bits", "_data", "_error") if f not in o.fields]
    if missing:
        # the contracts of Frame are written over the private fields _bits / _data / _error; a Frame whose constructor no
        # longer produces them has another representation, and nothing can be concluded from these contracts
        raise _sym.Unsupported("Frame.__init__ does not set %s: the Frame contracts are written over another "
                               "representation of the class" % ", ".join(missing))
    o.fields["_error"] = view["_error"]
    return o


register_canon(F.Frame, ("_bits", "_data", "_error"), _rebuild_frame)
