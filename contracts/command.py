"""Call-site contract of Command.from_frame for the driver proofs (the function itself is verified in C01/C02/C12).

requires: the argument is a ForwardFrame (Command.__init__ refuses anything else)
ensures : the result is a command whose frame is the argument; it is an EnableDeviceType(param) exactly for the 16-bit
          frames C1 pp (IEC 62386-102 Table 16); what else it is, is left uninterpreted: the result records the
          (frame, device type, map) it was decoded under, so that two decodings can be compared."""
from pyvc.engine import contract
from pyvc.spec import And, Or, Not, ite, require, is_instance, new_object
from dali import frame as F, command as C
from dali.gear import general as G

KEY = "dali.command:Command.from_frame"


@contract(KEY)
def from_frame_contract(cls, f, devicetype=0, dev_inst_map=None):
    require(is_instance(f, F.ForwardFrame), "argument is a ForwardFrame")
    if f._bits == 16:
        if ((f._data >> 8) & 0xFF) == 0xC1:
            return new_object(G.EnableDeviceType, _data=f, param=f._data & 0xFF)
    # flags of the decoded command: a function of (frame, device type) in reality, arbitrary here
    from pyvc import sym as _sym
    c = _sym.ctx()
    twice = bool(c.fresh_bool("decoded_sendtwice")) if c is not None else False
    resp = None
    if not twice and c is not None and bool(c.fresh_bool("decoded_is_query")):
        resp = C.NumericResponse
    return new_object(C.Command, _data=f, _decoded_under=(devicetype, dev_inst_map), sendtwice=twice, response=resp)
